// LD_PRELOAD fault injector for C19: fails (EIO) or kills the process at the N-th call of one libc function
// that concerns the tails writer's temporary file ("*.tmp" paths, or the descriptor opened for one).
//   FAULT_OP   = open | write | lseek | rename | unlink | none
//   FAULT_N    = 1-based occurrence
//   FAULT_KIND = error | kill
//   FAULT_LOG  = file to append "op n" lines for every matching call (used to enumerate the steps of a clean run)
#define _GNU_SOURCE
#include <dlfcn.h>
#include <errno.h>
#include <fcntl.h>
#include <signal.h>
#include <stdarg.h>
#include <stdio.h>
#include <stdlib.h>
#include <string.h>
#include <sys/types.h>
#include <unistd.h>

static int tmp_fd = -1;
static int counts[5];
enum { OP_OPEN, OP_WRITE, OP_LSEEK, OP_RENAME, OP_UNLINK };
static const char *names[] = {"open", "write", "lseek", "rename", "unlink"};

static int is_tmp(const char *p) {
    if (!p) return 0;
    size_t n = strlen(p);
    return n > 4 && strcmp(p + n - 4, ".tmp") == 0;
}

// FAULT_PREPLANT=<bytes>: just before the writer creates its temporary file, a file with that very name and <bytes> bytes of stale
// content is put there — the leftover of an earlier writer that was killed and whose name the new writer happens to draw again.
static void preplant(const char *path) {
    const char *pp = getenv("FAULT_PREPLANT");
    if (!pp) return;
    static int done = 0;
    if (done) return;
    done = 1;
    int (*real_open)(const char *, int, ...) = dlsym(RTLD_NEXT, "open");
    ssize_t (*real_write)(int, const void *, size_t) = dlsym(RTLD_NEXT, "write");
    int (*real_close)(int) = dlsym(RTLD_NEXT, "close");
    int fd = real_open(path, O_CREAT | O_WRONLY | O_EXCL, 0644);
    if (fd < 0) return;
    long n = atol(pp);
    char buf[256];
    memset(buf, 0xAB, sizeof buf);
    while (n > 0) { size_t k = n > (long)sizeof buf ? sizeof buf : (size_t)n; real_write(fd, buf, k); n -= (long)k; }
    real_close(fd);
}

// returns 1 if the call must fail with EIO (kill does not return)
static int hit(int op) {
    counts[op]++;
    const char *log = getenv("FAULT_LOG");
    if (log) {
        FILE *(*real_fopen)(const char *, const char *) = dlsym(RTLD_NEXT, "fopen");
        FILE *f = real_fopen(log, "a");
        if (f) { fprintf(f, "%s %d\n", names[op], counts[op]); fclose(f); }
    }
    const char *fop = getenv("FAULT_OP");
    const char *fn = getenv("FAULT_N");
    const char *kind = getenv("FAULT_KIND");
    if (!fop || !fn || strcmp(fop, names[op]) != 0 || atoi(fn) != counts[op]) return 0;
    if (kind && strcmp(kind, "kill") == 0) {
        kill(getpid(), SIGKILL);
        _exit(137);
    }
    return 1;
}

#define OPEN_BODY(NAME, CALL)                                            \
    static int (*real)(const char *, int, ...) = 0;                      \
    if (!real) real = dlsym(RTLD_NEXT, NAME);                            \
    mode_t mode = 0;                                                     \
    if (flags & (O_CREAT | O_TMPFILE)) { va_list ap; va_start(ap, flags); mode = va_arg(ap, mode_t); va_end(ap); } \
    if (is_tmp(path) && (flags & O_CREAT)) {                             \
        preplant(path);                                                  \
        if (hit(OP_OPEN)) { errno = EIO; return -1; }                    \
        int fd = CALL;                                                   \
        if (fd >= 0) tmp_fd = fd;                                        \
        return fd;                                                       \
    }                                                                    \
    return CALL;

int open(const char *path, int flags, ...) { OPEN_BODY("open", real(path, flags, mode)) }
int open64(const char *path, int flags, ...) { OPEN_BODY("open64", real(path, flags, mode)) }

int openat(int dirfd, const char *path, int flags, ...) {
    static int (*real)(int, const char *, int, ...) = 0;
    if (!real) real = dlsym(RTLD_NEXT, "openat");
    mode_t mode = 0;
    if (flags & (O_CREAT | O_TMPFILE)) { va_list ap; va_start(ap, flags); mode = va_arg(ap, mode_t); va_end(ap); }
    if (is_tmp(path) && (flags & O_CREAT)) {
        preplant(path);
        if (hit(OP_OPEN)) { errno = EIO; return -1; }
        int fd = real(dirfd, path, flags, mode);
        if (fd >= 0) tmp_fd = fd;
        return fd;
    }
    return real(dirfd, path, flags, mode);
}
int openat64(int dirfd, const char *path, int flags, ...) {
    static int (*real)(int, const char *, int, ...) = 0;
    if (!real) real = dlsym(RTLD_NEXT, "openat64");
    mode_t mode = 0;
    if (flags & (O_CREAT | O_TMPFILE)) { va_list ap; va_start(ap, flags); mode = va_arg(ap, mode_t); va_end(ap); }
    if (is_tmp(path) && (flags & O_CREAT)) {
        preplant(path);
        if (hit(OP_OPEN)) { errno = EIO; return -1; }
        int fd = real(dirfd, path, flags, mode);
        if (fd >= 0) tmp_fd = fd;
        return fd;
    }
    return real(dirfd, path, flags, mode);
}

ssize_t write(int fd, const void *buf, size_t n) {
    static ssize_t (*real)(int, const void *, size_t) = 0;
    if (!real) real = dlsym(RTLD_NEXT, "write");
    if (fd >= 0 && fd == tmp_fd) {
        if (hit(OP_WRITE)) { errno = EIO; return -1; }
    }
    return real(fd, buf, n);
}

off_t lseek(int fd, off_t off, int whence) {
    static off_t (*real)(int, off_t, int) = 0;
    if (!real) real = dlsym(RTLD_NEXT, "lseek");
    if (fd >= 0 && fd == tmp_fd) {
        if (hit(OP_LSEEK)) { errno = EIO; return -1; }
    }
    return real(fd, off, whence);
}
off64_t lseek64(int fd, off64_t off, int whence) {
    static off64_t (*real)(int, off64_t, int) = 0;
    if (!real) real = dlsym(RTLD_NEXT, "lseek64");
    if (fd >= 0 && fd == tmp_fd) {
        if (hit(OP_LSEEK)) { errno = EIO; return -1; }
    }
    return real(fd, off, whence);
}

int close(int fd) {
    static int (*real)(int) = 0;
    if (!real) real = dlsym(RTLD_NEXT, "close");
    if (fd == tmp_fd) tmp_fd = -1;
    return real(fd);
}

int rename(const char *from, const char *to) {
    static int (*real)(const char *, const char *) = 0;
    if (!real) real = dlsym(RTLD_NEXT, "rename");
    if (is_tmp(from)) {
        if (hit(OP_RENAME)) { errno = EIO; return -1; }
    }
    return real(from, to);
}

int unlink(const char *path) {
    static int (*real)(const char *) = 0;
    if (!real) real = dlsym(RTLD_NEXT, "unlink");
    if (is_tmp(path)) {
        if (hit(OP_UNLINK)) { errno = EIO; return -1; }
    }
    return real(path);
}

//! `extern "C"` declarations of the symbols exported by the anoncreds rlib (src/ffi/**).
#![allow(dead_code)]
use std::ffi::{CStr, CString};
use std::os::raw::c_char;

pub type ErrorCode = usize;
pub type ObjectHandle = usize;

#[repr(C)]
#[derive(Clone, Copy)]
pub struct FfiList<T> {
    pub count: usize,
    pub data: *const T,
}
impl<T> FfiList<T> {
    pub fn from_slice(v: &[T]) -> Self {
        FfiList { count: v.len(), data: if v.is_empty() { std::ptr::null() } else { v.as_ptr() } }
    }
    pub fn empty() -> Self {
        FfiList { count: 0, data: std::ptr::null() }
    }
}
pub type FfiStrList = FfiList<*const c_char>;

#[repr(C)]
pub struct ByteBuffer {
    pub len: i64,
    pub data: *mut u8,
}

extern "C" {
    pub fn anoncreds_encode_credential_attributes(attr_raw_values: FfiStrList, result_p: *mut *const c_char) -> ErrorCode;
    pub fn anoncreds_get_current_error(error_json_p: *mut *const c_char) -> ErrorCode;
    pub fn anoncreds_string_free(s: *mut c_char);
    pub fn anoncreds_object_free(handle: ObjectHandle);
    pub fn anoncreds_object_get_json(handle: ObjectHandle, result_p: *mut ByteBuffer) -> ErrorCode;
    pub fn anoncreds_object_get_type_name(handle: ObjectHandle, result_p: *mut *const c_char) -> ErrorCode;
    pub fn anoncreds_buffer_free(buffer: ByteBuffer);
}

/// take ownership of a C string returned by the library
pub unsafe fn take_string(p: *const c_char) -> String {
    if p.is_null() {
        return String::new();
    }
    let s = CStr::from_ptr(p).to_string_lossy().into_owned();
    anoncreds_string_free(p as *mut c_char);
    s
}

pub fn current_error() -> String {
    unsafe {
        let mut p: *const c_char = std::ptr::null();
        anoncreds_get_current_error(&mut p);
        take_string(p)
    }
}

pub fn cstr(s: &str) -> Option<CString> {
    CString::new(s).ok()
}

pub fn ffi_encode(vals: &[&str]) -> Result<String, ErrorCode> {
    let cs: Vec<CString> = vals.iter().map(|s| CString::new(*s).unwrap()).collect();
    let ptrs: Vec<*const c_char> = cs.iter().map(|c| c.as_ptr()).collect();
    let mut out: *const c_char = std::ptr::null();
    let rc = unsafe { anoncreds_encode_credential_attributes(FfiList::from_slice(&ptrs), &mut out) };
    if rc == 0 {
        Ok(unsafe { take_string(out) })
    } else {
        Err(rc)
    }
}

mod fam_c13;
mod ffi;
mod out;
mod rng;

use serde_json::{json, Value};
use std::io::BufRead;

fn arg(args: &[String], key: &str) -> Option<String> {
    args.iter().position(|a| a == key).and_then(|i| args.get(i + 1).cloned())
}

/// implementation outcome of one case, whatever family generated it (also used by --replay)
pub fn eval(case: &Value) -> Value {
    let op = case["op"].as_str().unwrap_or("").to_string();
    let r = std::panic::catch_unwind(std::panic::AssertUnwindSafe(|| match op.as_str() {
        "enc" => fam_c13::eval(case),
        _ => json!({"unknown_op": op}),
    }));
    match r {
        Ok(v) => v,
        Err(_) => json!({"panic": true}),
    }
}

fn main() {
    let args: Vec<String> = std::env::args().collect();
    let fam = args.get(1).cloned().unwrap_or_default();
    let seed: u64 = arg(&args, "--seed").and_then(|s| s.parse().ok()).unwrap_or(1);
    let thorough = arg(&args, "--tier").map(|t| t == "thorough").unwrap_or(false);
    let out_path = arg(&args, "--out").unwrap_or_else(|| "/dev/null".into());
    std::panic::set_hook(Box::new(|_| {}));
    let mut rng = rng::Rng::new(seed);
    let mut out = out::Out::create(&out_path);
    let cases: Vec<Value> = match fam.as_str() {
        // re-evaluate the cases of a file (replay files, corpus files): one JSON case per line
        "replay" => {
            let path = arg(&args, "--in").expect("--in FILE");
            let f = std::fs::File::open(path).expect("open --in");
            std::io::BufReader::new(f)
                .lines()
                .filter_map(|l| l.ok())
                .filter(|l| !l.trim().is_empty())
                .map(|l| serde_json::from_str::<Value>(&l).expect("case json"))
                .map(|mut c| {
                    if let Some(o) = c.as_object_mut() {
                        o.remove("impl");
                    }
                    c
                })
                .collect()
        }
        "c13" => fam_c13::gen(&mut rng, thorough, &mut out),
        other => {
            eprintln!("unknown family {other}");
            std::process::exit(2);
        }
    };
    for case in cases {
        let imp = eval(&case);
        out.write_case(case, imp);
    }
    let mut summary = out.finish();
    summary["family"] = json!(fam);
    summary["seed"] = json!(seed);
    summary["unit_hooks"] = json!(cfg!(feature = "unit_hooks"));
    println!("{}", summary);
}

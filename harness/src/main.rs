mod abs;
mod adv;
mod cast;
mod fam_c08;
mod fam_c09;
mod fam_sys;
mod fuzz;
mod scen;
mod fam_c13;
mod fam_c16;
mod fam_c18;
mod fam_c19;
mod fam_c20;
mod fam_flow;
mod mp;
mod world;
mod ffi;
mod out;
mod rng;

use serde_json::{json, Value};
use std::io::BufRead;

pub static LAST_PANIC: std::sync::Mutex<String> = std::sync::Mutex::new(String::new());
pub fn last_panic() -> String {
    LAST_PANIC.lock().map(|s| s.clone()).unwrap_or_default()
}

fn arg(args: &[String], key: &str) -> Option<String> {
    args.iter().position(|a| a == key).and_then(|i| args.get(i + 1).cloned())
}

pub struct Ctx {
    pub out: out::Out,
    world: Option<std::rc::Rc<world::World>>,
    sregs: fam_c09::SizeRegs,
}
impl Ctx {
    /// the fixture pool, loaded (or generated) on first use
    pub fn world(&mut self) -> std::rc::Rc<world::World> {
        if self.world.is_none() {
            self.world = Some(std::rc::Rc::new(world::World::load()));
        }
        self.world.as_ref().unwrap().clone()
    }
}

/// implementation outcome of one case, whatever family generated it (also used by --replay)
pub fn eval(case: &Value, ctx: &mut Ctx) -> Value {
    let op = case["op"].as_str().unwrap_or("").to_string();
    let r = std::panic::catch_unwind(std::panic::AssertUnwindSafe(|| match op.as_str() {
        "enc" => fam_c13::eval(case),
        "q_parse" | "q_print" | "q_names" | "q_validate" | "req_validate" | "q_eval" | "q_selfattest_ok" => fam_c16::eval(case, &mut ctx.out),
        "ivl_merge" | "ivl_override" | "ivl_valid" | "ivl_fold" | "ivl_requested" | "ivl_prover" | "ivl_check_legacy" => {
            let w = ctx.world();
            fam_c08::eval(case, &w)
        }
        "sl_run" => {
            let w = ctx.world();
            let Ctx { out, sregs, .. } = ctx;
            fam_c09::eval(case, &w, sregs, out)
        }
        "re" | "id" | "schema_valid" | "credreq_valid" => fam_c20::eval(case),
        _ => json!({"unknown_op": op}),
    }));
    match r {
        Ok(v) => v,
        Err(_) => json!({"panic": true}),
    }
}

type SysFam = fn(&mut scen::Engine, &mut rng::Rng, bool, &mut out::Out) -> fam_sys::Cases;
fn sys_family(name: &str) -> Option<SysFam> {
    match name {
        "c04" => Some(fam_sys::c04),
        "c01" => Some(fam_sys::c01),
        "c02" => Some(fam_sys::c02),
        "c08s" => Some(fam_sys::c08s),
        "c03" => Some(fam_sys::c03),
        "c05" => Some(fam_sys::c05),
        "c06" => Some(fam_sys::c06),
        "c12" => Some(fam_sys::c12),
        "ffi_flows" => Some(fam_sys::ffi_flows),
        "c15" => Some(fam_flow::c15),
        "c14" => Some(fam_flow::c14),
        "c11" => Some(fam_flow::c11),
        "c07" => Some(fam_flow::c07),
        "c13f" => Some(fam_flow::c13f),
        _ => None,
    }
}

fn main() {
    let args: Vec<String> = std::env::args().collect();
    let fam = args.get(1).cloned().unwrap_or_default();
    if fam == "native_verify" {
        // verify, natively, material produced through the C ABI: {format, request, presentation, schemas:[[id,obj]], cred_defs:[[id,obj]]}
        let j: Value = serde_json::from_str(&std::fs::read_to_string(&args[2]).expect("read")).expect("json");
        let mut outv = vec![];
        for f in j["flows"].as_array().cloned().unwrap_or_default() {
            let schemas = f["schemas"].as_array().unwrap().iter().map(|kv| (anoncreds::data_types::schema::SchemaId::new_unchecked(kv[0].as_str().unwrap()), serde_json::from_value(kv[1].clone()).unwrap())).collect();
            let cred_defs = f["cred_defs"].as_array().unwrap().iter().map(|kv| (anoncreds::data_types::cred_def::CredentialDefinitionId::new_unchecked(kv[0].as_str().unwrap()), serde_json::from_value(kv[1].clone()).unwrap())).collect();
            let req: anoncreds::types::PresentationRequest = serde_json::from_value(f["request"].clone()).unwrap();
            let rrds: Option<std::collections::HashMap<anoncreds::data_types::rev_reg_def::RevocationRegistryDefinitionId, anoncreds::types::RevocationRegistryDefinition>> = f.get("rev_reg_defs").and_then(|x| x.as_array()).map(|a| a.iter().map(|kv| (anoncreds::data_types::rev_reg_def::RevocationRegistryDefinitionId::new_unchecked(kv[0].as_str().unwrap()), serde_json::from_value(kv[1].clone()).unwrap())).collect());
            let lists: Option<Vec<anoncreds::types::RevocationStatusList>> = f.get("lists").and_then(|x| x.as_array()).map(|a| a.iter().map(|l| serde_json::from_value(l.clone()).unwrap()).collect());
            let v = std::panic::catch_unwind(std::panic::AssertUnwindSafe(|| {
                let rr = rrds.as_ref().map(|m| m.iter().map(|(k, v)| (k.clone(), v.clone())).collect::<std::collections::HashMap<_, _>>());
                if f["format"] == "w3c" {
                    let p: anoncreds::data_types::w3c::presentation::W3CPresentation = serde_json::from_value(f["presentation"].clone()).unwrap();
                    anoncreds::w3c::verifier::verify_presentation(&p, &req, &schemas, &cred_defs, rr.as_ref(), lists.clone(), None)
                } else {
                    let p: anoncreds::types::Presentation = serde_json::from_value(f["presentation"].clone()).unwrap();
                    anoncreds::verifier::verify_presentation(&p, &req, &schemas, &cred_defs, rr.as_ref(), lists.clone(), None)
                }
            }));
            outv.push(match v { Err(_) => "P", Ok(Ok(true)) => "T", Ok(Ok(false)) => "F", Ok(Err(_)) => "E" });
        }
        println!("{}", json!(outv));
        return;
    }
    if fam == "warm" {
        // `bin/setup`: make (or validate) the fixture pool and every sized registry the families use, from the tree as it is now
        let w = world::World::load();
        let mut sr = fam_c09::SizeRegs::new();
        for size in 1..=8u32 {
            sr.get(&w, size);
        }
        println!("{}", json!({"warm": true, "pool_writable": world::pool_writable(), "defs": w.defs.len()}));
        world::cleanup_scratch();
        return;
    }
    if fam == "tails_child" {
        fam_c19::tails_child(&args[2], args[3].parse().unwrap());
        return;
    }
    let seed: u64 = arg(&args, "--seed").and_then(|s| s.parse().ok()).unwrap_or(1);
    let thorough = arg(&args, "--tier").map(|t| t == "thorough").unwrap_or(false);
    let out_path = arg(&args, "--out").unwrap_or_else(|| "/dev/null".into());
    if std::env::var("VH_PANIC").is_err() {
        // silent, but remember where the last panic happened (used in known-finding signatures)
        std::panic::set_hook(Box::new(|info| {
            // path from the crate directory (`name-x.y.z/...`) when there is one — the registry directory above it is machine specific —
            // else the last four components
            let loc = info.location().map(|l| {
                let comps: Vec<&str> = l.file().split('/').collect();
                let is_crate_dir = |c: &str| c.rsplit_once('-').map(|(_, v)| v.split('.').count() == 3 && v.split('.').all(|x| !x.is_empty() && x.chars().all(|d| d.is_ascii_digit()))).unwrap_or(false);
                let from = comps.iter().rposition(|c| is_crate_dir(c)).unwrap_or(comps.len().saturating_sub(4));
                format!("{}:{}", comps[from..].join("/"), l.line())
            }).unwrap_or_default();
            *LAST_PANIC.lock().unwrap() = loc;
        }));
    }
    let mut rng = rng::Rng::new(seed);
    let mut ctx = Ctx { out: out::Out::create(&out_path), world: None, sregs: fam_c09::SizeRegs::new() };
    let cases: Vec<Value> = match fam.as_str() {
        // re-evaluate the cases of a file (replay files, corpus files): one JSON case per line
        "replay" => {
            let path = arg(&args, "--in").expect("--in FILE");
            let f = std::fs::File::open(path).expect("open --in");
            std::io::BufReader::new(f)
                .lines()
                .filter_map(|l| l.ok())
                .filter(|l| !l.trim().is_empty())
                .map(|l| serde_json::from_str::<Value>(&l).expect("case json"))
                .map(|mut c| {
                    if let Some(o) = c.as_object_mut() {
                        o.remove("impl");
                    }
                    c
                })
                .collect()
        }
        "c08" => fam_c08::gen(&mut rng, thorough, &mut ctx.out),
        "c09" | "c10" => fam_c09::gen(&mut rng, thorough, &fam, &mut ctx.out),
        "c13" => fam_c13::gen(&mut rng, thorough, &mut ctx.out),
        "c16" => fam_c16::gen(&mut rng, thorough, &mut ctx.out),
        // C06 unit level: the evaluation cases of the WQL family only
        "c06u" => fam_c16::gen(&mut rng, thorough, &mut ctx.out).into_iter().filter(|c| c["op"] == "q_eval").collect(),
        "c20" => fam_c20::gen(&mut rng, thorough, &mut ctx.out),
        "c18" | "c19" => vec![],
        other if sys_family(other).is_some() => vec![],
        other => {
            eprintln!("unknown family {other}");
            std::process::exit(2);
        }
    };
    for case in cases {
        let imp = eval(&case, &mut ctx);
        ctx.out.write_case(case, imp);
    }
    if fam == "c18" {
        let w = ctx.world();
        let done = fam_c18::run(&w, &mut rng, thorough, &mut ctx.out);
        for (case, imp) in done {
            ctx.out.write_case(case, imp);
        }
    }
    if fam == "c19" {
        let w = ctx.world();
        let done = fam_c19::run(&w, &mut rng, thorough, &mut ctx.out);
        for (case, imp) in done {
            ctx.out.write_case(case, imp);
        }
    }
    // system-level scenario families: cases come with the implementation outcome (real crypto, stateful engine)
    if let Some(f) = sys_family(&fam) {
        let w = ctx.world();
        let mut eng = scen::Engine::new(cast::Cast::new(w));
        // a family that stops at a panic of its own (an expectation every later step depends on failed, e.g. an object that no longer
        // deserialises from its own serialisation) still reports: the oracle failures recorded up to that point are in the summary
        let done = match std::panic::catch_unwind(std::panic::AssertUnwindSafe(|| f(&mut eng, &mut rng, thorough, &mut ctx.out))) {
            Ok(d) => d,
            Err(_) => {
                let at = LAST_PANIC.lock().map(|g| g.clone()).unwrap_or_default();
                ctx.out.oracle_fail("the scenario family stopped at a panic of the harness: a step every later step depends on failed (see the oracle failures recorded before it)", &json!({"fam": fam, "sig": "", "at": at}), &Value::Null);
                vec![]
            }
        };
        for (case, imp) in done {
            ctx.out.write_case(case, imp);
        }
    }
    let mut summary = ctx.out.finish();
    summary["family"] = json!(fam);
    summary["seed"] = json!(seed);
    summary["unit_hooks"] = json!(cfg!(feature = "unit_hooks"));
    println!("{}", summary);
    world::cleanup_scratch();
}

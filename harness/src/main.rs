fn main() { println!("{}", anoncreds::verif_hooks::encode_credential_attribute("007").unwrap()); }

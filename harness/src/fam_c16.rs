//! C16 / C06 (unit level): WQL parse, print, names, validate, evaluate — exact correspondence.
use crate::out::Out;
use crate::rng::Rng;
use anoncreds::data_types::pres_request::{AttributeInfo, PredicateInfo, PredicateTypes, PresentationRequest, PresentationRequestPayload};
use serde_json::{json, Map, Value};
use std::collections::HashMap;

#[cfg(feature = "unit_hooks")]
use anoncreds::verif_hooks::Query;

pub const META_TAGS: &[&str] = &["schema_id", "schema_issuer_did", "schema_issuer_id", "schema_name", "schema_version", "issuer_did", "issuer_id", "cred_def_id", "rev_reg_id"];
pub const ATTR_TAGS: &[&str] = &["attr::name::value", "attr::name::marker", "attr::age::value", "attr::age::marker", "attr::zip::value", "attr::zip::marker", "attr::na:me::value", "attr::::marker", "attr::name::valu", "attr::name::value\n", "xattr::name::marker",
    // other spellings of the same attribute (the verifier normalises names elsewhere; these tags are matched exactly)
    "attr::NAME::value", "attr::Name::marker", "attr::na me::value", "attr:: name::value", "attr::name ::marker", "attr::AGE::value", "attr::Age::marker"];
pub const JUNK_TAGS: &[&str] = &["junk", "", "$neq", "$in", "$like", "$foo", "schema_id ", "Schema_Id"];

pub struct FilterSpec {
    pub schema_id: &'static str,
    pub schema_issuer_id: &'static str,
    pub schema_name: &'static str,
    pub schema_version: &'static str,
    pub issuer_id: &'static str,
    pub cred_def_id: &'static str,
}
pub const FILTERS: &[FilterSpec] = &[
    FilterSpec { schema_id: "NcYxiDXkpYi6ov5FcYDi1e:2:gvt:1.0", schema_issuer_id: "NcYxiDXkpYi6ov5FcYDi1e", schema_name: "gvt", schema_version: "1.0", issuer_id: "NcYxiDXkpYi6ov5FcYDi1e", cred_def_id: "NcYxiDXkpYi6ov5FcYDi1e:3:CL:NcYxiDXkpYi6ov5FcYDi1e:2:gvt:1.0:tag" },
    FilterSpec { schema_id: "did:web:alpha/schema/gvt", schema_issuer_id: "did:web:alpha", schema_name: "gvt", schema_version: "1.0", issuer_id: "did:web:beta", cred_def_id: "did:web:beta/creddef/gvt" },
    FilterSpec { schema_id: "did:web:alpha/schema/gvt", schema_issuer_id: "NcYxiDXkpYi6ov5FcYDi1e", schema_name: "gvt", schema_version: "2.0", issuer_id: "did:web:beta", cred_def_id: "x" },
    FilterSpec { schema_id: "s", schema_issuer_id: "did:web:alpha", schema_name: "", schema_version: "", issuer_id: "VsKV7grR1BUE29mG2Fm2kX", cred_def_id: "c" },
    FilterSpec { schema_id: "s", schema_issuer_id: "OOOOOOOOOOOOOOOOOOOOOO", schema_name: "n", schema_version: "v", issuer_id: "NcYxiDXkpYi6ov5FcYDi1e0", cred_def_id: "c" },
];

fn filter_json(f: &FilterSpec) -> Value {
    json!({"schema_id": f.schema_id, "schema_issuer_id": f.schema_issuer_id, "schema_name": f.schema_name, "schema_version": f.schema_version, "issuer_id": f.issuer_id, "cred_def_id": f.cred_def_id})
}

fn values_pool(f: &FilterSpec) -> Vec<&'static str> {
    vec![f.schema_id, f.schema_issuer_id, f.schema_name, f.schema_version, f.issuer_id, f.cred_def_id, "Alice", "25", "", "miss", "did:web:alpha", "NcYxiDXkpYi6ov5FcYDi1e", "a:b", "a:\n"]
}

fn tag(rng: &mut Rng) -> &'static str {
    match rng.below(10) {
        0..=4 => *rng.pick(META_TAGS),
        5..=7 => *rng.pick(ATTR_TAGS),
        _ => *rng.pick(JUNK_TAGS),
    }
}

/// random AST in the canonical wire encoding
fn gen_ast(rng: &mut Rng, depth: u32, f: &FilterSpec) -> Value {
    let pool = values_pool(f);
    let leaf = depth == 0 || rng.chance(2, 5);
    if leaf {
        let t = tag(rng);
        let v = *rng.pick(&pool);
        match rng.below(14) {
            0..=4 => json!({"eq":[t, v]}),
            5 | 6 => json!({"neq":[t, v]}),
            7 | 8 => {
                let k = rng.below(4) as usize;
                let vs: Vec<&str> = (0..k).map(|_| *rng.pick(&pool)).collect();
                json!({"in":[t, vs]})
            }
            9 => json!({ *rng.pick(&["gt", "gte", "lt", "lte", "like"]): [t, v] }),
            10 => {
                let k = rng.below(3) as usize;
                let ts: Vec<&str> = (0..k).map(|_| tag(rng)).collect();
                json!({"exist": ts})
            }
            _ => json!({"eq":[t, v]}),
        }
    } else {
        match rng.below(5) {
            0 | 1 => {
                let k = rng.below(4) as usize;
                json!({"and": (0..k).map(|_| gen_ast(rng, depth - 1, f)).collect::<Vec<_>>()})
            }
            2 | 3 => {
                let k = rng.below(4) as usize;
                json!({"or": (0..k).map(|_| gen_ast(rng, depth - 1, f)).collect::<Vec<_>>()})
            }
            _ => json!({"not": gen_ast(rng, depth - 1, f)}),
        }
    }
}

fn junk_value(rng: &mut Rng) -> Value {
    match rng.below(8) {
        0 => Value::Null,
        1 => json!(1),
        2 => json!(true),
        3 => json!([]),
        4 => json!(["a", 1]),
        5 => json!({}),
        6 => json!([["a"]]),
        _ => json!(-2.5),
    }
}

/// random JSON in and around the WQL surface syntax
fn gen_wql_json(rng: &mut Rng, depth: u32) -> Value {
    let mut m = Map::new();
    let n = match rng.below(10) {
        0 => 0,
        1..=6 => 1,
        7 | 8 => 2,
        _ => 3,
    };
    for _ in 0..n {
        let (k, v): (String, Value) = match rng.below(12) {
            0 | 1 if depth > 0 => {
                let key = if rng.chance(1, 2) { "$and" } else { "$or" };
                let v = match rng.below(8) {
                    0 => junk_value(rng),
                    1 => json!([gen_wql_json(rng, depth - 1), junk_value(rng)]),
                    _ => {
                        let k = rng.below(4) as usize;
                        Value::Array((0..k).map(|_| gen_wql_json(rng, depth - 1)).collect())
                    }
                };
                (key.into(), v)
            }
            2 if depth > 0 => ("$not".into(), if rng.chance(1, 6) { junk_value(rng) } else { gen_wql_json(rng, depth - 1) }),
            3 => (
                "$exist".into(),
                match rng.below(5) {
                    0 => json!("name"),
                    1 => json!([]),
                    2 => json!(["a", "b"]),
                    3 => json!(["a", 1]),
                    _ => junk_value(rng),
                },
            ),
            4..=6 => (tag(rng).into(), json!(*rng.pick(&["v", "", "did:web:x", "a:b", "NcYxiDXkpYi6ov5FcYDi1e"]))),
            7 | 8 => {
                let op = *rng.pick(&["$neq", "$gt", "$gte", "$lt", "$lte", "$like", "$in", "$in", "$foo", "neq", "$and", "$not"]);
                let operand = match rng.below(6) {
                    0 => junk_value(rng),
                    1 | 2 => json!(["a", "did:web:x"]),
                    _ => json!("v"),
                };
                (tag(rng).into(), json!({ op: operand }))
            }
            9 => (tag(rng).into(), json!({"$neq": "a", "$gt": "b"})),
            10 => (tag(rng).into(), junk_value(rng)),
            _ => (tag(rng).into(), json!("v")),
        };
        m.insert(k, v);
    }
    Value::Object(m)
}

fn gen_restriction_json(rng: &mut Rng, depth: u32) -> Value {
    match rng.below(10) {
        0 => {
            // legacy list-of-filters form
            let k = rng.below(4) as usize;
            Value::Array(
                (0..k)
                    .map(|_| match rng.below(8) {
                        0 => junk_value(rng),
                        1 => json!({}),
                        2 => json!({"schema_id": null}),
                        3 => json!({"schema_id": null, "cred_def_id": "c"}),
                        _ => gen_wql_json(rng, 1),
                    })
                    .collect(),
            )
        }
        1 => junk_value(rng),
        _ => gen_wql_json(rng, depth),
    }
}

pub fn gen(rng: &mut Rng, thorough: bool, out: &mut Out) -> Vec<Value> {
    let mut cases = vec![];
    if !cfg!(feature = "unit_hooks") {
        // the parser, printer and evaluator are crate-private; without hooks they are exercised by the system flows only
        return cases;
    }
    let n = if thorough { 400_000 } else { 25_000 };
    // fixed empty / legacy forms
    for j in [json!({}), json!([]), json!({"$and":[]}), json!({"$or":[]}), json!([{}]), json!([{"a":null}]), json!({"$not":{}}), json!([{"a":"b"}]), json!([{"a":"b"},{"c":"d"}]),
        json!({"a":"b","c":"d"}), json!({"$and":[{"a":"b"}]}), json!({"$or":[{"a":"b"}]}), json!({"$exist":"x"}), json!({"$exist":[]}), json!("x"), json!(null), json!(3)] {
        cases.push(json!({"op":"q_parse","fam":"c16.parse","j":j,"nt":true}));
    }
    for _ in 0..n {
        let depth = rng.below(4) as u32;
        let j = gen_restriction_json(rng, depth);
        cases.push(json!({"op":"q_parse","fam":"c16.parse","j":j,"nt":true}));
    }
    #[cfg(feature = "unit_hooks")]
    for i in 0..n {
        let f = &FILTERS[(i % FILTERS.len() as u64) as usize];
        let d = rng.below(4) as u32;
        let q = gen_ast(rng, d, f);
        match i % 4 {
            0 => {
                cases.push(json!({"op":"q_print","fam":"c16.print","q":q,"nt":true}));
                cases.push(json!({"op":"q_names","fam":"c16.names","q":q,"nt":true}));
            }
            1 => cases.push(json!({"op":"q_validate","fam":"c16.validate","v1": rng.chance(3,4),"q":q,"nt":true})),
            _ => {
                let name_v = *rng.pick(&[Some("Alice"), Some("miss"), None, Some("")]);
                let age_v = *rng.pick(&[Some("25"), None]);
                let mut vals = vec![];
                // the key is the requested spelling (legacy) or the credential's (W3C): any spelling can occur
                if rng.chance(4, 5) {
                    vals.push(json!([*rng.pick(&["name", "name", "name", "NAME", "Name", "na me", " name"]), name_v]));
                }
                if rng.chance(1, 2) {
                    vals.push(json!([*rng.pick(&["age", "age", "AGE", "Age"]), age_v]));
                }
                cases.push(json!({"op":"q_eval","fam":"c06.eval","q":q,"filter":filter_json(f),"values":vals,"nt":true}));
            }
        }
    }
    #[cfg(feature = "unit_hooks")]
    for _ in 0..(n / 20) {
        let f = &FILTERS[0];
        let restr = match rng.below(4) {
            0 => Value::Null,
            1 => json!({"and":[]}),
            2 => json!({"or":[]}),
            _ => gen_ast(rng, 1, f),
        };
        cases.push(json!({"op":"q_selfattest_ok","fam":"c16.selfattest","restrictions":restr,"self_attested":rng.chance(1,2),"nt":true}));
        // structural validation of whole requests
        let na = rng.below(3) as usize;
        let np = rng.below(3) as usize;
        let attrs: Vec<Value> = (0..na)
            .map(|_| {
                let name = *rng.pick(&[Some("name"), Some(""), None]);
                let names = rng.pick(&[None, Some(vec![]), Some(vec!["a"]), Some(vec!["a", "b"])]).clone();
                let r = if rng.chance(1, 2) { Value::Null } else { gen_ast(rng, 1, f) };
                json!({"name": name, "names": names, "restrictions": r})
            })
            .collect();
        let preds: Vec<Value> = (0..np)
            .map(|_| {
                let r = if rng.chance(1, 2) { Value::Null } else { gen_ast(rng, 1, f) };
                json!({"name": *rng.pick(&["age", ""]), "restrictions": r})
            })
            .collect();
        cases.push(json!({"op":"req_validate","fam":"c16.req_validate","v1":rng.chance(1,2),"attrs":attrs,"preds":preds,"nt":true}));
    }
    out.count_n("c16:generated", cases.len() as u64);
    cases
}

#[cfg(feature = "unit_hooks")]
pub fn ast_to_query(a: &Value) -> Option<Query> {
    let o = a.as_object()?;
    let (k, v) = o.iter().next()?;
    let pair = |v: &Value| -> Option<(String, String)> { Some((v.get(0)?.as_str()?.to_string(), v.get(1)?.as_str()?.to_string())) };
    Some(match k.as_str() {
        "and" => Query::And(v.as_array()?.iter().map(ast_to_query).collect::<Option<Vec<_>>>()?),
        "or" => Query::Or(v.as_array()?.iter().map(ast_to_query).collect::<Option<Vec<_>>>()?),
        "not" => Query::Not(Box::new(ast_to_query(v)?)),
        "eq" => { let (a, b) = pair(v)?; Query::Eq(a, b) }
        "neq" => { let (a, b) = pair(v)?; Query::Neq(a, b) }
        "gt" => { let (a, b) = pair(v)?; Query::Gt(a, b) }
        "gte" => { let (a, b) = pair(v)?; Query::Gte(a, b) }
        "lt" => { let (a, b) = pair(v)?; Query::Lt(a, b) }
        "lte" => { let (a, b) = pair(v)?; Query::Lte(a, b) }
        "like" => { let (a, b) = pair(v)?; Query::Like(a, b) }
        "in" => Query::In(v.get(0)?.as_str()?.to_string(), v.get(1)?.as_array()?.iter().map(|x| x.as_str().map(|s| s.to_string())).collect::<Option<Vec<_>>>()?),
        "exist" => Query::Exist(v.as_array()?.iter().map(|x| x.as_str().map(|s| s.to_string())).collect::<Option<Vec<_>>>()?),
        _ => return None,
    })
}

#[cfg(feature = "unit_hooks")]
pub fn query_to_ast(q: &Query) -> Value {
    match q {
        Query::And(v) => json!({"and": v.iter().map(query_to_ast).collect::<Vec<_>>()}),
        Query::Or(v) => json!({"or": v.iter().map(query_to_ast).collect::<Vec<_>>()}),
        Query::Not(b) => json!({"not": query_to_ast(b)}),
        Query::Eq(a, b) => json!({"eq":[a,b]}),
        Query::Neq(a, b) => json!({"neq":[a,b]}),
        Query::Gt(a, b) => json!({"gt":[a,b]}),
        Query::Gte(a, b) => json!({"gte":[a,b]}),
        Query::Lt(a, b) => json!({"lt":[a,b]}),
        Query::Lte(a, b) => json!({"lte":[a,b]}),
        Query::Like(a, b) => json!({"like":[a,b]}),
        Query::In(a, v) => json!({"in":[a,v]}),
        Query::Exist(v) => json!({"exist": v}),
    }
}

fn payload(attrs: HashMap<String, AttributeInfo>, preds: HashMap<String, PredicateInfo>) -> PresentationRequestPayload {
    PresentationRequestPayload {
        nonce: anoncreds::data_types::nonce::Nonce::from_dec("1").unwrap(),
        name: "r".into(),
        version: "1.0".into(),
        requested_attributes: attrs,
        requested_predicates: preds,
        non_revoked: None,
    }
}

#[cfg(feature = "unit_hooks")]
pub fn eval(case: &Value, out: &mut Out) -> Value {
    use anoncreds::verif_hooks::Validatable;
    match case["op"].as_str().unwrap_or("") {
        "q_parse" => {
            let j = case["j"].clone();
            match serde_json::from_value::<Query>(j.clone()) {
                Ok(q) => {
                    // oracle (C16, model-independent): parse . print . parse = parse; also through the request wrapper
                    let printed = serde_json::to_string(&q).unwrap();
                    match serde_json::from_str::<Query>(&printed) {
                        Ok(q2) if q2 == q => {}
                        other => out.oracle_fail("parse(print(parse j)) != parse j", case, &json!({"printed": printed, "reparsed": other.ok().map(|x| query_to_ast(&x))})),
                    }
                    let req = json!({"nonce":"1","name":"r","version":"1","requested_attributes":{"a":{"name":"n","restrictions": j}},"requested_predicates":{}});
                    match serde_json::from_value::<PresentationRequest>(req) {
                        Ok(r) => {
                            if r.value().requested_attributes["a"].restrictions.as_ref() != Some(&q) {
                                out.oracle_fail("restriction parsed differently inside a presentation request", case, &Value::Null);
                            }
                        }
                        Err(_) => out.oracle_fail("restriction accepted alone but rejected inside a presentation request", case, &Value::Null),
                    }
                    query_to_ast(&q)
                }
                Err(_) => json!({"err": true}),
            }
        }
        "q_print" => match ast_to_query(&case["q"]) {
            Some(q) => serde_json::to_value(&q).unwrap(),
            None => json!({"bad_ast": true}),
        },
        "q_names" => match ast_to_query(&case["q"]) {
            Some(q) => json!(q.get_name()),
            None => json!({"bad_ast": true}),
        },
        "q_validate" => match ast_to_query(&case["q"]) {
            Some(q) => {
                let mut attrs = HashMap::new();
                attrs.insert("a".to_string(), AttributeInfo { name: Some("n".into()), names: None, restrictions: Some(q), non_revoked: None });
                let p = payload(attrs, HashMap::new());
                let r = if case["v1"].as_bool().unwrap_or(true) { PresentationRequest::PresentationRequestV1(p) } else { PresentationRequest::PresentationRequestV2(p) };
                json!(r.validate().is_ok())
            }
            None => json!({"bad_ast": true}),
        },
        "req_validate" => {
            let mut attrs = HashMap::new();
            for (i, a) in case["attrs"].as_array().cloned().unwrap_or_default().iter().enumerate() {
                let restrictions = if a["restrictions"].is_null() { None } else { ast_to_query(&a["restrictions"]) };
                attrs.insert(
                    format!("a{i}"),
                    AttributeInfo {
                        name: a["name"].as_str().map(|s| s.to_string()),
                        names: a["names"].as_array().map(|v| v.iter().map(|x| x.as_str().unwrap_or("").to_string()).collect()),
                        restrictions,
                        non_revoked: None,
                    },
                );
            }
            let mut preds = HashMap::new();
            for (i, p) in case["preds"].as_array().cloned().unwrap_or_default().iter().enumerate() {
                let restrictions = if p["restrictions"].is_null() { None } else { ast_to_query(&p["restrictions"]) };
                preds.insert(format!("p{i}"), PredicateInfo { name: p["name"].as_str().unwrap_or("").to_string(), p_type: PredicateTypes::GE, p_value: 1, restrictions, non_revoked: None });
            }
            let p = payload(attrs, preds);
            let r = if case["v1"].as_bool().unwrap_or(true) { PresentationRequest::PresentationRequestV1(p) } else { PresentationRequest::PresentationRequestV2(p) };
            json!(r.validate().is_ok())
        }
        "q_eval" => match ast_to_query(&case["q"]) {
            Some(q) => {
                let filter: anoncreds::verifier::Filter = serde_json::from_value(case["filter"].clone()).unwrap();
                let mut m: HashMap<String, Option<String>> = HashMap::new();
                for kv in case["values"].as_array().cloned().unwrap_or_default() {
                    m.insert(kv[0].as_str().unwrap_or("").to_string(), kv[1].as_str().map(|s| s.to_string()));
                }
                json!(anoncreds::verif_hooks::process_operator(&m, &q, &filter).is_ok())
            }
            None => json!({"bad_ast": true}),
        },
        "q_selfattest_ok" => {
            let restrictions = if case["restrictions"].is_null() { None } else { ast_to_query(&case["restrictions"]) };
            let info = AttributeInfo { name: Some("n".into()), names: None, restrictions, non_revoked: None };
            let mut set = std::collections::HashSet::new();
            if case["self_attested"].as_bool().unwrap_or(false) {
                set.insert("a".to_string());
            }
            json!(anoncreds::verif_hooks::is_self_attested("a", &info, &set))
        }
        _ => json!({"unknown_op": true}),
    }
}

#[cfg(not(feature = "unit_hooks"))]
pub fn eval(_case: &Value, _out: &mut Out) -> Value {
    json!({"needs_hooks": true})
}

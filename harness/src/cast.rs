//! The cast of a scenario run: holders, issued credentials (legacy + W3C form), registry histories.
#![allow(dead_code)]
use crate::world::{issue_plain, issue_rev, World};
use anoncreds::data_types::w3c::credential::W3CCredential;
use anoncreds::types::*;
use anoncreds::w3c::credential_conversion::credential_to_w3c;
use anoncreds::{issuer, prover};
use serde_json::{json, Value};
use std::collections::BTreeSet;
use std::rc::Rc;

pub struct Held {
    pub name: &'static str,
    pub def: usize,
    pub holder: usize,
    pub values: Vec<(String, String)>,
    pub cred: Credential,
    pub w3c: W3CCredential,
    /// (registry history index, credential index)
    pub rev: Option<(usize, u32)>,
}

pub struct RegHist {
    pub def: usize,
    pub reg: usize,
    pub by_default: bool,
    /// list i has timestamp 10*(i+1)
    pub lists: Vec<RevocationStatusList>,
    pub bits: Vec<Vec<bool>>,
}

impl RegHist {
    pub fn ts(i: usize) -> u64 {
        10 * (i as u64 + 1)
    }
    pub fn revoked_at(&self, list: usize, idx: u32) -> bool {
        self.bits[list][idx as usize]
    }
}

pub struct Cast {
    pub w: Rc<World>,
    pub holders: Vec<LinkSecret>,
    pub creds: Vec<Held>,
    pub regs: Vec<RegHist>,
}

fn kv(v: &[(&str, &str)]) -> Vec<(String, String)> {
    v.iter().map(|(a, b)| (a.to_string(), b.to_string())).collect()
}

pub fn bits_of(list: &RevocationStatusList) -> Vec<bool> {
    let j = serde_json::to_value(list).unwrap();
    j["revocationList"].as_array().unwrap().iter().map(|x| x.as_u64().unwrap() == 1).collect()
}

fn set(v: &[u32]) -> Option<BTreeSet<u32>> {
    Some(v.iter().copied().collect())
}

impl Cast {
    pub fn def_idx(&self, key: &str) -> usize {
        self.w.defs.iter().position(|d| d.key == key).unwrap()
    }

    pub fn new(w: Rc<World>) -> Cast {
        let holders = vec![prover::create_link_secret().unwrap(), prover::create_link_secret().unwrap()];
        let mut cast = Cast { w: w.clone(), holders, creds: vec![], regs: vec![] };
        let di = |k: &str| w.defs.iter().position(|d| d.key == k).unwrap();
        let gvt = |n: &str, a: &str, s: &str, h: &str| kv(&[("name", n), ("age", a), ("sex", s), ("height", h)]);
        let plain: Vec<(&'static str, &str, usize, Vec<(String, String)>)> = vec![
            ("a_alice", "A", 0, gvt("Alice", "25", "F", "170")),
            ("a2_alice", "A", 0, gvt("Alicia Keys", "17", "F", "160")),
            ("b_alice", "B", 0, gvt("Mallory", "99", "M", "180")),
            ("c_alice", "C", 0, kv(&[("Degree", "PhD"), ("Given Name", "Alice"), ("year", "2020"), ("GPA Score", "4")])),
            ("l_alice", "L", 0, gvt("Alice", "25", "F", "170")),
            ("a_bob", "A", 1, gvt("Bob", "70", "M", "175")),
            ("rn_alice", "R", 0, kv(&[("name", "Alice"), ("age", "25"), ("dept", "R&D")])),
        ];
        for (name, key, holder, values) in plain {
            let d = &w.defs[di(key)];
            let cred = issue_plain(d, &cast.holders[holder], &values).expect("issue");
            let w3c = credential_to_w3c(&cred, &d.issuer, None).expect("to w3c");
            cast.creds.push(Held { name, def: di(key), holder, values, cred, w3c, rev: None });
        }
        // registry 0 of R: issuance by default; list0 (ts 10) initial; list1 (ts 20): revoke {2,3}; list2 (ts 30): re-issue {3}
        {
            let dk = di("R");
            let d = &w.defs[dk];
            let reg = &d.regs[0];
            let l0 = issuer::create_revocation_status_list(&d.cd, reg.rid.clone(), &reg.def, &reg.def_priv, true, Some(10)).unwrap();
            let mut held = vec![];
            for (name, idx) in [("r1_alice", 1u32), ("r2_alice", 2), ("r3_alice", 3)] {
                let values = kv(&[("name", "Alice"), ("age", "25"), ("dept", name)]);
                let cred = issue_rev(d, reg, &l0, idx, &cast.holders[0], &values).expect("issue rev");
                let w3c = credential_to_w3c(&cred, &d.issuer, None).expect("to w3c");
                held.push(Held { name, def: dk, holder: 0, values, cred, w3c, rev: Some((0, idx)) });
            }
            let l1 = issuer::update_revocation_status_list(&d.cd, &reg.def, &reg.def_priv, &l0, None, set(&[2, 3]), Some(20)).unwrap();
            let l2 = issuer::update_revocation_status_list(&d.cd, &reg.def, &reg.def_priv, &l1, set(&[3]), None, Some(30)).unwrap();
            let lists = vec![l0, l1, l2];
            let bits = lists.iter().map(bits_of).collect();
            cast.regs.push(RegHist { def: dk, reg: 0, by_default: true, lists, bits });
            cast.creds.extend(held);
        }
        // registry 0 of S (legacy ids): issuance by default; list0 (ts 10); list1 (ts 20): revoke {2}
        {
            let dk = di("S");
            let d = &w.defs[dk];
            let reg = &d.regs[0];
            let l0 = issuer::create_revocation_status_list(&d.cd, reg.rid.clone(), &reg.def, &reg.def_priv, true, Some(10)).unwrap();
            let mut held = vec![];
            for (name, idx) in [("s1_alice", 1u32), ("s2_alice", 2)] {
                let values = kv(&[("name", "Alice"), ("age", "25"), ("dept", name)]);
                let cred = issue_rev(d, reg, &l0, idx, &cast.holders[0], &values).expect("issue rev");
                let w3c = credential_to_w3c(&cred, &d.issuer, None).expect("to w3c");
                held.push(Held { name, def: dk, holder: 0, values, cred, w3c, rev: Some((1, idx)) });
            }
            let l1 = issuer::update_revocation_status_list(&d.cd, &reg.def, &reg.def_priv, &l0, None, set(&[2]), Some(20)).unwrap();
            let lists = vec![l0, l1];
            let bits = lists.iter().map(bits_of).collect();
            cast.regs.push(RegHist { def: dk, reg: 0, by_default: true, lists, bits });
            cast.creds.extend(held);
        }
        cast
    }

    pub fn cred(&self, name: &str) -> usize {
        self.creds.iter().position(|c| c.name == name).unwrap_or_else(|| panic!("no cred {name}"))
    }

    /// holder's revocation state for credential `c` at list `li` of its registry (from scratch out of the tails file)
    pub fn rev_state(&self, c: usize, li: usize) -> Option<CredentialRevocationState> {
        let h = &self.creds[c];
        let (ri, idx) = h.rev?;
        let rh = &self.regs[ri];
        let reg = &self.w.defs[rh.def].regs[rh.reg];
        prover::create_or_update_revocation_state(&reg.def.value.tails_location, &reg.def, &rh.lists[li], idx, None, None).ok()
    }

    /// the same state, derived the other way: from scratch for list 0, then updated list by list (other indices change on the way)
    pub fn rev_state_incremental(&self, c: usize, li: usize) -> Option<CredentialRevocationState> {
        let h = &self.creds[c];
        let (ri, idx) = h.rev?;
        let rh = &self.regs[ri];
        let reg = &self.w.defs[rh.def].regs[rh.reg];
        let mut st = self.rev_state(c, 0)?;
        for k in 1..=li {
            st = prover::create_or_update_revocation_state(&reg.def.value.tails_location, &reg.def, &rh.lists[k], idx, Some(&st), Some(&rh.lists[k - 1])).ok()?;
        }
        Some(st)
    }

    /// ghost `SymCred` of a held credential
    pub fn ghost_cred(&self, c: usize) -> Value {
        let h = &self.creds[c];
        let attrs: Vec<Value> = h.cred.values.0.iter().map(|(k, v)| json!([norm(k), v.encoded])).collect();
        let mut attrs = attrs;
        attrs.sort_by(|a, b| a[0].as_str().cmp(&b[0].as_str()));
        let rev = match h.rev {
            Some((ri, idx)) => json!([self.reg_key(ri), idx]),
            None => Value::Null,
        };
        json!({"key": h.def, "attrs": attrs, "holder": h.holder, "rev": rev})
    }

    pub fn reg_key(&self, ri: usize) -> u64 {
        let rh = &self.regs[ri];
        (rh.def * 10 + rh.reg) as u64
    }
}

/// `attr_common_view` as the harness needs it for ghost data (the real one is exercised through the library)
pub fn norm(s: &str) -> String {
    s.replace(' ', "").to_lowercase()
}

use anoncreds::{prover, types::*};
use serde_json::json;
#[path = "../world.rs"] mod world;
fn main() {
    let w = world::World::load();
    let d = w.def("A");
    let ls = prover::create_link_secret().unwrap();
    let vals: Vec<(String,String)> = vec![("name".into(),"Alice".into()),("age".into(),"25".into()),("sex".into(),"F".into()),("height".into(),"170".into())];
    let cred = world::issue_plain(d, &ls, &vals).unwrap();
    let req = world::request("123", json!({"a1":{"name":"name"},"g1":{"names":["sex","height"]}}), json!({"p1":{"name":"age","p_type":">=","p_value":18}}), json!(null));
    let mut pc = PresentCredentials::default();
    { let mut x = pc.add_credential(&cred, None, None); x.add_requested_attribute("a1", true); x.add_requested_attribute("g1", true); x.add_requested_predicate("p1"); }
    let p = prover::create_presentation(&req, pc, None, &ls, &w.schemas(), &w.cred_defs()).unwrap();
    let mut j = serde_json::to_value(&p).unwrap();
    // shorten big numbers for display
    fn short(v: &mut serde_json::Value) { match v { serde_json::Value::String(s) if s.len() > 24 => { *s = format!("{}…", &s[..12]); } serde_json::Value::Array(a) => { if a.len() > 6 && a.iter().all(|x| x.is_number()) { *v = json!("[bytes]"); } else { for x in a { short(x) } } } serde_json::Value::Object(o) => for (_,x) in o { short(x) }, _ => {} } }
    short(&mut j);
    println!("{}", serde_json::to_string_pretty(&j).unwrap());
}

//! Protocol-flow families that are judged mostly by property oracles: C15 (wire-format hops), C07 (disclosure scan),
//! C14 (legacy <-> W3C conversion), C11 (issuance binding). Model ops: `codec_*` (C15), `convert` (C14), `issue` / `process` (C11).
#![allow(dead_code)]
use crate::abs::*;
use crate::cast::*;
use crate::out::Out;
use crate::rng::Rng;
use crate::scen::*;
use anoncreds::data_types::w3c::credential::W3CCredential;
use anoncreds::data_types::w3c::presentation::W3CPresentation;
use anoncreds::types::*;
use anoncreds::{issuer, prover, verifier, w3c};
use serde::de::DeserializeOwned;
use serde::Serialize;
use serde_json::{json, Value};
use std::collections::HashMap;

pub type Cases = Vec<(Value, Value)>;

// ---------------------------------------------------------------------------------------------
// C15: every exchanged object survives its wire format

/// serialise -> deserialise; also checks ser(de(ser x)) == ser x byte for byte
fn hop<T: Serialize + DeserializeOwned>(x: &T, ty: &str, out: &mut Out, sig: &str) -> T {
    let s1 = serde_json::to_string(x).expect("serialise");
    let y: T = match serde_json::from_str(&s1) {
        Ok(y) => y,
        Err(e) => {
            out.oracle_fail("object does not deserialise from its own serialisation", &json!({"fam":"c15.hop","sig":sig,"type":ty,"doc":s1.chars().take(3000).collect::<String>()}), &json!({"err": e.to_string()}));
            serde_json::from_str(&s1).expect("unrecoverable")
        }
    };
    let s2 = serde_json::to_string(&y).expect("serialise");
    out.count(&format!("c15:hop:{ty}"));
    out.oracle_only += 1;
    // "the same document": as JSON documents — the library keeps maps in HashMaps, so the order of object members (and of
    // msgpack map entries inside proof-value envelopes) legitimately differs between two serialisations of equal objects
    let same = s1 == s2 || match (serde_json::from_str::<Value>(&s1), serde_json::from_str::<Value>(&s2)) {
        (Ok(a), Ok(b)) => canonical_doc(&a) == canonical_doc(&b),
        _ => false,
    };
    if !same {
        out.oracle_fail("serialising the deserialised object yields another document", &json!({"fam":"c15.hop","sig":sig,"type":ty,"first":s1.chars().take(3000).collect::<String>(),"second":s2.chars().take(3000).collect::<String>()}), &Value::Null);
    }
    y
}

/// hop for types with a typed equality: the object that arrives is the object that was sent (a document that re-serialises to
/// itself can still have lost what the sender meant: an empty interval is not "no interval")
fn hop_eq<T: Serialize + DeserializeOwned + PartialEq + std::fmt::Debug>(x: &T, ty: &str, out: &mut Out, sig: &str) -> T {
    let y = hop(x, ty, out, sig);
    if *x != y {
        out.oracle_fail("the object that arrives after a wire hop is not the object that was sent", &json!({"fam":"c15.hop","sig":sig,"type":ty,"sent":format!("{x:?}").chars().take(3000).collect::<String>(),"arrived":format!("{y:?}").chars().take(3000).collect::<String>()}), &Value::Null);
    }
    y
}

/// The text form of a curve point or field element is a sequence of "<excess> <64 hex digits>" pairs; the excess is the
/// arithmetic library's lazy-reduction counter at the moment of printing, not part of the value (it is reset by a trip
/// through the binary form).  Keep the digits only.
pub(crate) fn strip_excess(v: &Value) -> Value {
    match v {
        Value::String(t) => {
            let toks: Vec<&str> = t.split(' ').collect();
            let is_hex = |x: &str| x.len() == 64 && x.bytes().all(|b| b.is_ascii_hexdigit());
            let is_small = |x: &str| !x.is_empty() && x.len() <= 3 && x.bytes().all(|b| b.is_ascii_digit());
            if toks.len() >= 2 && toks.len() % 2 == 0 && toks.chunks(2).all(|c| is_small(c[0]) && is_hex(c[1])) {
                Value::String(toks.chunks(2).map(|c| c[1]).collect::<Vec<_>>().join(" "))
            } else { v.clone() }
        }
        Value::Array(a) => Value::Array(a.iter().map(strip_excess).collect()),
        Value::Object(o) => Value::Object(o.iter().map(|(k, x)| (k.clone(), strip_excess(x))).collect()),
        _ => v.clone(),
    }
}

/// hop for types without a typed equality but with a deterministic `Debug` form (no hash maps inside): the printed object that
/// arrives is the printed object that was sent (`Some(0)` is not `None`)
fn hop_dbg<T: Serialize + DeserializeOwned + std::fmt::Debug>(x: &T, ty: &str, out: &mut Out, sig: &str) -> T {
    let y = hop(x, ty, out, sig);
    // a bit vector prints its heap address and capacity: not part of the value
    let clean = |t: String| -> String {
        let mut o = String::with_capacity(t.len());
        let mut rest = t.as_str();
        while let Some(i) = rest.find("addr: 0x") {
            o.push_str(&rest[..i]);
            let tail = &rest[i..];
            let end = tail.find(" }").unwrap_or(tail.len());
            rest = &tail[end..];
        }
        o.push_str(rest);
        o
    };
    let (a, b) = (clean(format!("{x:?}")), clean(format!("{y:?}")));
    if a != b {
        let at = a.chars().zip(b.chars()).position(|(p, q)| p != q).unwrap_or(a.len().min(b.len()));
        let from = at.saturating_sub(60);
        out.oracle_fail("the object that arrives after a wire hop is not the object that was sent", &json!({"fam":"c15.hop","sig":sig,"type":ty,"sent":a.chars().skip(from).take(200).collect::<String>(),"arrived":b.chars().skip(from).take(200).collect::<String>()}), &Value::Null);
    }
    y
}

/// one complete flow (issue, hold, present, verify) with or without a hop at every hand-over point; returns the verdict
fn flow_with_hops(eng: &mut Engine, rng_seed: u64, revocable: bool, w3c_form: bool, hops: bool, out: &mut Out) -> String {
    let w = eng.cast.w.clone();
    let d = w.def(if revocable { "R" } else { "A" });
    let mut rng = Rng::new(rng_seed);
    let h = |out: &mut Out, ty: &str| -> bool { let _ = (out, ty); hops };
    let ls = prover::create_link_secret().unwrap();
    // schema / cred def / key proof travel from issuer to ledger to holder
    let schema = if h(out, "Schema") { hop_dbg(&d.schema, "Schema", out, "") } else { d.schema.clone() };
    let cd = if hops { hop(&d.cd, "CredentialDefinition", out, "") } else { d.cd.try_clone().unwrap() };
    let cdp: CredentialDefinitionPrivate = if hops { hop(&d.cdp, "CredentialDefinitionPrivate", out, "") } else { serde_json::from_value(serde_json::to_value(&d.cdp).unwrap()).unwrap() };
    let kcp: CredentialKeyCorrectnessProof = if hops { hop_dbg(&d.kcp, "CredentialKeyCorrectnessProof", out, "") } else { d.kcp.try_clone().unwrap() };
    let offer = issuer::create_credential_offer(d.sid.clone(), d.cid.clone(), &kcp).unwrap();
    let offer = if hops { hop_dbg(&offer, "CredentialOffer", out, "") } else { offer };
    let (req, meta) = prover::create_credential_request(Some("entropy"), None, &cd, &ls, "ls", &offer).unwrap();
    let (req, meta) = if hops { (hop_dbg(&req, "CredentialRequest", out, ""), hop_dbg(&meta, "CredentialRequestMetadata", out, "")) } else { (req, meta) };
    let vals = if revocable { vec![("name", "Alice"), ("age", "25"), ("dept", "R&D")] } else { vec![("name", "Alice"), ("age", "25"), ("sex", "F"), ("height", "170")] };
    let vals: Vec<(String, String)> = vals.into_iter().map(|(a, b)| (a.to_string(), b.to_string())).collect();
    // revocation objects
    let reg = d.regs.first();
    let (rrd, rrdp, list0) = match reg {
        Some(r) if revocable => {
            let rrd = if hops { hop_dbg(&r.def, "RevocationRegistryDefinition", out, "") } else { r.def.clone() };
            let rrdp: anoncreds::data_types::rev_reg_def::RevocationRegistryDefinitionPrivate = if hops { hop(&r.def_priv, "RevocationRegistryDefinitionPrivate", out, "") } else { serde_json::from_value(serde_json::to_value(&r.def_priv).unwrap()).unwrap() };
            let l = issuer::create_revocation_status_list(&cd, r.rid.clone(), &rrd, &rrdp, true, Some(10)).unwrap();
            let l = if hops { hop_dbg(&l, "RevocationStatusList", out, "") } else { l };
            (Some(rrd), Some(rrdp), Some(l))
        }
        _ => (None, None, None),
    };
    let idx = 1 + rng.below(4) as u32;
    let cfg = match (&rrd, &rrdp, &list0) {
        (Some(a), Some(b), Some(l)) => Some(CredentialRevocationConfig { reg_def: a, reg_def_private: b, status_list: l, registry_idx: idx }),
        _ => None,
    };
    let schemas: HashMap<_, _> = [(d.sid.clone(), schema.clone())].into_iter().collect();
    let cred_defs: HashMap<_, _> = [(d.cid.clone(), cd.try_clone().unwrap())].into_iter().collect();
    let nonce = verifier::generate_nonce().unwrap();
    let nonce = if hops { hop(&nonce, "Nonce", out, "") } else { nonce };
    let mut reqj = json!({"nonce": nonce.to_string(), "name":"r","version":"1.0","requested_attributes":{"a1":{"name":"name"},"a2":{"names":["age","dept"]}},"requested_predicates":{}});
    if !revocable {
        reqj["requested_attributes"]["a2"] = json!({"names":["sex","height"], "restrictions": [{"cred_def_id": d.cid.0}]});
        reqj["requested_predicates"] = json!({"p1":{"name":"age","p_type":">=","p_value":18}});
    } else {
        reqj["non_revoked"] = json!({"from": 0, "to": 100});
    }
    if rng.chance(1, 2) {
        reqj["ver"] = json!(*rng.pick(&["1.0", "2.0"]));
    }
    let pres_req: PresentationRequest = serde_json::from_value(reqj).unwrap();
    let pres_req = if hops { hop_eq(&pres_req, "PresentationRequest", out, "") } else { pres_req };
    let rrds: Option<HashMap<_, _>> = match (&reg, &rrd) {
        (Some(r), Some(def)) => Some([(r.rid.clone(), def.clone())].into_iter().collect()),
        _ => None,
    };
    if w3c_form {
        let mut cred = match w3c::issuer::create_credential(&cd, &cdp, &offer, &req, make_w3c_values(&vals), cfg, None) {
            Ok(c) => c,
            Err(e) => return format!("issue-err:{e}"),
        };
        if hops {
            cred = hop(&cred, "W3CCredential", out, "");
        }
        if let Err(e) = w3c::prover::process_credential(&mut cred, &meta, &ls, &cd, rrd.as_ref()) {
            return format!("process-err:{e}");
        }
        if hops {
            cred = hop(&cred, "W3CCredential", out, "");
        }
        let state = match (&reg, &rrd, &list0) {
            (Some(_), Some(def), Some(l)) => {
                let st = prover::create_or_update_revocation_state(&def.value.tails_location, def, l, idx, None, None).unwrap();
                Some(if hops { hop_dbg(&st, "CredentialRevocationState", out, "") } else { st })
            }
            _ => None,
        };
        let mut pc = PresentCredentials::default();
        {
            let mut x = pc.add_credential(&cred, state.as_ref().map(|_| 10), state.as_ref());
            x.add_requested_attribute("a1", true);
            x.add_requested_attribute("a2", true);
            if !revocable {
                x.add_requested_predicate("p1");
            }
        }
        let p = match w3c::prover::create_presentation(&pres_req, pc, &ls, &schemas, &cred_defs, None) {
            Ok(p) => p,
            Err(e) => return format!("present-err:{e}"),
        };
        let p: W3CPresentation = if hops { hop(&p, "W3CPresentation", out, "") } else { p };
        match w3c::verifier::verify_presentation(&p, &pres_req, &schemas, &cred_defs, rrds.as_ref(), list0.clone().map(|l| vec![l]), None) {
            Ok(true) => "T".into(),
            Ok(false) => "F".into(),
            Err(e) => format!("E:{e}"),
        }
    } else {
        let mut cred = match issuer::create_credential(&cd, &cdp, &offer, &req, crate::world::make_values(&vals), cfg) {
            Ok(c) => c,
            Err(e) => return format!("issue-err:{e}"),
        };
        if hops {
            cred = hop(&cred, "Credential", out, "");
        }
        if let Err(e) = prover::process_credential(&mut cred, &meta, &ls, &cd, rrd.as_ref()) {
            return format!("process-err:{e}");
        }
        if hops {
            cred = hop(&cred, "Credential", out, "");
        }
        let state = match (&reg, &rrd, &list0) {
            (Some(_), Some(def), Some(l)) => {
                let st = prover::create_or_update_revocation_state(&def.value.tails_location, def, l, idx, None, None).unwrap();
                Some(if hops { hop_dbg(&st, "CredentialRevocationState", out, "") } else { st })
            }
            _ => None,
        };
        let mut pc = PresentCredentials::default();
        {
            let mut x = pc.add_credential(&cred, state.as_ref().map(|_| 10), state.as_ref());
            x.add_requested_attribute("a1", true);
            x.add_requested_attribute("a2", true);
            if !revocable {
                x.add_requested_predicate("p1");
            }
        }
        let p = match prover::create_presentation(&pres_req, pc, None, &ls, &schemas, &cred_defs) {
            Ok(p) => p,
            Err(e) => return format!("present-err:{e}"),
        };
        let p: Presentation = if hops { hop(&p, "Presentation", out, "") } else { p };
        match verifier::verify_presentation(&p, &pres_req, &schemas, &cred_defs, rrds.as_ref(), list0.clone().map(|l| vec![l]), None) {
            Ok(true) => "T".into(),
            Ok(false) => "F".into(),
            Err(e) => format!("E:{e}"),
        }
    }
}

pub fn make_w3c_values(vals: &[(String, String)]) -> anoncreds::data_types::w3c::credential_attributes::CredentialSubject {
    use anoncreds::data_types::w3c::credential_attributes::{CredentialAttributeValue as V, CredentialSubject};
    CredentialSubject(vals.iter().map(|(k, v)| (k.clone(), match v.parse::<i32>() { Ok(n) => V::Number(n), Err(_) => V::String(v.clone()) })).collect())
}

pub fn c15(eng: &mut Engine, rng: &mut Rng, thorough: bool, out: &mut Out) -> Cases {
    let mut cases = vec![];
    // the base64url layer of every proof value (ops b64_encode / b64_decode, model Base64): byte strings of every length 0..=48 and
    // random longer ones; texts: every string of length <= 2 over the alphabet plus the usual intruders, the last symbol of valid
    // texts replaced by every symbol (unused low bits), padding appended, intruders inserted, real proof values
    {
        use anoncreds::verif_hooks::{base64_decode, base64_encode};
        let dec = |t: &str| -> Value { match base64_decode(t) { Ok(b) => json!(b), Err(_) => json!({"err": true}) } };
        let mut byte_strings: Vec<Vec<u8>> = vec![];
        for len in 0..=48usize { for _ in 0..(if thorough { 12 } else { 3 }) { byte_strings.push((0..len).map(|_| rng.below(256) as u8).collect()); } }
        for b in [0u8, 255, 0xfb, 0xff] { for len in 1..=4 { byte_strings.push(vec![b; len]); } }
        for _ in 0..(if thorough { 300 } else { 30 }) { let len = 49 + rng.below(400) as usize; byte_strings.push((0..len).map(|_| rng.below(256) as u8).collect()); }
        // sizes of real proof values and beyond (a presentation with a dozen predicates carries ~100 KiB)
        for len in [4_095usize, 4_096, 16_383, 16_384, 16_385, 65_537, 200_000] { byte_strings.push((0..len).map(|_| rng.below(256) as u8).collect()); }
        let mut texts: Vec<(String, String)> = vec![];
        for b in &byte_strings {
            let t = base64_encode(b);
            // oracle (C15): what was written is read back
            if base64_decode(&t).ok().as_ref() != Some(b) {
                out.oracle_fail("a byte string is not read back from its base64 text", &json!({"fam":"c15.b64","sig":"","bytes":b}), &json!(t));
            }
            cases.push((json!({"op":"b64_encode","fam":"c15.b64","cls":format!("encode-len-mod3-{}", b.len() % 3),"bytes":b,"nt":true}), json!(t)));
            texts.push(("valid".into(), t));
        }
        let alphabet: Vec<char> = "ABCDEFGHIJKLMNOPQRSTUVWXYZabcdefghijklmnopqrstuvwxyz0123456789-_".chars().collect();
        let intruders: Vec<char> = "=+/ .\n\t,:;@[`{\u{0}\u{7f}é€".chars().collect();
        let symbols: Vec<char> = alphabet.iter().chain(intruders.iter()).cloned().collect();
        texts.push(("short".into(), String::new()));
        for a in &symbols { texts.push(("short".into(), a.to_string())); for b in &symbols { texts.push(("short".into(), format!("{a}{b}"))); } }
        let valid: Vec<String> = texts.iter().filter(|(c, t)| c == "valid" && !t.is_empty() && t.len() < 1000).map(|(_, t)| t.clone()).collect();
        for (i, t) in valid.iter().enumerate() {
            if i % (if thorough { 1 } else { 4 }) != 0 { continue; }
            let head: String = t.chars().take(t.chars().count() - 1).collect();
            for c in &alphabet { texts.push(("last-symbol".into(), format!("{head}{c}"))); }
            for pad in ["=", "==", "==="] { texts.push(("padded".into(), format!("{t}{pad}"))); }
            let at = rng.below(t.len() as u64 + 1) as usize;
            let c = intruders[rng.below(intruders.len() as u64) as usize];
            texts.push(("intruder".into(), format!("{}{}{}", &t[..at], c, &t[at..])));
            texts.push(("one-more".into(), format!("{t}{}", alphabet[rng.below(64) as usize])));
            texts.push(("one-less".into(), head));
        }
        // proof values of real objects (after the multibase header)
        for c in eng.cast.creds.iter().take(3) {
            if let Some(v) = serde_json::to_value(&c.w3c).unwrap()["proof"][0]["proofValue"].as_str() { texts.push(("real-proof-value".into(), v[1..].to_string())); }
        }
        let mut accepted = 0u64;
        for (cls, t) in texts {
            let imp = dec(&t);
            if imp.is_array() {
                accepted += 1;
                // oracle (C15): an accepted text is the text written for what it was read as
                let bytes: Vec<u8> = serde_json::from_value(imp.clone()).unwrap();
                if base64_encode(&bytes) != t {
                    out.oracle_fail("an accepted base64 text is not the text written for the bytes it was read as (second spelling of one value)", &json!({"fam":"c15.b64","sig":"","text":t}), &imp);
                }
            }
            out.count(&format!("c15:b64:{cls}:{}", if imp.is_array() { "accepted" } else { "refused" }));
            cases.push((json!({"op":"b64_decode","fam":"c15.b64","cls":cls,"s":t,"nt":true}), imp));
        }
        out.count_n("c15:b64:accepted-texts", accepted);
        // the tagged proof value (op codec_pv, model WirePv): msgpack sequences assembled from real payloads of the three kinds, integers
        // in every msgpack integer format and other values; which kind the hand-written visitor accepts
        let mut pv_texts: Vec<(String, String, Value)> = vec![];
        let mut real_payloads: Vec<(String, Vec<u8>, Value)> = vec![];
        {
            use anoncreds::data_types::w3c::proof::{DataIntegrityProof, DataIntegrityProofValue};
            let proof_obj = serde_json::to_value(&eng.cast.creds[0].w3c).unwrap()["proof"][0].clone();
            let bytes_of = |p: &Value| -> Option<Vec<u8>> { p["proofValue"].as_str().and_then(|t| base64_decode(&t[1..]).ok()) };
            let mut payloads: Vec<Option<Vec<u8>>> = vec![None, bytes_of(&proof_obj).map(|b| b[2..].to_vec()), None, None];
            let plan = crate::scen::gen_honest_plan(rng, &eng.cast, true, false);
            if let Ok(b) = eng.build_w3c(&plan) {
                let pj = serde_json::to_value(&b.pres).unwrap();
                payloads[2] = bytes_of(&pj["verifiableCredential"][0]["proof"]).map(|b| b[2..].to_vec());
                payloads[3] = bytes_of(&pj["proof"]).map(|b| b[2..].to_vec());
            }
            // the payload structures themselves (op mp_json, model Msgpack): the bytes of every real proof value of the cast and of
            // honest presentations, decoded by the model, are the document serde_json prints for the structure the library decoded
            {
                let mut proofs: Vec<Value> = vec![];
                for c in eng.cast.creds.iter() { let j = serde_json::to_value(&c.w3c).unwrap(); if let Some(a) = j["proof"].as_array() { proofs.extend(a.iter().cloned()); } else { proofs.push(j["proof"].clone()); } }
                for _ in 0..(if thorough { 12 } else { 3 }) {
                    let plan = crate::scen::gen_honest_plan(rng, &eng.cast, true, false);
                    if let Ok(b) = eng.build_w3c(&plan) {
                        let pj = serde_json::to_value(&b.pres).unwrap();
                        proofs.push(pj["proof"].clone());
                        if let Some(vcs) = pj["verifiableCredential"].as_array() { for vc in vcs { proofs.push(vc["proof"].clone()); } }
                    }
                }
                for p in proofs {
                    let Some(bytes) = bytes_of(&p) else { continue };
                    let Ok(d) = serde_json::from_value::<DataIntegrityProof>(p.clone()) else { continue };
                    let (k, doc) = match d.get_proof_value() {
                        DataIntegrityProofValue::CredentialSignature(x) => (1, serde_json::to_value(x).unwrap()),
                        DataIntegrityProofValue::CredentialPresentation(x) => (2, serde_json::to_value(x).unwrap()),
                        DataIntegrityProofValue::Presentation(x) => (3, serde_json::to_value(x).unwrap()),
                    };
                    let _ = doc;
                    real_payloads.push((format!("kind{k}"), bytes.clone(), Value::Null));
                    if let Some(pt) = crate::mp::payload_tree(&bytes) { pv_texts.push((format!("real-kind{k}"), p["proofValue"].as_str().unwrap().to_string(), json!({"kind": k, "payload": pt}))); }
                }
            }
            if payloads[1..].iter().all(|p| p.is_some()) {
                let int_bytes = |n: i64, wide: bool| -> Vec<u8> {
                    if wide { let mut v = vec![0xd2]; v.extend_from_slice(&(n as i32).to_be_bytes()); v }
                    else if (0..128).contains(&n) { vec![n as u8] } else if (-32..0).contains(&n) { vec![n as i8 as u8] }
                    else { let mut v = vec![0xd2]; v.extend_from_slice(&(n as i32).to_be_bytes()); v }
                };
                let others: Vec<Vec<u8>> = vec![vec![0xc0], vec![0xa1, 0x31], vec![0xc3], vec![0xd3, 0, 0, 1, 0, 0, 0, 0, 0], vec![0xca, 0x3f, 0x80, 0, 0], vec![0x80], vec![0x90], vec![0xce, 0xff, 0xff, 0xff, 0xff], vec![0xcf, 0, 0, 0, 1, 0, 0, 0, 1]];
                // (abstract item, bytes)
                let mut seqs: Vec<(String, Vec<(Value, Vec<u8>)>)> = vec![];
                let tags: Vec<i64> = vec![-2, -1, 0, 1, 2, 3, 4, 5, 127, 128, i32::MAX as i64, i32::MIN as i64];
                for &t in &tags { for k in 1..=3usize { for wide in [false, true] {
                    let ti = (json!({"int": t}), int_bytes(t, wide));
                    let pk = (json!({"payload": k}), payloads[k].clone().unwrap());
                    seqs.push(("tag-payload".into(), vec![ti.clone(), pk.clone()]));
                    if t >= 1 && t <= 3 {
                        seqs.push(("extra-element".into(), vec![ti.clone(), pk.clone(), (json!("other"), others[0].clone())]));
                        seqs.push(("extra-element".into(), vec![ti.clone(), pk.clone(), pk.clone()]));
                        seqs.push(("payload-first".into(), vec![pk.clone(), ti.clone()]));
                    }
                } }
                    seqs.push(("tag-only".into(), vec![(json!({"int": t}), int_bytes(t, false))]));
                    for o in &others { seqs.push(("tag-other".into(), vec![(json!({"int": t}), int_bytes(t, false)), (json!("other"), o.clone())])); }
                }
                seqs.push(("empty".into(), vec![]));
                for o in &others { for k in 1..=3usize { seqs.push(("other-payload".into(), vec![(json!("other"), o.clone()), (json!({"payload": k}), payloads[k].clone().unwrap())])); } }
                for _ in 0..(if thorough { 600 } else { 80 }) {
                    if rng.chance(1, 2) {
                        // mostly-valid stream: the written form, half of the time with one edit
                        let k = 1 + rng.below(3) as usize;
                        let mut items = vec![(json!({"int": k}), int_bytes(k as i64, rng.chance(1, 3))), (json!({"payload": k}), payloads[k].clone().unwrap())];
                        if rng.chance(1, 2) {
                            match rng.below(3) {
                                0 => { let t = tags[rng.below(tags.len() as u64) as usize]; items[0] = (json!({"int": t}), int_bytes(t, rng.chance(1, 3))); }
                                1 => { let k2 = 1 + rng.below(3) as usize; items[1] = (json!({"payload": k2}), payloads[k2].clone().unwrap()); }
                                _ => items.push((json!("other"), others[rng.below(others.len() as u64) as usize].clone())),
                            }
                        }
                        seqs.push(("random-edited".into(), items));
                        continue;
                    }
                    let len = rng.below(4);
                    let items = (0..len).map(|_| match rng.below(3) {
                        0 => { let t = tags[rng.below(tags.len() as u64) as usize]; (json!({"int": t}), int_bytes(t, rng.chance(1, 3))) }
                        1 => { let k = 1 + rng.below(3) as usize; (json!({"payload": k}), payloads[k].clone().unwrap()) }
                        _ => (json!("other"), others[rng.below(others.len() as u64) as usize].clone()),
                    }).collect();
                    seqs.push(("random".into(), items));
                }
                for (cls, items) in seqs {
                    let mut bytes = vec![0x90u8 | items.len() as u8];
                    for (_, b) in &items { bytes.extend_from_slice(b); }
                    let mut p = proof_obj.clone();
                    let text = format!("u{}", base64_encode(&bytes));
                    p["proofValue"] = json!(text);
                    let parsed = serde_json::from_value::<DataIntegrityProof>(p);
                    let imp = match &parsed {
                        Err(_) => json!({"err": true}),
                        Ok(d) => match d.get_proof_value() { DataIntegrityProofValue::CredentialSignature(_) => json!(1), DataIntegrityProofValue::CredentialPresentation(_) => json!(2), DataIntegrityProofValue::Presentation(_) => json!(3) },
                    };
                    // all four layers by the model (op pv_typed: the elements are classified from the bytes — an integer within i32, a map
                    // with the required members of payload structure k, anything else — and the visitor model decides): every class
                    cases.push((json!({"op":"pv_typed","fam":"c15.mp","cls":format!("typed-{cls}"),"s":text,"nt":true}), imp.clone()));
                    // the same text through the whole model chain (op pv_read: header, base64url, msgpack, tagged sequence): exact when the
                    // library accepts (kind and the payload's document), and when it refuses for a reason the untyped layers can see
                    // (not two elements, first element not a tag 1..3); a payload of the wrong structure is the typed layer's refusal
                    match &parsed {
                        Ok(d) => {
                            let (k, doc) = match d.get_proof_value() {
                                DataIntegrityProofValue::CredentialSignature(x) => (1, serde_json::to_value(x).unwrap()),
                                DataIntegrityProofValue::CredentialPresentation(x) => (2, serde_json::to_value(x).unwrap()),
                                DataIntegrityProofValue::Presentation(x) => (3, serde_json::to_value(x).unwrap()),
                            };
                            let _ = doc;
                            if let Some(pt) = crate::mp::payload_tree(&bytes) { pv_texts.push((format!("seq-{cls}"), text.clone(), json!({"kind": k, "payload": pt}))); }
                        }
                        Err(_) => {
                            let tag_ok = items.first().and_then(|(a, _)| a["int"].as_i64()).map(|t| (1..=3).contains(&t)).unwrap_or(false);
                            if items.len() != 2 || !tag_ok { pv_texts.push((format!("seq-{cls}"), text.clone(), json!({"err": true}))); }
                        }
                    }
                    out.count(&format!("c15:pv-seq:{cls}:{}", if imp.is_number() { "accepted" } else { "refused" }));
                    cases.push((json!({"op":"codec_pv","fam":"c15.b64","cls":format!("seq-{cls}"),"items":items.iter().map(|(a, _)| a.clone()).collect::<Vec<_>>(),"nt":true}), imp));
                }
            } else { out.count("c15:pv-seq:no-payloads"); }
        }
        // the multibase layer (op pv_decode, Base64.envelopeDecode): real proof objects whose proofValue text is respelled so that the
        // bytes behind it are unchanged whenever the text is acceptable at all (the msgpack layer then cannot be what refuses)
        for c in eng.cast.creds.iter().take(3) {
            let proof = serde_json::to_value(&c.w3c).unwrap()["proof"][0].clone();
            let Some(pv) = proof["proofValue"].as_str().map(|x| x.to_string()) else { continue };
            let mut variants: Vec<(&str, String)> = vec![("as-written", pv.clone())];
            for h in ["", "U", "z", "m", " "] { variants.push(("header", format!("{h}{}", &pv[1..]))); }
            for pad in ["=", "==", "\n", " "] { variants.push(("trailing", format!("{pv}{pad}"))); }
            let body = &pv[1..];
            let unused_bits = match body.len() % 4 { 2 => 4, 3 => 2, _ => 0 };
            if unused_bits > 0 {
                let last = body.chars().last().unwrap();
                let v = alphabet.iter().position(|x| *x == last).unwrap();
                for low in 0..(1usize << unused_bits) {
                    let w = (v >> unused_bits << unused_bits) | low;
                    variants.push(("unused-bits", format!("u{}{}", &body[..body.len() - 1], alphabet[w])));
                }
            }
            for (cls, t) in variants {
                let mut p = proof.clone();
                p["proofValue"] = json!(t);
                let ok = serde_json::from_value::<anoncreds::data_types::w3c::proof::DataIntegrityProof>(p).is_ok();
                out.count(&format!("c15:pv:{cls}:{}", if ok { "accepted" } else { "refused" }));
                cases.push((json!({"op":"pv_decode","fam":"c15.b64","cls":format!("pv-{cls}"),"s":t,"nt":true}), json!({"accepted": ok})));
            }
        }
        cases.extend(crate::mp::cases(rng, thorough, out, &real_payloads, &pv_texts));
    }
    let n = if thorough { 400 } else { 16 };
    for i in 0..n {
        let revocable = i % 2 == 1;
        let w3c_form = (i / 2) % 2 == 1;
        let seed = rng.next();
        let direct = flow_with_hops(eng, seed, revocable, w3c_form, false, out);
        let hopped = flow_with_hops(eng, seed, revocable, w3c_form, true, out);
        out.count(&format!("c15:flow:{}:{}:{}", if w3c_form { "w3c" } else { "legacy" }, if revocable { "rev" } else { "plain" }, &direct[..1]));
        let case = json!({"fam":"c15.flow","sig":"","revocable":revocable,"w3c":w3c_form,"seed":seed});
        if direct != "T" {
            out.oracle_fail("honest flow does not verify", &case, &json!({"direct": direct}));
        }
        if direct.chars().next() != hopped.chars().next() || (direct.len() > 1 && hopped.len() > 1 && direct.split(':').next() != hopped.split(':').next()) {
            out.oracle_fail("a serialise/deserialise hop at the hand-over points changes the outcome of the flow", &case, &json!({"direct": direct, "hopped": hopped}));
        }
    }
    // objects of the cast (both credential forms, status lists of a history, honest presentations of random shapes)
    for i in 0..eng.cast.creds.len() {
        let c = eng.cast.creds[i].cred.try_clone().unwrap();
        hop(&c, "Credential", out, "");
        let w: W3CCredential = eng.cast.creds[i].w3c.clone();
        hop_eq(&w, "W3CCredential", out, "");
    }
    for r in 0..eng.cast.regs.len() {
        for l in eng.cast.regs[r].lists.clone() {
            hop_dbg(&l, "RevocationStatusList", out, "");
        }
    }
    // a NEGATIVE revealed number in a W3C presentation: its encoding travels inside the msgpack proof value (known finding F22: the sign
    // is lost there, so the presentation that verifies in memory is rejected once it has crossed a wire); the legacy form of the same
    // presentation as control
    {
        let d = eng.cast.w.def("A");
        let schemas = eng.cast.w.schemas();
        let cred_defs = eng.cast.w.cred_defs();
        for (a, h) in [("-25", "-0170"), ("0", "-0"), ("-2147483648", "2147483647"), ("-1", "255"), ("-256", "65536")] {
        let vals: Vec<(String, String)> = vec![("name".into(), "Alice".into()), ("age".into(), a.into()), ("sex".into(), "F".into()), ("height".into(), h.into())];
        if let Ok(cred) = crate::world::issue_plain(d, &eng.cast.holders[0], &vals) {
            let req: PresentationRequest = serde_json::from_value(json!({"nonce": format!("{}", 1000 + rng.below(1_000_000_000)), "name":"r","version":"1.0","requested_attributes": {"r0": {"name": "age"}, "r1": {"name": "height"}}, "requested_predicates": {}})).unwrap();
            let mut pc = PresentCredentials::default();
            {
                let mut x = pc.add_credential(&cred, None, None);
                x.add_requested_attribute("r0", true);
                x.add_requested_attribute("r1", true);
            }
            if let Ok(p) = prover::create_presentation(&req, pc, None, &eng.cast.holders[0], &schemas, &cred_defs) {
                let p2 = hop(&p, "Presentation", out, "");
                let (v1, v2) = (verifier::verify_presentation(&p, &req, &schemas, &cred_defs, None, None, None).unwrap_or(false), verifier::verify_presentation(&p2, &req, &schemas, &cred_defs, None, None, None).unwrap_or(false));
                out.count(&format!("c15:negative-revealed:legacy:{v1}:{v2}"));
                if !v1 || !v2 {
                    out.oracle_fail("a legacy presentation revealing a negative number does not verify (before / after a hop)", &json!({"fam":"c15.present","sig":"","format":"legacy"}), &json!({"direct": v1, "hopped": v2}));
                }
            }
            if let Ok(wc) = anoncreds::w3c::credential_conversion::credential_to_w3c(&cred, &d.issuer, None) {
                let mut pc = PresentCredentials::default();
                {
                    let mut x = pc.add_credential(&wc, None, None);
                    x.add_requested_attribute("r0", true);
                    x.add_requested_attribute("r1", true);
                }
                if let Ok(p) = w3c::prover::create_presentation(&req, pc, &eng.cast.holders[0], &schemas, &cred_defs, None) {
                    let p2 = hop(&p, "W3CPresentation", out, "C15:w3c:negative-revealed-value-lost-in-proof-value");
                    // the revealed encodings before and after the hop against the model of the binary big-number codec (op bn_hop)
                    let enc_of = |pp: &W3CPresentation| -> Vec<(String, String)> {
                        pp.verifiable_credential[0].get_credential_presentation_proof().ok().map(|pv| serde_json::to_value(&pv.sub_proof).unwrap())
                            .and_then(|sj| sj["primary_proof"]["eq_proof"]["revealed_attrs"].as_object().map(|o| o.iter().map(|(k, v)| (k.clone(), v.as_str().unwrap_or("").to_string())).collect())).unwrap_or_default()
                    };
                    let (before, after) = (enc_of(&p), enc_of(&p2));
                    for (k, z) in &before {
                        if let Some((_, z2)) = after.iter().find(|(k2, _)| k2 == k) {
                            cases.push((json!({"op":"bn_hop","fam":"c15.bn_hop","attr":k,"z":z,"nt":true}), json!(z2)));
                        }
                    }
                    let (v1, v2) = (w3c::verifier::verify_presentation(&p, &req, &schemas, &cred_defs, None, None, None).unwrap_or(false), w3c::verifier::verify_presentation(&p2, &req, &schemas, &cred_defs, None, None, None).unwrap_or(false));
                    out.count(&format!("c15:negative-revealed:w3c:{v1}:{v2}"));
                    if v1 != v2 || !v1 {
                        out.oracle_fail("a W3C presentation revealing a negative number verifies in memory but not after a wire hop", &json!({"fam":"c15.present","sig":"C15:w3c:negative-revealed-value-lost-in-proof-value","format":"w3c"}), &json!({"direct": v1, "hopped": v2}));
                    }
                }
            }
        }
        }
    }
    // every data-model version of the W3C form (1.1 carries an issuance date, 2.0 does not): converted credentials and presentations
    // made from them, each across a hop
    {
        use anoncreds::data_types::w3c::VerifiableCredentialSpecVersion as Ver;
        let schemas = eng.cast.w.schemas();
        let cred_defs = eng.cast.w.cred_defs();
        for i in 0..eng.cast.creds.len() {
            if eng.cast.creds[i].holder != 0 || eng.cast.creds[i].rev.is_some() {
                continue;
            }
            let d = &eng.cast.w.defs[eng.cast.creds[i].def];
            for ver in [Ver::V1_1, Ver::V2_0] {
                let Ok(wc) = anoncreds::w3c::credential_conversion::credential_to_w3c(&eng.cast.creds[i].cred, &d.issuer, Some(ver.clone())) else {
                    out.oracle_fail("a cast credential does not convert to the W3C form of a data-model version", &json!({"fam":"c15.hop","sig":"","type":"W3CCredential","version":format!("{ver:?}")}), &Value::Null);
                    continue;
                };
                let wc2 = hop_eq(&wc, "W3CCredential", out, "");
                out.count(&format!("c15:w3c-version:{ver:?}:credential"));
                let n0 = eng.cast.creds[i].values[0].0.clone();
                let req: PresentationRequest = serde_json::from_value(json!({"nonce": format!("{}", 1000 + rng.below(1_000_000_000)), "name":"r","version":"1.0","requested_attributes": {"r0": {"name": n0}}, "requested_predicates": {}})).unwrap();
                let mut pc = PresentCredentials::default();
                pc.add_credential(&wc2, None, None).add_requested_attribute("r0", true);
                match w3c::prover::create_presentation(&req, pc, &eng.cast.holders[0], &schemas, &cred_defs, Some(ver.clone())) {
                    Ok(p) => {
                        let p2 = hop_eq(&p, "W3CPresentation", out, "");
                        let v = w3c::verifier::verify_presentation(&p2, &req, &schemas, &cred_defs, None, None, None).unwrap_or(false);
                        out.count(&format!("c15:w3c-version:{ver:?}:presentation:{v}"));
                        if !v {
                            out.oracle_fail("a W3C presentation of a data-model version does not verify after a hop", &json!({"fam":"c15.hop","sig":"","type":"W3CPresentation","version":format!("{ver:?}")}), &Value::Null);
                        }
                    }
                    Err(e) => out.oracle_fail("a W3C presentation of a data-model version could not be made", &json!({"fam":"c15.hop","sig":"","type":"W3CPresentation","version":format!("{ver:?}")}), &json!({"err": e.to_string()})),
                }
            }
        }
    }
    for i in 0..(if thorough { 300 } else { 24 }) {
        let w3c_form = i % 2 == 1;
        let plan = gen_honest_plan(rng, &eng.cast, w3c_form, i % 3 == 0);
        let o = honest_vopts(&eng.cast, &plan);
        if w3c_form {
            if let Ok(b) = eng.build_w3c(&plan) {
                let p2 = hop_eq(&b.pres, "W3CPresentation", out, "");
                let r2 = hop_eq(&b.req, "PresentationRequest", out, "");
                let (v1, _) = eng.verify_w3c(&b.pres, &b.req, &o);
                let (v2, _) = eng.verify_w3c(&p2, &r2, &o);
                if v1 != v2 {
                    out.oracle_fail("presentation verifies differently after a wire hop", &json!({"fam":"c15.present","sig":"","format":"w3c"}), &json!({"direct": v1, "hopped": v2}));
                }
            }
        } else if let Ok(b) = eng.build_legacy(&plan) {
            let p: Presentation = serde_json::from_value(b.pres.clone()).unwrap();
            let p2 = hop(&p, "Presentation", out, "");
            let r2 = hop_eq(&b.req, "PresentationRequest", out, "");
            let v1 = eng.verify_legacy(&b.pres, &b.req, &o).map(|x| x.0);
            let v2 = eng.verify_legacy(&serde_json::to_value(&p2).unwrap(), &r2, &o).map(|x| x.0);
            if v1 != v2 {
                out.oracle_fail("presentation verifies differently after a wire hop", &json!({"fam":"c15.present","sig":"","format":"legacy"}), &json!({"direct": v1, "hopped": v2}));
            }
        }
    }
    // size: nothing in the wire formats depends on how much a presentation proves — one credential answering 1..=12 predicates (the sub
    // proof grows by some kilobytes each), with everything revealed besides, and three credentials with four predicates each (the
    // aggregated proof grows with the total): every one crosses a hop unchanged and verifies as before
    {
        use crate::scen::{CredUse, Kind, Plan, RefPlan};
        let mk_plan = |helds: &[&str], per_cred: usize, eng: &Engine, rng: &mut Rng| -> Plan {
            let mut refs = vec![];
            for (ci, _) in helds.iter().enumerate() {
                for k in 0..per_cred {
                    let (name, ty, th) = [("age", "GE", 18), ("age", "LT", 200), ("age", "GT", -5), ("age", "LE", 150)][k % 4];
                    refs.push(RefPlan { referent: format!("p{ci}_{k}"), kind: Kind::Pred(name.into(), ty, th + (k / 4) as i32), cred: Some(ci), revealed: false, restrictions: None, non_revoked: None });
                }
                refs.push(RefPlan { referent: format!("a{ci}"), kind: Kind::Single("name".into()), cred: Some(ci), revealed: true, restrictions: None, non_revoked: None });
            }
            Plan { creds: helds.iter().map(|h| CredUse { held: eng.cast.cred(h), state_list: None, ts_only: None }).collect(), refs, global_nr: None, nonce: format!("{}", 1000 + rng.below(1_000_000_000)), holder: 0 }
        };
        let mut plans: Vec<(String, Plan)> = vec![];
        for n in (if thorough { vec![1usize, 2, 3, 4, 5, 6, 8, 10, 12] } else { vec![1usize, 3, 6, 12] }) { plans.push((format!("one-credential-{n}-predicates"), mk_plan(&["a_alice"], n, eng, rng))); }
        plans.push(("three-credentials-4-predicates-each".into(), mk_plan(&["a_alice", "b_alice", "l_alice"], 4, eng, rng)));
        for (cls, plan) in plans {
            let o = honest_vopts(&eng.cast, &plan);
            match eng.build_w3c(&plan) {
                Ok(b) => {
                    let p2 = hop_eq(&b.pres, "W3CPresentation", out, &cls);
                    let (v1, _) = eng.verify_w3c(&b.pres, &b.req, &o);
                    let (v2, _) = eng.verify_w3c(&p2, &b.req, &o);
                    let size = serde_json::to_string(&b.pres).map(|t| t.len()).unwrap_or(0);
                    out.count(&format!("c15:size:w3c:{cls}:{v1}{v2}:{}k", size / 1024));
                    if v1 != "T" || v2 != "T" {
                        out.oracle_fail("a large honest W3C presentation does not verify, or not after a wire hop", &json!({"fam":"c15.present","sig":"","format":"w3c","cls":cls}), &json!({"direct": v1, "hopped": v2, "bytes": size}));
                    }
                }
                Err(e) => out.count(&format!("c15:size:w3c:{cls}:not-built:{}", e.chars().take(40).collect::<String>())),
            }
            if let Ok(b) = eng.build_legacy(&plan) {
                let p: Presentation = serde_json::from_value(b.pres.clone()).unwrap();
                let p2 = hop(&p, "Presentation", out, &cls);
                let v1 = eng.verify_legacy(&b.pres, &b.req, &o).map(|x| x.0);
                let v2 = eng.verify_legacy(&serde_json::to_value(&p2).unwrap(), &b.req, &o).map(|x| x.0);
                out.count(&format!("c15:size:legacy:{cls}:{}{}", v1.clone().unwrap_or_default(), v2.clone().unwrap_or_default()));
                if v1.as_deref() != Some("T") || v2.as_deref() != Some("T") {
                    out.oracle_fail("a large honest legacy presentation does not verify, or not after a wire hop", &json!({"fam":"c15.present","sig":"","format":"legacy","cls":cls}), &json!({"direct": v1, "hopped": v2}));
                }
            }
        }
    }
    // status lists with every boundary form of their timestamp (absent, 0, 1, the largest) over real histories
    {
        let base = eng.cast.regs[0].lists[1].clone();
        let wr = eng.cast.w.def("R");
        let reg = &wr.regs[eng.cast.regs[0].reg];
        let mut lists = vec![];
        for ts in [None, Some(0u64), Some(1), Some(u64::MAX)] {
            if let Ok(l) = issuer::create_revocation_status_list(&wr.cd, reg.rid.clone(), &reg.def, &reg.def_priv, true, ts) {
                lists.push(l);
            }
        }
        for ts in [0u64, 1, 20, u64::MAX] {
            lists.push(issuer::update_revocation_status_list_timestamp_only(ts, &base));
        }
        for l in lists {
            hop_dbg(&l, "RevocationStatusList", out, "");
            out.count("c15:status-list:boundary-timestamps");
        }
    }
    // presentation requests with every boundary form of their optional parts: intervals with no / one / both bounds (request-wide
    // and local), degenerate restrictions, both versions; what arrives must equal what was sent and mean the same to the model's
    // abstraction
    for i in 0..(if thorough { 600 } else { 60 }) {
        let plan = gen_honest_plan(rng, &eng.cast, i % 2 == 1, i % 3 == 0);
        let mut r = plan.request_json();
        let ivs = [json!({}), json!({"from": null, "to": null}), json!({"from": 5}), json!({"to": 9}), json!({"from": 5, "to": 9}), json!({"from": 0, "to": 0}), Value::Null];
        let restr = [json!({}), json!([]), json!([{}]), json!({"$not": {}}), json!({"$and": []}), json!({"$or": []}), json!({"$or": [{}]}), json!({"$and": [{"$not": {"$or": []}}]}), json!([{"schema_id": null}]), json!([{"schema_id": null, "cred_def_id": "x:y"}]), json!({"schema_name": {"$in": []}}), Value::Null];
        if rng.chance(2, 3) {
            r["non_revoked"] = rng.pick(&ivs).clone();
        }
        for section in ["requested_attributes", "requested_predicates"] {
            if let Some(m) = r[section].as_object_mut() {
                for (_, v) in m.iter_mut() {
                    if rng.chance(1, 2) {
                        v["non_revoked"] = rng.pick(&ivs).clone();
                    }
                    if rng.chance(1, 2) {
                        v["restrictions"] = rng.pick(&restr).clone();
                    }
                }
            }
        }
        match rng.below(3) { 0 => { r["ver"] = json!("1.0"); } 1 => { r["ver"] = json!("2.0"); } _ => {} }
        let Ok(req) = serde_json::from_value::<PresentationRequest>(r.clone()) else { out.count("c15:request:not-a-request"); continue };
        let r2 = hop_eq(&req, "PresentationRequest", out, "");
        if crate::abs::abs_req(&req) != crate::abs::abs_req(&r2) {
            out.oracle_fail("a presentation request means something else after a wire hop", &json!({"fam":"c15.hop","sig":"","type":"PresentationRequest","doc":r}), &json!({"sent": crate::abs::abs_req(&req), "arrived": crate::abs::abs_req(&r2)}));
        }
        out.count("c15:request:boundary-forms");
    }
    // custom codecs against the model (exact): Nonce, revocation list bits, request version, untagged attribute value, legacy aliases
    codec_cases(rng, thorough, &mut cases, out);
    cases
}

fn codec_cases(rng: &mut Rng, thorough: bool, cases: &mut Cases, out: &mut Out) {
    use anoncreds::data_types::nonce::Nonce;
    use anoncreds::data_types::w3c::credential_attributes::CredentialAttributeValue;
    let n = if thorough { 20_000 } else { 1_500 };
    let mut push = |case: Value, imp: Value| cases.push((case, imp));
    // Nonce: string / number / byte-array inputs all print as a decimal string afterwards
    let mut nonce_inputs: Vec<Value> = vec![json!("0"), json!("007"), json!(""), json!("12a"), json!("-1"), json!(" 1"), json!("１２"), json!(0), json!(-1), json!(42), json!(18446744073709551615u64), json!(1.5), json!(true), json!(null),
        json!([]), json!([0]), json!([1, 2]), json!([255, 255, 255]), json!([256]), json!([1, "x"]), json!({"a":1}), json!("340282366920938463463374607431768211455"), json!("99999999999999999999999999999999999999999999999999")];
    for _ in 0..n {
        nonce_inputs.push(match rng.below(4) {
            0 => json!((0..rng.range(1, 30)).map(|_| char::from(b'0' + rng.below(10) as u8)).collect::<String>()),
            1 => json!(rng.next() >> rng.below(64)),
            2 => json!((0..rng.below(12)).map(|_| rng.below(256)).collect::<Vec<u64>>()),
            _ => json!(format!("{}{}", "0".repeat(rng.below(3) as usize), rng.next())),
        });
    }
    for j in nonce_inputs {
        let imp = match serde_json::from_value::<Nonce>(j.clone()) {
            Ok(nc) => {
                let s = serde_json::to_value(&nc).unwrap();
                // oracle: re-reading what was written gives the same document
                if let Ok(n2) = serde_json::from_value::<Nonce>(s.clone()) {
                    if serde_json::to_value(&n2).unwrap() != s {
                        out.oracle_fail("Nonce: ser(de(ser x)) != ser x", &json!({"fam":"c15.codec","sig":"","input":j}), &s);
                    }
                } else {
                    out.oracle_fail("Nonce does not deserialise from its own serialisation", &json!({"fam":"c15.codec","sig":"","input":j}), &s);
                }
                s
            }
            Err(_) => json!({"err": true}),
        };
        push(json!({"op":"codec_nonce","fam":"c15.codec_nonce","j":j,"nt":true}), imp);
    }
    // revocation list bits
    let mut lists: Vec<Value> = vec![json!([]), json!([0]), json!([1, 0, 1]), json!([2]), json!([-1]), json!([0, 1.0]), json!([true]), json!(["1"]), json!("101"), json!(null), json!([0, 0, 4294967296u64])];
    for _ in 0..(n / 5) {
        let len = rng.below(12);
        lists.push(Value::Array((0..len).map(|_| if rng.chance(1, 12) { json!(*rng.pick(&[2i64, -1, 7])) } else { json!(rng.below(2)) }).collect()));
    }
    for l in lists {
        let doc = json!({"revRegDefId": "did:web:x/r", "issuerId": "did:web:x", "revocationList": l, "timestamp": 5});
        let imp = match serde_json::from_value::<RevocationStatusList>(doc) {
            Ok(sl) => serde_json::to_value(&sl).unwrap()["revocationList"].clone(),
            Err(_) => json!({"err": true}),
        };
        push(json!({"op":"codec_revlist","fam":"c15.codec_revlist","j":l,"nt":true}), imp);
    }
    // the whole presentation-request codec (hand-written Deserialize / Serialize + derives) against the model: documents built from
    // member pools that contain every boundary form, then de -> ser, compared as documents
    {
        let ivs = [json!({}), json!({"from": null, "to": null}), json!({"from": 5}), json!({"to": 9}), json!({"from": 0, "to": 0}), json!({"from": 18446744073709551615u64}), json!({"from": -1}), json!({"from": "5"}),
            json!({"from": 5, "extra": 1}), json!([1, 2]), json!([null, null]), json!([1]), json!(null), json!(5), json!("x"), json!({"from": true})];
        let restr = [json!({}), json!([]), json!([{}]), json!({"$not": {}}), json!({"$and": []}), json!({"$or": []}), json!({"$or": [{}]}), json!([{"schema_id": null}]), json!([{"schema_id": null, "cred_def_id": "x:y"}]),
            json!({"schema_name": {"$in": []}}), json!({"cred_def_id": "a:b"}), json!({"attr::name::value": {"$like": "A%"}}), json!({"a": {}}), json!({"a": {"$x": 1}}), json!({"$and": {}}), json!(null), json!(7), json!("s"),
            json!({"$or": [{"schema_id": "x"}, {"$not": {"issuer_did": {"$neq": "y"}}}]}), json!({"x": {"$in": ["a", 1]}})];
        let names = [json!("name"), json!(""), json!(" Na me "), json!(null), json!(5), json!(["a"])];
        let namess = [json!(["a", "b"]), json!([]), json!(null), json!("a"), json!([1]), json!(["a", "a"])];
        let ptypes = [json!(">="), json!("<="), json!(">"), json!("<"), json!("GE"), json!("=="), json!(null), json!(5), json!({">=": null}), json!({">=": 1}), json!([">="])];
        let pvals = [json!(18), json!(0), json!(-5), json!(2147483647), json!(2147483648i64), json!(-2147483648i64), json!(-2147483649i64), json!("18"), json!(null), json!(true), json!(1.5)];
        let nonces = [json!("1"), json!("007"), json!(""), json!("12a"), json!(42), json!([1, 2]), json!(null), json!(-1), json!("99999999999999999999999999")];
        let vers = [json!("1.0"), json!("2.0"), json!("3.0"), json!(null), json!(1), json!("")];
        let n_docs = if thorough { 20_000 } else { 1_200 };
        for i in 0..n_docs {
            let mut doc = serde_json::Map::new();
            // mostly valid members, one or two odd ones per document
            let odd = |rng: &mut Rng| rng.chance(1, 30);
            let pickv = |rng: &mut Rng, pool: &[Value], valid: usize| -> Value { if rng.chance(1, 14) { rng.pick(pool).clone() } else { pool[rng.below(valid as u64) as usize].clone() } };
            if !odd(rng) || rng.chance(1, 2) { doc.insert("nonce".into(), pickv(rng, &nonces, 2)); }
            if !odd(rng) { doc.insert("name".into(), if odd(rng) { json!(5) } else { json!("req") }); }
            if !odd(rng) { doc.insert("version".into(), if odd(rng) { json!(null) } else { json!("0.1") }); }
            if rng.chance(2, 3) { doc.insert("ver".into(), pickv(rng, &vers, 2)); }
            if rng.chance(2, 3) { doc.insert("non_revoked".into(), pickv(rng, &ivs, 5)); }
            if rng.chance(1, 10) { doc.insert("unknown_member".into(), json!({"x": [1, 2]})); }
            let mut attrs = serde_json::Map::new();
            for k in 0..rng.below(4) {
                let mut a = serde_json::Map::new();
                if rng.chance(2, 3) { a.insert("name".into(), pickv(rng, &names, 3)); }
                if rng.chance(1, 3) { a.insert("names".into(), pickv(rng, &namess, 2)); }
                if rng.chance(1, 2) { a.insert("restrictions".into(), pickv(rng, &restr, 13)); }
                if rng.chance(1, 2) { a.insert("non_revoked".into(), pickv(rng, &ivs, 5)); }
                if rng.chance(1, 12) { a.insert("zzz".into(), json!(1)); }
                attrs.insert(format!("a{k}"), if rng.chance(1, 25) { json!(["x", null, null, null]) } else { Value::Object(a) });
            }
            match rng.below(30) { 0 => {} 1 => { doc.insert("requested_attributes".into(), json!(null)); } 2 => { doc.insert("requested_attributes".into(), json!([])); } _ => { doc.insert("requested_attributes".into(), Value::Object(attrs)); } }
            let mut preds = serde_json::Map::new();
            for k in 0..rng.below(3) {
                let mut p = serde_json::Map::new();
                if !odd(rng) { p.insert("name".into(), pickv(rng, &names, 3)); }
                if !odd(rng) { p.insert("p_type".into(), pickv(rng, &ptypes, 4)); }
                if !odd(rng) { p.insert("p_value".into(), pickv(rng, &pvals, 7)); }
                if rng.chance(1, 2) { p.insert("restrictions".into(), pickv(rng, &restr, 13)); }
                if rng.chance(1, 2) { p.insert("non_revoked".into(), pickv(rng, &ivs, 5)); }
                preds.insert(format!("p{k}"), if rng.chance(1, 25) { json!(["age", "<", 5, null, null]) } else { Value::Object(p) });
            }
            if rng.chance(5, 6) { doc.insert("requested_predicates".into(), Value::Object(preds)); }
            let doc = if i % 97 == 96 { json!([doc]) } else { Value::Object(doc) };
            // (a float literal without a fraction such as 1e2 or -0 cannot be written through serde_json::Value, so none is generated)
            let imp = match serde_json::from_value::<PresentationRequest>(doc.clone()) {
                Ok(r) => serde_json::to_value(&r).unwrap(),
                Err(_) => json!({"err": true}),
            };
            push(json!({"op":"codec_req","fam":"c15.codec_req","doc":doc,"nt":true}), imp);
        }
    }
    // presentation request version
    for ver in [Value::Null, json!("1.0"), json!("2.0"), json!("3.0"), json!(""), json!(1), json!("1"), json!("2.00"), json!(null)] {
        for present in [true, false] {
            let mut doc = json!({"nonce":"1","name":"r","version":"1.0","requested_attributes":{"a":{"name":"n"}},"requested_predicates":{}});
            if present {
                doc["ver"] = ver.clone();
            }
            let imp = match serde_json::from_value::<PresentationRequest>(doc) {
                Ok(r) => serde_json::to_value(&r).unwrap()["ver"].clone(),
                Err(_) => json!({"err": true}),
            };
            push(json!({"op":"codec_ver","fam":"c15.codec_ver","present":present,"ver":ver,"nt":true}), imp);
        }
    }
    // untagged credential attribute value
    let mut vals: Vec<Value> = vec![json!("x"), json!(""), json!("25"), json!(25), json!(-2147483648i64), json!(2147483647), json!(2147483648i64), json!(-2147483649i64), json!(1.0), json!(1.5), json!(true), json!(false), json!(null), json!([1]), json!({"a":1}), json!(1e3), json!(18446744073709551615u64)];
    for _ in 0..(n / 5) {
        vals.push(match rng.below(3) {
            0 => json!(rng.range(-3_000_000_000, 3_000_000_000)),
            1 => json!(format!("{}", rng.next())),
            _ => json!(rng.chance(1, 2)),
        });
    }
    for v in vals {
        let imp = match serde_json::from_value::<CredentialAttributeValue>(v.clone()) {
            Ok(x) => json!({"kind": match x { CredentialAttributeValue::String(_) => "str", CredentialAttributeValue::Number(_) => "num", CredentialAttributeValue::Bool(_) => "bool" }, "out": serde_json::to_value(&x).unwrap()}),
            Err(_) => json!({"err": true}),
        };
        push(json!({"op":"codec_attrvalue","fam":"c15.codec_attrvalue","j":v,"nt":true}), imp);
    }
}

// ---------------------------------------------------------------------------------------------
// C07: scan of serialised presentations for anything the holder did not choose to reveal

fn decoded_texts(pres_json: &Value) -> Vec<String> {
    // the JSON text itself plus every base64url-msgpack proof value decoded to JSON text
    let mut texts = vec![pres_json.to_string()];
    fn walk(v: &Value, acc: &mut Vec<String>) {
        match v {
            Value::String(s) if s.starts_with('u') && s.len() > 40 => {
                if let Some(bytes) = b64url(&s[1..]) {
                    if let Ok(val) = rmp_to_value(&bytes) {
                        acc.push(val.to_string());
                    }
                }
            }
            Value::Array(a) => a.iter().for_each(|x| walk(x, acc)),
            Value::Object(o) => o.values().for_each(|x| walk(x, acc)),
            _ => {}
        }
    }
    walk(pres_json, &mut texts);
    texts
}

fn b64url(s: &str) -> Option<Vec<u8>> {
    let mut out = vec![];
    let mut buf = 0u32;
    let mut bits = 0;
    for c in s.bytes() {
        let v = match c {
            b'A'..=b'Z' => c - b'A',
            b'a'..=b'z' => c - b'a' + 26,
            b'0'..=b'9' => c - b'0' + 52,
            b'-' => 62,
            b'_' => 63,
            _ => return None,
        } as u32;
        buf = (buf << 6) | v;
        bits += 6;
        if bits >= 8 {
            bits -= 8;
            out.push((buf >> bits) as u8);
            buf &= (1 << bits) - 1;
        }
    }
    Some(out)
}

/// minimal MessagePack -> serde_json::Value (maps become JSON objects, i.e. key order is canonical)
fn rmp_to_value(b: &[u8]) -> Result<Value, ()> {
    fn rd(b: &[u8], i: &mut usize) -> Result<Value, ()> {
        let t = *b.get(*i).ok_or(())?;
        *i += 1;
        let take = |i: &mut usize, n: usize| -> Result<&[u8], ()> { let s = b.get(*i..*i + n).ok_or(())?; *i += n; Ok(s) };
        let be = |s: &[u8]| s.iter().fold(0u64, |a, x| (a << 8) | *x as u64);
        Ok(match t {
            0x00..=0x7f => json!(t),
            0xe0..=0xff => json!(t as i8),
            0x80..=0x8f | 0xde | 0xdf => {
                let n = match t { 0xde => be(take(i, 2)?) as usize, 0xdf => be(take(i, 4)?) as usize, _ => (t & 0x0f) as usize };
                let mut m = serde_json::Map::new();
                for _ in 0..n {
                    let k = rd(b, i)?;
                    let v = rd(b, i)?;
                    m.insert(k.as_str().map(|s| s.to_string()).unwrap_or_else(|| k.to_string()), v);
                }
                Value::Object(m)
            }
            0x90..=0x9f | 0xdc | 0xdd => {
                let n = match t { 0xdc => be(take(i, 2)?) as usize, 0xdd => be(take(i, 4)?) as usize, _ => (t & 0x0f) as usize };
                let mut a = vec![];
                for _ in 0..n { a.push(rd(b, i)?); }
                Value::Array(a)
            }
            0xa0..=0xbf | 0xd9 | 0xda | 0xdb => {
                let n = match t { 0xd9 => be(take(i, 1)?) as usize, 0xda => be(take(i, 2)?) as usize, 0xdb => be(take(i, 4)?) as usize, _ => (t & 0x1f) as usize };
                json!(String::from_utf8_lossy(take(i, n)?))
            }
            0xc0 => Value::Null,
            0xc2 => json!(false),
            0xc3 => json!(true),
            0xc4 | 0xc5 | 0xc6 => { let n = match t { 0xc4 => be(take(i, 1)?), 0xc5 => be(take(i, 2)?), _ => be(take(i, 4)?) } as usize; let s = take(i, n)?; json!(format!("bin:{}", s.iter().map(|x| format!("{x:02x}")).collect::<String>())) }
            0xcc => json!(be(take(i, 1)?)),
            0xcd => json!(be(take(i, 2)?)),
            0xce => json!(be(take(i, 4)?)),
            0xcf => json!(be(take(i, 8)?)),
            0xd0 => json!(be(take(i, 1)?) as i8),
            0xd1 => json!(be(take(i, 2)?) as i16),
            0xd2 => json!(be(take(i, 4)?) as i32),
            0xd3 => json!(be(take(i, 8)?) as i64),
            0xca => { take(i, 4)?; json!("f32") }
            0xcb => { take(i, 8)?; json!("f64") }
            _ => return Err(()),
        })
    }
    let mut i = 0;
    rd(b, &mut i)
}

/// canonical form of a document: JSON value with every base64url-msgpack envelope replaced by its decoded content
pub fn canonical_doc(v: &Value) -> Value {
    match v {
        Value::String(s) if s.starts_with('u') && s.len() > 40 => match b64url(&s[1..]).and_then(|b| rmp_to_value(&b).ok()) {
            Some(inner) => json!({"__envelope__": canonical_doc(&inner)}),
            None => v.clone(),
        },
        Value::Array(a) => Value::Array(a.iter().map(canonical_doc).collect()),
        Value::Object(o) => Value::Object(o.iter().map(|(k, x)| (k.clone(), canonical_doc(x))).collect()),
        _ => v.clone(),
    }
}

/// strings of a JSON value that are long enough to be searched for (numbers of a signature, witness, ...)
fn secret_strings(v: &Value, acc: &mut Vec<String>) {
    match v {
        Value::String(s) if s.len() >= 12 => acc.push(s.clone()),
        Value::Array(a) => a.iter().for_each(|x| secret_strings(x, acc)),
        Value::Object(o) => o.values().for_each(|x| secret_strings(x, acc)),
        _ => {}
    }
}

/// does `text` contain `needle` as a value? A needle made of digits only must not be part of a longer run of digits (the proofs hold
/// thousands of random digits: an eight-digit number occurs inside them by chance once in a few thousand presentations)
fn contains_value(text: &str, needle: &str) -> bool {
    if needle.is_empty() {
        return false;
    }
    if !needle.bytes().all(|b| b.is_ascii_digit()) {
        return text.contains(needle);
    }
    let tb = text.as_bytes();
    let mut from = 0;
    while let Some(i) = text[from..].find(needle) {
        let (a, b) = (from + i, from + i + needle.len());
        let before = a > 0 && tb[a - 1].is_ascii_digit();
        let after = b < tb.len() && tb[b].is_ascii_digit();
        if !before && !after {
            return true;
        }
        from = a + 1;
    }
    false
}

pub fn c07(eng: &mut Engine, rng: &mut Rng, thorough: bool, out: &mut Out) -> Cases {
    let mut cases = vec![];
    let n = if thorough { 1500 } else { 80 };
    // long sentinel values so that a hit cannot be a coincidence (the cast's own values are short)
    let sentinel = |name: &str| format!("SENTINEL-{name}-7f3a9c");
    let w = eng.cast.w.clone();
    let d = w.def("A");
    let ls_dec: String = eng.cast.holders[0].try_clone().unwrap().try_into().unwrap();
    let vals: Vec<(String, String)> = vec![("name".into(), sentinel("name")), ("age".into(), "48151623".into()), ("sex".into(), sentinel("sex")), ("height".into(), "31415926".into())];
    let cred = crate::world::issue_plain(d, &eng.cast.holders[0], &vals).unwrap();
    let w3cred = anoncreds::w3c::credential_conversion::credential_to_w3c(&cred, &d.issuer, None).unwrap();
    let mut sig_strings = vec![];
    secret_strings(&serde_json::to_value(&cred.signature).unwrap(), &mut sig_strings);
    let schemas = w.schemas();
    let cred_defs = w.cred_defs();
    for i in 0..n {
        let w3c_form = i % 2 == 1;
        // random selection over the four attributes: revealed single / unrevealed single / in a group (revealed or not) / predicate / not requested
        let mut attrs = serde_json::Map::new();
        let mut preds = serde_json::Map::new();
        let mut revealed_names: Vec<String> = vec![];
        let mut sel: Vec<(String, bool, bool)> = vec![]; // referent, is_pred, reveal
        let mut group: Vec<String> = vec![];
        for (k, (name, raw)) in vals.iter().enumerate() {
            match rng.below(6) {
                0 => { attrs.insert(format!("r{k}"), json!({"name": variant(rng, name)})); sel.push((format!("r{k}"), false, true)); revealed_names.push(name.clone()); }
                1 => { attrs.insert(format!("r{k}"), json!({"name": variant(rng, name)})); sel.push((format!("r{k}"), false, false)); }
                2 => group.push(name.clone()),
                3 if raw.parse::<i32>().is_ok() => { preds.insert(format!("p{k}"), json!({"name": name, "p_type": ">=", "p_value": 5})); sel.push((format!("p{k}"), true, false)); }
                _ => {}
            }
        }
        // names the CL layer itself uses (the link secret is the hidden attribute `master_secret`): asked for like any attribute, inside
        // a group or alone, revealed or not — the prover must refuse or hide, never open it
        if rng.chance(1, 6) {
            let reserved = *rng.pick(&["master_secret", "Master_Secret ", "MASTER_SECRET", "master secret"]);
            if !group.is_empty() && rng.chance(1, 2) {
                group.push(reserved.to_string());
            } else {
                attrs.insert("rs".into(), json!({"name": reserved}));
                sel.push(("rs".into(), false, rng.chance(1, 2)));
            }
        }
        if !group.is_empty() {
            let reveal = rng.chance(1, 2);
            attrs.insert("g".into(), json!({"names": group}));
            sel.push(("g".into(), false, reveal));
            if reveal {
                revealed_names.extend(group.iter().cloned());
            }
        }
        if sel.is_empty() {
            continue;
        }
        // request features that have nothing to do with disclosure must not change it: non-revocation intervals (the definition is
        // not revocable: they are void) and restrictions on any referent, a request-wide interval, a second predicate on an attribute
        for m in [&mut attrs, &mut preds] {
            for (_, v) in m.iter_mut() {
                if rng.chance(1, 3) {
                    v["non_revoked"] = match rng.below(3) { 0 => json!({"from": 5, "to": 50}), 1 => json!({"to": 20}), _ => json!({"from": 7}) };
                }
                if rng.chance(1, 4) {
                    v["restrictions"] = match rng.below(3) { 0 => json!({"schema_name": "gvt"}), 1 => json!([{"cred_def_id": d.cid.0}, {"issuer_id": "did:web:nobody"}]), _ => json!({"$not": {"schema_version": "9.9"}}) };
                }
            }
        }
        if let Some((k, _)) = sel.iter().find(|(_, is_pred, _)| *is_pred).cloned().map(|(r, _, _)| (r, ())) {
            if rng.chance(1, 2) {
                let mut second = preds[k.as_str()].clone();
                second["p_type"] = json!("<=");
                second["p_value"] = json!(99_999_999);
                preds.insert(format!("{k}b"), second);
                sel.push((format!("{k}b"), true, false));
            }
        }
        let mut reqj = json!({"nonce": format!("{}", 1000 + rng.below(1_000_000_000)), "name":"r","version":"1.0","requested_attributes": attrs, "requested_predicates": preds});
        if rng.chance(1, 4) {
            reqj["non_revoked"] = json!({"from": 1, "to": 100});
        }
        let req: PresentationRequest = serde_json::from_value(reqj).unwrap();
        let pres_json: Option<Value> = if w3c_form {
            let mut pc = PresentCredentials::default();
            {
                let mut x = pc.add_credential(&w3cred, None, None);
                for (r, is_pred, reveal) in &sel {
                    if *is_pred { x.add_requested_predicate(r.clone()) } else { x.add_requested_attribute(r.clone(), *reveal) }
                }
            }
            w3c::prover::create_presentation(&req, pc, &eng.cast.holders[0], &schemas, &cred_defs, None).ok().map(|p| serde_json::to_value(&p).unwrap())
        } else {
            let mut pc = PresentCredentials::default();
            {
                let mut x = pc.add_credential(&cred, None, None);
                for (r, is_pred, reveal) in &sel {
                    if *is_pred { x.add_requested_predicate(r.clone()) } else { x.add_requested_attribute(r.clone(), *reveal) }
                }
            }
            prover::create_presentation(&req, pc, None, &eng.cast.holders[0], &schemas, &cred_defs).ok().map(|p| serde_json::to_value(&p).unwrap())
        };
        let Some(pj) = pres_json else { out.count("c07:prover-refused"); continue };
        let texts = decoded_texts(&pj);
        out.count(&format!("c07:scanned:{}", if w3c_form { "w3c" } else { "legacy" }));
        out.oracle_only += 1;
        let case = json!({"fam":"c07.scan","sig":"","format": if w3c_form {"w3c"} else {"legacy"}, "selection": sel.iter().map(|(r, p, v)| json!([r, p, v])).collect::<Vec<_>>(), "request": serde_json::to_value(&req).unwrap()});
        for (name, raw) in &vals {
            let enc = cred.values.0[name].encoded.clone();
            let shown = revealed_names.contains(name);
            for t in &texts {
                let hit_raw = contains_value(t, raw.as_str());
                let hit_enc = enc != *raw && contains_value(t, enc.as_str());
                if !shown && (hit_raw || hit_enc) {
                    out.oracle_fail("value of an attribute the holder did not reveal appears in the presentation", &case, &json!({"attribute": name, "raw": hit_raw, "encoded": hit_enc}));
                }
            }
            if shown && !texts.iter().any(|t| contains_value(t, raw.as_str()) || contains_value(t, enc.as_str())) {
                out.oracle_fail("revealed attribute value is missing from the presentation", &case, &json!({"attribute": name}));
            }
        }
        for t in &texts {
            if t.contains(ls_dec.as_str()) {
                out.oracle_fail("link secret appears in the presentation", &case, &Value::Null);
            }
            if let Some(s) = sig_strings.iter().find(|s| t.contains(s.as_str())) {
                out.oracle_fail("a number of the credential signature appears in the presentation", &case, &json!({"number": s}));
            }
        }
    }
    // with revocation: the witness must not appear either
    {
        let ci = eng.cast.cred("r1_alice");
        if let Some(st) = eng.cast.rev_state(ci, 0) {
            let mut wit = vec![];
            secret_strings(&serde_json::to_value(&st).unwrap()["witness"], &mut wit);
            let mut cw = vec![];
            secret_strings(&serde_json::to_value(&eng.cast.creds[ci].cred).unwrap()["witness"], &mut cw);
            wit.extend(cw);
            for w3c_form in [false, true] {
                let plan = Plan { creds: vec![CredUse { held: ci, state_list: Some(0), ts_only: None }],
                    refs: vec![RefPlan { referent: "a".into(), kind: Kind::Single("name".into()), cred: Some(0), revealed: true, restrictions: None, non_revoked: None }],
                    global_nr: Some(json!({"from": 0, "to": 100})), nonce: "4242".into(), holder: 0 };
                let pj = if w3c_form { eng.build_w3c(&plan).ok().map(|b| serde_json::to_value(&b.pres).unwrap()) } else { eng.build_legacy(&plan).ok().map(|b| b.pres) };
                if let Some(pj) = pj {
                    out.count("c07:scanned:revocation");
                    for t in decoded_texts(&pj) {
                        if let Some(s) = wit.iter().find(|s| t.contains(s.as_str())) {
                            out.oracle_fail("the holder's revocation witness appears in the presentation", &json!({"fam":"c07.scan","sig":"","format": if w3c_form {"w3c"} else {"legacy"}}), &json!({"number": s}));
                        }
                    }
                }
            }
        }
    }
    let _ = &mut cases;
    cases
}

// ---------------------------------------------------------------------------------------------
// C14: legacy <-> W3C conversion

fn values_json(v: &anoncreds::data_types::credential::CredentialValues) -> Value {
    let mut a: Vec<Value> = v.0.iter().map(|(k, x)| json!([k, x.raw, x.encoded])).collect();
    a.sort_by(|x, y| x[0].as_str().cmp(&y[0].as_str()));
    Value::Array(a)
}
fn subject_json(s: &anoncreds::data_types::w3c::credential_attributes::CredentialSubject) -> Value {
    use anoncreds::data_types::w3c::credential_attributes::CredentialAttributeValue as V;
    let mut a: Vec<Value> = s.0.iter().map(|(k, v)| json!([k, match v { V::String(s) => json!(s), V::Number(n) => json!(n), V::Bool(b) => json!(b) }])).collect();
    a.sort_by(|x, y| x[0].as_str().cmp(&y[0].as_str()));
    Value::Array(a)
}

pub fn c14(eng: &mut Engine, rng: &mut Rng, thorough: bool, out: &mut Out) -> Cases {
    use anoncreds::data_types::w3c::VerifiableCredentialSpecVersion as Ver;
    use anoncreds::w3c::credential_conversion::{credential_from_w3c, credential_to_w3c};
    let mut cases = vec![];
    let w = eng.cast.w.clone();
    // value sets: numeric, padded numeric, signed, boundary, text, unicode
    let pools: Vec<Vec<&str>> = vec![
        vec!["Alice", "25", "F", "170"],
        vec!["007", "+5", "-0", "0"],
        vec!["2147483647", "-2147483648", "2147483648", "-2147483649"],
        vec!["Алиса", "١٢", "", " 1"],
        vec!["00", "-007", "1e3", "😀"],
    ];
    let rounds = if thorough { 40 } else { 2 };
    for round in 0..rounds {
        for (pi, pool) in pools.iter().enumerate() {
            for key in ["A", "R"] {
                let d = w.def(key);
                let names = d.schema.attr_names.0.clone();
                let mut vals: Vec<(String, String)> = names.iter().enumerate().map(|(i, n)| (n.clone(), pool[(i + round) % pool.len()].to_string())).collect();
                if round > 0 {
                    // random extra variety
                    let k = rng.below(vals.len() as u64) as usize;
                    vals[k].1 = format!("{}{}", *rng.pick(&["", "0", "+", "-", "00"]), rng.below(5_000_000_000));
                }
                let cred = if key == "R" && (pi + round) % 2 == 0 {
                    let reg = &d.regs[0];
                    let l0 = issuer::create_revocation_status_list(&d.cd, reg.rid.clone(), &reg.def, &reg.def_priv, true, Some(10)).unwrap();
                    crate::world::issue_rev(d, reg, &l0, 1 + rng.below(4) as u32, &eng.cast.holders[0], &vals)
                } else {
                    crate::world::issue_plain(d, &eng.cast.holders[0], &vals)
                };
                let Ok(cred) = cred else { out.count("c14:issue-failed"); continue };
                let version = if (pi + round) % 2 == 0 { Ver::V1_1 } else { Ver::V2_0 };
                let cj = serde_json::to_value(&cred).unwrap();
                let meta = json!({"schema_id": cj["schema_id"], "cred_def_id": cj["cred_def_id"], "rev_reg_id": cj["rev_reg_id"], "has_witness": !cj["witness"].is_null(), "has_rev_reg": !cj["rev_reg"].is_null()});
                let case = json!({"op":"convert","fam":"c14.convert","meta":meta,"values":values_json(&cred.values),"nt":true});
                let imp = match credential_to_w3c(&cred, &d.issuer, Some(version.clone())) {
                    Err(_) => json!({"err": true}),
                    Ok(wc) => {
                        let back = credential_from_w3c(&wc);
                        // oracles (C14): identifiers, signature material, revocation data and encoded values survive the round trip
                        if let Ok(b) = &back {
                            let bj = serde_json::to_value(b).unwrap();
                            for f in ["schema_id", "cred_def_id", "rev_reg_id", "signature", "signature_correctness_proof", "rev_reg", "witness"] {
                                if bj[f] != cj[f] {
                                    out.oracle_fail("conversion legacy -> W3C -> legacy changed a field it must preserve", &json!({"fam":"c14.convert","sig":"","field":f,"values":values_json(&cred.values)}), &Value::Null);
                                }
                            }
                            for (n, v) in cred.values.0.iter() {
                                if b.values.0.get(n).map(|x| &x.encoded) != Some(&v.encoded) {
                                    out.oracle_fail("conversion legacy -> W3C -> legacy changed an attribute's encoded value", &json!({"fam":"c14.convert","sig":"","attribute":n,"raw":v.raw,"encoded":v.encoded}), &json!(b.values.0.get(n).map(|x| x.encoded.clone())));
                                }
                            }
                            // the W3C form as the document a holder stores: the three spellings of the same proof set
                            // (array of one as emitted, single object, AnonCreds proof beside a foreign one) convert back alike
                            let doc = serde_json::to_value(&wc).unwrap();
                            let anon = match &doc["proof"] { Value::Array(a) => a.first().cloned().unwrap_or(Value::Null), o => o.clone() };
                            let foreign = json!({"type": "Ed25519Signature2020", "proofPurpose": "assertionMethod", "verificationMethod": "did:x:1#k", "proofValue": "z58"});
                            for (spelling, proof) in [("as-emitted", doc["proof"].clone()), ("array-of-one", json!([anon])), ("single-object", anon.clone()), ("beside-foreign", json!([foreign, anon]))] {
                                let mut dj = doc.clone();
                                dj["proof"] = proof;
                                let parsed: std::result::Result<W3CCredential, _> = serde_json::from_str(&dj.to_string());
                                let ok = parsed.as_ref().ok().and_then(|p| credential_from_w3c(p).ok()).map(|l| strip_excess(&serde_json::to_value(&l).unwrap()));
                                let bj = strip_excess(&bj);
                                if ok.as_ref() != Some(&bj) {
                                    out.oracle_fail("a W3C credential read from its document did not convert back to the same legacy credential", &json!({"fam":"c14.convert","sig":"","spelling":spelling,"values":values_json(&cred.values)}), &json!({"parsed": parsed.is_ok(), "converted": ok.is_some(), "differs": ok.as_ref().map(|o| bj.as_object().unwrap().keys().filter(|k| o[k.as_str()] != bj[k.as_str()]).map(|k| json!([k, o[k.as_str()], bj[k.as_str()]])).collect::<Vec<_>>())}));
                                }
                                out.count(&format!("c14:document-spelling:{spelling}"));
                            }
                            // W3C -> legacy -> W3C
                            if let Ok(w2) = credential_to_w3c(b, &d.issuer, Some(version.clone())) {
                                if subject_json(&w2.credential_subject) != subject_json(&wc.credential_subject) || serde_json::to_value(w2.get_credential_signature_proof().unwrap()).unwrap() != serde_json::to_value(wc.get_credential_signature_proof().unwrap()).unwrap() {
                                    out.oracle_fail("conversion W3C -> legacy -> W3C changed subject or signature proof", &json!({"fam":"c14.convert","sig":"","values":values_json(&cred.values)}), &Value::Null);
                                }
                            }
                        } else {
                            out.oracle_fail("a converted credential could not be converted back", &json!({"fam":"c14.convert","sig":"","values":values_json(&cred.values)}), &Value::Null);
                        }
                        json!({"subject": subject_json(&wc.credential_subject), "back": back.map(|b| values_json(&b.values)).unwrap_or(json!({"err": true}))})
                    }
                };
                cases.push((case, imp));
            }
        }
    }
    // W3C side: subjects with strings that look like numbers, numbers, and a boolean (not a credential)
    {
        use anoncreds::data_types::w3c::credential_attributes::{CredentialAttributeValue as V, CredentialSubject};
        let base = eng.cast.creds[eng.cast.cred("a_alice")].w3c.clone();
        let variants: Vec<(&str, Vec<(&str, V)>)> = vec![
            ("plain", vec![("name", V::String("Alice".into())), ("age", V::Number(25))]),
            ("number-as-string", vec![("name", V::String("007".into())), ("age", V::String("25".into()))]),
            ("boundaries", vec![("name", V::Number(i32::MIN)), ("age", V::String("2147483648".into()))]),
            ("boolean", vec![("name", V::String("x".into())), ("age", V::Bool(true))]),
            ("empty-string", vec![("name", V::String("".into())), ("age", V::Number(0))]),
        ];
        for (cls, entries) in variants {
            let mut wc = base.clone();
            wc.credential_subject = CredentialSubject(entries.iter().map(|(k, v)| (k.to_string(), v.clone())).collect());
            let meta = json!({"context_ok": true, "has_type": true, "v11": true, "has_issuance_date": true, "signature_proof_ok": true});
            let imp = match credential_from_w3c(&wc) {
                Err(_) => json!({"err": true}),
                Ok(c) => {
                    let again = credential_to_w3c(&c, &wc.issuer, None).map(|x| subject_json(&x.credential_subject)).unwrap_or(json!({"err": true}));
                    json!({"legacy": values_json(&c.values), "again": again})
                }
            };
            cases.push((json!({"op":"convert_w3c","fam":"c14.convert_w3c","cls":cls,"meta":meta,"subject":subject_json(&wc.credential_subject),"nt":true}), imp));
        }
        // non-credentials are refused (each validate clause)
        let good = serde_json::to_value(&base).unwrap();
        let subject = subject_json(&base.credential_subject);
        let mk = |f: &dyn Fn(&mut Value)| -> Option<W3CCredential> { let mut j = good.clone(); f(&mut j); serde_json::from_value(j).ok() };
        let bad: Vec<(&str, Option<W3CCredential>, Value)> = vec![
            ("missing-anoncreds-context", mk(&|j| { j["@context"] = json!(["https://www.w3.org/2018/credentials/v1"]); }), json!({"context_ok": false, "has_type": true, "v11": true, "has_issuance_date": true, "signature_proof_ok": true})),
            ("missing-w3c-type", mk(&|j| { j["type"] = json!(["AnonCredsCredential"]); }), json!({"context_ok": true, "has_type": false, "v11": true, "has_issuance_date": true, "signature_proof_ok": true})),
            ("v11-without-issuance-date", mk(&|j| { j.as_object_mut().unwrap().remove("issuanceDate"); }), json!({"context_ok": true, "has_type": true, "v11": true, "has_issuance_date": false, "signature_proof_ok": true})),
        ];
        for (cls, wc, meta) in bad {
            let Some(wc) = wc else { out.count(&format!("c14:undeserialisable:{cls}")); continue };
            let r = credential_from_w3c(&wc);
            if r.is_ok() {
                out.oracle_fail("a document that is not a well-formed AnonCreds credential was converted", &json!({"fam":"c14.refuse","sig":"","cls":cls}), &Value::Null);
            }
            cases.push((json!({"op":"convert_w3c","fam":"c14.refuse","cls":cls,"meta":meta,"subject":subject,"nt":true}), if r.is_ok() { json!({"accepted": true}) } else { json!({"err": true}) }));
        }
        // a presentation's credential (presentation proof instead of signature proof) is not a credential
        let plan = crate::scen::gen_honest_plan(rng, &eng.cast, true, false);
        if let Ok(b) = eng.build_w3c(&plan) {
            let vc = &b.pres.verifiable_credential[0];
            let r = credential_from_w3c(vc);
            if r.is_ok() {
                out.oracle_fail("a credential carrying a presentation proof was converted to a legacy credential", &json!({"fam":"c14.refuse","sig":"","cls":"presentation-proof"}), &Value::Null);
            }
            let has_date = serde_json::to_value(vc).unwrap().get("issuanceDate").is_some();
            cases.push((json!({"op":"convert_w3c","fam":"c14.refuse","cls":"presentation-proof","meta":{"context_ok": true, "has_type": true, "v11": true, "has_issuance_date": has_date, "signature_proof_ok": false},"subject":subject_json(&vc.credential_subject),"nt":true}), if r.is_ok() { json!({"accepted": true}) } else { json!({"err": true}) }));
        }
        // legacy side refusals: registry id without witness, empty values
        let lc = serde_json::to_value(&eng.cast.creds[eng.cast.cred("r1_alice")].cred).unwrap();
        for (cls, f) in [("regid-without-witness", Box::new(|j: &mut Value| { j["witness"] = Value::Null; }) as Box<dyn Fn(&mut Value)>), ("empty-values", Box::new(|j: &mut Value| { j["values"] = json!({}); })), ("invalid-schema-id", Box::new(|j: &mut Value| { j["schema_id"] = json!("not an id"); })),
            ("invalid-cred-def-id", Box::new(|j: &mut Value| { j["cred_def_id"] = json!("not an id"); })), ("invalid-rev-reg-id", Box::new(|j: &mut Value| { j["rev_reg_id"] = json!("not an id"); })),
            ("regid-without-rev-reg", Box::new(|j: &mut Value| { j["rev_reg"] = Value::Null; })), ("regid-without-both", Box::new(|j: &mut Value| { j["rev_reg"] = Value::Null; j["witness"] = Value::Null; }))] {
            let mut j = lc.clone();
            f(&mut j);
            if let Ok(c) = serde_json::from_value::<Credential>(j.clone()) {
                let r = credential_to_w3c(&c, &w.def("R").issuer, None);
                if r.is_ok() {
                    out.oracle_fail("a malformed legacy credential was converted", &json!({"fam":"c14.refuse","sig":"","cls":cls}), &Value::Null);
                }
                let meta = json!({"schema_id": j["schema_id"], "cred_def_id": j["cred_def_id"], "rev_reg_id": j["rev_reg_id"], "has_witness": !j["witness"].is_null(), "has_rev_reg": !j["rev_reg"].is_null()});
                cases.push((json!({"op":"convert","fam":"c14.refuse","cls":cls,"meta":meta,"values":values_json(&c.values),"nt":true}), if r.is_ok() { json!({"accepted": true}) } else { json!({"err": true}) }));
            }
        }
    }
    // the envelope of the stored document (op w3c_envelope, model Envelope): which `@context` / `type` / `issuanceDate` make a well-formed document
    {
        let cred_base = serde_json::to_value(&eng.cast.creds[eng.cast.cred("a_alice")].w3c).unwrap();
        let plan = crate::scen::gen_honest_plan(rng, &eng.cast, true, false);
        let o = honest_vopts(&eng.cast, &plan);
        let built = eng.build_w3c(&plan).ok();
        let other_uris = ["https://www.w3.org/2018/credentials/v1/", "http://www.w3.org/2018/credentials/v1", "https://www.w3.org/2018/credentials/V1", "https://www.w3.org/ns/credentials/v2#",
            "https://w3id.org/security/data-integrity/v1", "https://example.org/ctx", "did:example:ctx", "https://www.w3.org/ns/credentials/v1"];
        let other_objs = [json!({"@vocab": "https://www.w3.org/ns/credentials/issuer-dependent"}), json!({"@vocab": "https://www.w3.org/ns/credentials/issuer-dependent#", "x": 1}), json!({}), json!("not a uri"), json!(7), Value::Null,
            json!(["https://www.w3.org/2018/credentials/v1"]), json!(true), json!(" https://www.w3.org/2018/credentials/v1")];
        let conc_ctx = |a: &Value| -> Value {
            if let Some(u) = a.get("uri") {
                match u.as_str() { Some("v11") => json!("https://www.w3.org/2018/credentials/v1"), Some("v20") => json!("https://www.w3.org/ns/credentials/v2"), Some("di") => json!("https://w3id.org/security/data-integrity/v2"),
                    _ => json!(other_uris[u.as_u64().unwrap() as usize]) }
            } else {
                let k = a["obj"].as_u64().unwrap() as usize;
                if k == 0 { json!({"@vocab": "https://www.w3.org/ns/credentials/issuer-dependent#"}) } else { other_objs[k - 1].clone() }
            }
        };
        let rand_ctx = |rng: &mut Rng| -> Value {
            match rng.below(10) { 0 | 1 => json!({"uri": "v11"}), 2 | 3 => json!({"uri": "v20"}), 4 | 5 => json!({"uri": "di"}), 6 | 7 => json!({"obj": 0}),
                8 => json!({"uri": rng.below(other_uris.len() as u64)}), _ => json!({"obj": 1 + rng.below(other_objs.len() as u64)}) }
        };
        let type_pool = ["VerifiableCredential", "VerifiablePresentation", "AnonCredsCredential", "verifiablecredential", "VerifiableCredential ", ""];
        let mut envs: Vec<(String, Vec<Value>, Vec<String>, bool, bool)> = vec![];   // (class, contexts, types, issuanceDate present, presentation?)
        let (v11, v20, di, voc) = (json!({"uri":"v11"}), json!({"uri":"v20"}), json!({"uri":"di"}), json!({"obj":0}));
        for pres in [false, true] {
            let ty = if pres { "VerifiablePresentation" } else { "VerifiableCredential" };
            // the two library forms, every permutation of the 1.1 form, each member dropped, each member replaced by every near miss
            let forms: Vec<Vec<Value>> = vec![vec![v11.clone(), di.clone(), voc.clone()], vec![v20.clone(), voc.clone()], vec![v11.clone(), voc.clone(), di.clone()], vec![di.clone(), v11.clone(), voc.clone()],
                vec![voc.clone(), v11.clone(), di.clone()], vec![voc.clone(), v20.clone()], vec![v20.clone(), di.clone(), voc.clone()], vec![v11.clone(), v20.clone(), voc.clone()], vec![v20.clone(), v11.clone(), voc.clone()], vec![]];
            for f in &forms { for date in [true, false] { envs.push(("form".into(), f.clone(), vec![ty.into()], date, pres)); } }
            for base in [&forms[0], &forms[1]] {
                for i in 0..base.len() {
                    let mut f = base.clone(); f.remove(i);
                    envs.push(("member-dropped".into(), f, vec![ty.into()], true, pres));
                    for k in 0..other_uris.len() { let mut f = base.clone(); f[i] = json!({"uri": k}); envs.push(("member-near-miss".into(), f, vec![ty.into()], true, pres)); }
                    for k in 0..other_objs.len() { let mut f = base.clone(); f[i] = json!({"obj": k + 1}); envs.push(("member-near-miss".into(), f, vec![ty.into()], true, pres)); }
                }
                for t in type_pool { envs.push(("type".into(), base.clone(), vec![t.to_string()], true, pres)); }
                envs.push(("type".into(), base.clone(), vec![], true, pres));
                envs.push(("type".into(), base.clone(), vec!["X".into(), ty.into(), ty.into()], true, pres));
            }
            for _ in 0..(if thorough { 1500 } else { 150 }) {
                // mostly-valid stream: a library form with its tail shuffled and up to two random entries inserted anywhere; one in three from scratch
                let (f, cls): (Vec<Value>, &str) = if rng.chance(1, 3) {
                    ((0..rng.below(6)).map(|_| rand_ctx(rng)).collect(), "random-scratch")
                } else {
                    let mut f = forms[rng.below(2) as usize].clone();
                    if f.len() == 3 && rng.chance(1, 2) { f.swap(1, 2); }
                    for _ in 0..rng.below(3) { let at = rng.below(f.len() as u64 + 1) as usize; let e = rand_ctx(rng); f.insert(at, e); }
                    (f, "random-edited")
                };
                let mut ts: Vec<String> = (0..rng.below(3)).map(|_| type_pool[rng.below(type_pool.len() as u64) as usize].to_string()).collect();
                if rng.chance(3, 4) { let at = rng.below(ts.len() as u64 + 1) as usize; ts.insert(at, ty.to_string()); }
                envs.push((cls.into(), f, ts, rng.chance(3, 4), pres));
            }
        }
        for (cls, ctx, types, date, pres) in envs {
            let conc: Vec<Value> = ctx.iter().map(|a| conc_ctx(a)).collect();
            let imp = if !pres {
                let mut d = cred_base.clone();
                d["@context"] = json!(conc); d["type"] = json!(types);
                if !date { d.as_object_mut().unwrap().remove("issuanceDate"); }
                match serde_json::from_str::<W3CCredential>(&d.to_string()) {
                    Err(_) => json!({"unreadable": true}),
                    Ok(c) => json!({"valid": credential_from_w3c(&c).is_ok(), "version": c.context.version().ok().map(|v| match v { Ver::V1_1 => "1.1", Ver::V2_0 => "2.0" })}),
                }
            } else {
                let Some(b) = &built else { continue };
                let mut d = serde_json::to_value(&b.pres).unwrap();
                d["@context"] = json!(conc); d["type"] = json!(types);
                match serde_json::from_str::<W3CPresentation>(&d.to_string()) {
                    Err(_) => json!({"unreadable": true}),
                    Ok(p) => {
                        let (v, _) = eng.verify_w3c(&p, &b.req, &o);
                        // a presentation is verified (true) when its envelope is well-formed and refused with an error otherwise: never false, never a crash
                        if v != "T" && v != "E" {
                            out.oracle_fail("an honest W3C presentation with an edited envelope was neither accepted nor refused with an error", &json!({"fam":"c14.envelope","sig":"","ctx":ctx,"types":types}), &json!(v));
                        }
                        json!({"valid": v == "T", "version": p.version().ok().map(|v| match v { Ver::V1_1 => "1.1", Ver::V2_0 => "2.0" })})
                    }
                }
            };
            out.count(&format!("c14:envelope:{}:{}:{}", if pres { "presentation" } else { "credential" }, cls, if imp["valid"] == json!(true) { "valid" } else { "refused" }));
            cases.push((json!({"op":"w3c_envelope","fam":"c14.envelope","cls":cls,"ctx":ctx,"types":types,"date":date,"kind": if pres { "presentation" } else { "credential" },"nt":true}), imp));
        }
    }
    // the `proof` member of the stored document (op proof_doc, model ProofDoc): which proof the getters find in every spelling
    {
        let base = serde_json::to_value(&eng.cast.creds[eng.cast.cred("a_alice")].w3c).unwrap();
        // AnonCreds proofs of the three kinds, taken from real objects; identity = position in `known`
        let mut known: Vec<(u64, Value)> = vec![];    // (kind, proof object)
        for c in eng.cast.creds.iter().take(4) {
            let j = serde_json::to_value(&c.w3c).unwrap();
            if let Some(p) = j["proof"].as_array().and_then(|a| a.first()) { known.push((0, p.clone())); }
        }
        let plan = crate::scen::gen_honest_plan(rng, &eng.cast, true, false);
        if let Ok(b) = eng.build_w3c(&plan) {
            let pj = serde_json::to_value(&b.pres).unwrap();
            for vc in pj["verifiableCredential"].as_array().cloned().unwrap_or_default().iter().take(2) { known.push((1, vc["proof"].clone())); }
            known.push((2, pj["proof"].clone()));
        }
        let with_proof = |proof: &Value| -> Option<W3CCredential> { let mut d = base.clone(); d["proof"] = proof.clone(); serde_json::from_str(&d.to_string()).ok() };
        let purposes = ["assertionMethod", "authentication"];
        let anon_obj = |id: usize, purpose: usize| -> Value { let mut o = known[id].1.clone(); o["proofPurpose"] = json!(purposes[purpose]); o };
        // reference values: what the getters return for each known proof presented alone (as an assertion)
        let ref_sig: Vec<Option<Value>> = (0..known.len()).map(|i| with_proof(&anon_obj(i, 0)).and_then(|c| c.get_credential_signature_proof().ok().map(|v| serde_json::to_value(v).unwrap()))).collect();
        let ref_pres: Vec<Option<Value>> = (0..known.len()).map(|i| with_proof(&anon_obj(i, 0)).and_then(|c| c.get_credential_presentation_proof().ok().map(|v| serde_json::to_value(v).unwrap()))).collect();
        // values that are not AnonCreds proofs: foreign proofs, plain values, and near misses of an AnonCreds proof
        let near = |f: &dyn Fn(&mut Value)| -> Value { let mut o = known[0].1.clone(); f(&mut o); o };
        let others: Vec<Value> = vec![
            json!({"type": "Ed25519Signature2020", "proofPurpose": "assertionMethod", "verificationMethod": "did:x:1#k", "proofValue": "z58"}),
            json!({}), json!(7), json!("x"), Value::Null, json!(true),
            near(&|o| { o["cryptosuite"] = json!("other-2023"); }),
            near(&|o| { o.as_object_mut().unwrap().remove("cryptosuite"); }),
            near(&|o| { o.as_object_mut().unwrap().remove("verificationMethod"); }),
            near(&|o| { o["proofValue"] = json!("u!!!"); }),
            near(&|o| { o["proofValue"] = json!("ukgmA"); }),                       // msgpack [9, {}]: unknown tag
            near(&|o| { let v = o["proofValue"].as_str().unwrap()[1..].to_string(); o["proofValue"] = json!(v); }),   // multibase header missing
            near(&|o| { o["type"] = json!("Ed25519Signature2020"); }),
            near(&|o| { o["proofPurpose"] = json!("keyAgreement"); }),
            near(&|o| { o["verificationMethod"] = json!(5); }),
        ];
        let nesteds: Vec<Value> = vec![json!([]), json!([known[0].1.clone()]), json!([7]), json!([[known[0].1.clone()]])];
        // abstract scalar / entry -> (abstract json, concrete json)
        let scalar = |rng: &mut Rng| -> (Value, Value) {
            if rng.chance(1, 2) {
                let id = rng.below(known.len() as u64) as usize;
                let purpose = if rng.chance(3, 4) { 0 } else { 1 };
                (json!({"anon": [purpose, known[id].0, id]}), anon_obj(id, purpose))
            } else {
                let id = rng.below(others.len() as u64) as usize;
                (json!({"other": id}), others[id].clone())
            }
        };
        let mut docs: Vec<(String, Value, Value)> = vec![];
        // systematic: every known proof under both purposes, alone and as an array of one; every other value alone; the empty array
        for id in 0..known.len() { for purpose in 0..2 {
            let a = json!({"anon": [purpose, known[id].0, id]});
            docs.push(("single".into(), json!({"val": a}), anon_obj(id, purpose)));
            docs.push(("array-of-one".into(), json!({"arr": [a]}), json!([anon_obj(id, purpose)])));
        } }
        for (id, o) in others.iter().enumerate() {
            docs.push(("other-alone".into(), json!({"val": {"other": id}}), o.clone()));
            docs.push(("other-before-signature".into(), json!({"arr": [{"other": id}, {"anon": [0, 0, 0]}]}), json!([o, anon_obj(0, 0)])));
        }
        docs.push(("empty-array".into(), json!({"arr": []}), json!([])));
        let n = if thorough { 3000 } else { 300 };
        for _ in 0..n {
            if rng.chance(1, 4) {
                let (a, c) = scalar(rng);
                docs.push(("random-single".into(), json!({"val": a}), c));
            } else {
                let len = rng.below(5);
                let (mut aa, mut cc) = (vec![], vec![]);
                for _ in 0..len {
                    if rng.chance(1, 7) {
                        let id = rng.below(nesteds.len() as u64) as usize;
                        aa.push(json!({"nested": id})); cc.push(nesteds[id].clone());
                    } else { let (a, c) = scalar(rng); aa.push(a); cc.push(c); }
                }
                docs.push((format!("random-array-{len}"), json!({"arr": aa}), Value::Array(cc)));
            }
        }
        let ident = |v: Option<Value>, refs: &Vec<Option<Value>>| -> Value { match v { None => Value::Null, Some(v) => refs.iter().position(|r| r.as_ref() == Some(&v)).map(|i| json!(i)).unwrap_or(json!("unknown-value")) } };
        for (cls, abs, conc) in docs {
            let imp = match with_proof(&conc) {
                None => json!({"unreadable": true}),
                Some(c) => {
                    let sig = ident(c.get_credential_signature_proof().ok().map(|v| serde_json::to_value(v).unwrap()), &ref_sig);
                    let pres = ident(c.get_credential_presentation_proof().ok().map(|v| serde_json::to_value(v).unwrap()), &ref_pres);
                    // oracle (C14): conversion is possible exactly when a signature proof is found
                    let conv = credential_from_w3c(&c).is_ok();
                    if conv != !sig.is_null() {
                        out.oracle_fail("conversion of a stored W3C credential disagrees with the signature proof found in its document", &json!({"fam":"c14.proof_doc","sig":"","cls":cls,"doc":abs}), &json!({"converted": conv, "signature_found": sig}));
                    }
                    json!({"sig": sig, "pres": pres, "same": canonical_doc(&serde_json::to_value(&c).unwrap()["proof"]) == canonical_doc(&conc)})   // envelopes decoded: a proof value holds hash maps, whose byte order is not fixed
                }
            };
            let found = if !imp["sig"].is_null() { "sig" } else if !imp["pres"].is_null() { "pres" } else { "none" };
            out.count(&format!("c14:proof-doc:{}:{found}", cls.split('-').next().unwrap_or("")));
            cases.push((json!({"op":"proof_doc","fam":"c14.proof_doc","cls":cls,"doc":abs,"nt":true}), imp));
        }
    }
    // converted credentials present and verify in their presentation format (both directions): the cast holds both forms of every credential;
    // here: credentials issued natively in W3C form, converted to legacy, presented in legacy form
    {
        let d = w.def("A");
        let offer = issuer::create_credential_offer(d.sid.clone(), d.cid.clone(), &d.kcp).unwrap();
        let (req, meta) = prover::create_credential_request(Some("e"), None, &d.cd, &eng.cast.holders[0], "ls", &offer).unwrap();
        let vals: Vec<(String, String)> = vec![("name".into(), "Alice".into()), ("age".into(), "25".into()), ("sex".into(), "F".into()), ("height".into(), "170".into())];
        if let Ok(mut wc) = w3c::issuer::create_credential(&d.cd, &d.cdp, &offer, &req, make_w3c_values(&vals), None, None) {
            if w3c::prover::process_credential(&mut wc, &meta, &eng.cast.holders[0], &d.cd, None).is_ok() {
                // as the live object, and as the document a wallet stored and read back
                let stored: Option<W3CCredential> = serde_json::from_str(&serde_json::to_string(&wc).unwrap()).ok();
                if stored.is_none() {
                    out.oracle_fail("a processed W3C credential could not be read back from its own document", &json!({"fam":"c14.present","sig":"","route":"document"}), &Value::Null);
                }
                for (route, wc) in [("live", Some(wc.clone())), ("document", stored)] {
                let Some(wc) = wc else { continue };
                match credential_from_w3c(&wc) {
                Err(e) => out.oracle_fail("a credential issued in W3C form could not be converted to legacy form", &json!({"fam":"c14.present","sig":"","route":route}), &json!(e.to_string())),
                Ok(lc) => {
                    let pres_req: PresentationRequest = serde_json::from_value(json!({"nonce":"99","name":"r","version":"1.0","requested_attributes":{"a":{"name":"name"}},"requested_predicates":{"p":{"name":"age","p_type":">=","p_value":18}}})).unwrap();
                    let mut pc = PresentCredentials::default();
                    { let mut x = pc.add_credential(&lc, None, None); x.add_requested_attribute("a", true); x.add_requested_predicate("p"); }
                    let ok = prover::create_presentation(&pres_req, pc, None, &eng.cast.holders[0], &w.schemas(), &w.cred_defs()).ok()
                        .map(|p| matches!(verifier::verify_presentation(&p, &pres_req, &w.schemas(), &w.cred_defs(), None, None, None), Ok(true))).unwrap_or(false);
                    out.count(&format!("c14:w3c-issued-presented-as-legacy:{route}"));
                    if !ok {
                        out.oracle_fail("a credential issued in W3C form and converted to legacy form does not present/verify", &json!({"fam":"c14.present","sig":"","route":route}), &Value::Null);
                    }
                    // and the W3C form itself presents in the W3C format
                    let mut pc = PresentCredentials::default();
                    { let mut x = pc.add_credential(&wc, None, None); x.add_requested_attribute("a", true); x.add_requested_predicate("p"); }
                    let ok = w3c::prover::create_presentation(&pres_req, pc, &eng.cast.holders[0], &w.schemas(), &w.cred_defs(), None).ok()
                        .map(|p| matches!(w3c::verifier::verify_presentation(&p, &pres_req, &w.schemas(), &w.cred_defs(), None, None, None), Ok(true))).unwrap_or(false);
                    if !ok {
                        out.oracle_fail("a credential issued in W3C form does not present/verify in the W3C format", &json!({"fam":"c14.present","sig":"","route":route}), &Value::Null);
                    }
                }
                }
                }
            }
        }
    }
    cases
}

// ---------------------------------------------------------------------------------------------
// C11: issuance is bound to offer, request, schema and link secret

/// one revealed attribute of the named credential
fn basic_plan_for(eng: &Engine, held: &str) -> Plan {
    let h = eng.cast.cred(held);
    let n = eng.cast.creds[h].values[0].0.clone();
    Plan { creds: vec![CredUse { held: h, state_list: None, ts_only: None }], refs: vec![RefPlan { referent: "a0".into(), kind: Kind::Single(n), cred: Some(0), revealed: true, restrictions: None, non_revoked: None }], global_nr: None, nonce: "123456".into(), holder: eng.cast.creds[h].holder }
}

pub fn c11(eng: &mut Engine, rng: &mut Rng, thorough: bool, out: &mut Out) -> Cases {
    let mut cases = vec![];
    let w = eng.cast.w.clone();
    // request creation itself: entropy / prover DID against the form of the definition id the offer names, through the real
    // `prover::create_credential_request` (the model's `credReqValid`, op credreq_valid)
    {
        let d = w.def("A");
        let offer0 = serde_json::to_value(issuer::create_credential_offer(d.sid.clone(), d.cid.clone(), &d.kcp).unwrap()).unwrap();
        for cid in ["NcYxiDXkpYi6ov5FcYDi1e:3:CL:NcYxiDXkpYi6ov5FcYDi1e:2:gvt:1.0:tag", "NcYxiDXkpYi6ov5FcYDi1e:3:CL:12:tag", "did:web:alpha/creddef/gvt", "did:web:x:3:CL:12:tag"] {
            let mut oj = offer0.clone();
            oj["cred_def_id"] = json!(cid);
            let Ok(offer) = serde_json::from_value::<anoncreds::types::CredentialOffer>(oj) else { continue };
            for e in [None, Some("entropy"), Some("")] {
                for did in [None, Some("NcYxiDXkpYi6ov5FcYDi1e"), Some("did:web:holder"), Some("garbage did"), Some(""), Some("NcYxiDXkpYi6ov5FcYDi1e0000")] {
                    let ok = prover::create_credential_request(e, did, &d.cd, &eng.cast.holders[0], "ls", &offer).is_ok();
                    out.count(&format!("c11:request:{}", if ok { "ok" } else { "refused" }));
                    cases.push((json!({"op":"credreq_valid","fam":"c11.request","entropy":e,"prover_did":did,"cred_def_id":cid,"nt":true}), json!(ok)));
                }
            }
        }
    }
    let rounds = if thorough { 30 } else { 2 };
    let mut blinding = 0u64;
    for round in 0..rounds {
        for key in ["A", "C", "L"] {
            let di = eng.cast.def_idx(key);
            let d = &w.defs[di];
            let other = &w.defs[eng.cast.def_idx(if key == "A" { "B" } else { "A" })];
            let holder = (round % 2) as usize;
            let ls = &eng.cast.holders[holder];
            let offer1 = issuer::create_credential_offer(d.sid.clone(), d.cid.clone(), &d.kcp).unwrap();
            let offer2 = issuer::create_credential_offer(d.sid.clone(), d.cid.clone(), &d.kcp).unwrap();
            let legacy_ids = d.cid.is_legacy_cred_def_identifier();
            let (e, did) = if legacy_ids && round % 2 == 1 { (None, Some(crate::world::LEGACY_DID)) } else { (Some("entropy"), None) };
            let Ok((req1, meta1)) = prover::create_credential_request(e, did, &d.cd, ls, "ls", &offer1) else { continue };
            blinding += 1;
            let b1 = blinding;
            let Ok((req2, meta2)) = prover::create_credential_request(e, did, &d.cd, ls, "ls", &offer1) else { continue };
            blinding += 1;
            let b2 = blinding;
            let nonce_of = |v: &Value| v["nonce"].as_str().unwrap_or("").to_string();
            let o1 = serde_json::to_value(&offer1).unwrap();
            let o2 = serde_json::to_value(&offer2).unwrap();
            let r1 = serde_json::to_value(&req1).unwrap();
            let cdj = json!({"id": d.cid.0, "key": di, "attrs": d.schema.attr_names.0});
            let names: Vec<String> = d.schema.attr_names.0.clone();
            let vals_for = |ns: &[String]| -> Vec<(String, String)> { ns.iter().enumerate().map(|(i, n)| (n.clone(), format!("{}", 20 + i))).collect() };
            let req_ghost = |r: &Value, key: usize, b: u64, proof_nonce: &str, intact: bool| json!({"entropy": r.get("entropy").cloned().unwrap_or(Value::Null), "prover_did": r.get("prover_did").cloned().unwrap_or(Value::Null),
                "blinded": {"key": key, "holder": holder, "blinding": b, "proof_nonce": proof_nonce, "intact": intact}, "nonce": nonce_of(r)});
            // --- issuer side ---
            let mut issue = |cls: &str, offer: &anoncreds::types::CredentialOffer, oj: &Value, req: &anoncreds::types::CredentialRequest, rg: Value, ns: Vec<String>, expect: Option<bool>, out: &mut Out, cases: &mut Cases| -> Option<Credential> {
                let r = issuer::create_credential(&d.cd, &d.cdp, offer, req, crate::world::make_values(&vals_for(&ns)), None);
                let ok = r.is_ok();
                out.count(&format!("c11:issue:{cls}:{}", if ok { "ok" } else { "refused" }));
                let case = json!({"op":"issue","fam":"c11.issue","cls":cls,"cd":cdj,"offer_nonce":nonce_of(oj),"req":rg,"value_names":ns,"nt":true});
                match expect {
                    Some(true) if !ok => out.oracle_fail("honest issuance refused", &json!({"fam":"c11.issue","sig":"","cls":cls}), &Value::Null),
                    Some(false) if ok => out.oracle_fail("issuer signed although offer / request / attribute set do not match", &json!({"fam":"c11.issue","sig":"","cls":cls}), &Value::Null),
                    _ => {}
                }
                cases.push((case, json!(ok)));
                r.ok()
            };
            let g1 = req_ghost(&r1, di, b1, &nonce_of(&o1), true);
            let cred = issue("honest", &offer1, &o1, &req1, g1.clone(), names.clone(), Some(true), out, &mut cases);
            issue("replayed-request-under-fresh-offer", &offer2, &o2, &req1, g1.clone(), names.clone(), Some(false), out, &mut cases);
            // a request made for another credential definition
            if let Ok(offer_o) = issuer::create_credential_offer(other.sid.clone(), other.cid.clone(), &other.kcp) {
                if let Ok((req_o, _)) = prover::create_credential_request(Some("entropy"), None, &other.cd, ls, "ls", &offer_o) {
                    blinding += 1;
                    let ro = serde_json::to_value(&req_o).unwrap();
                    let oi = eng.cast.def_idx(&other.key);
                    // answered with this issuer's own offer nonce does not help: the proof was built for the other key and the other offer
                    issue("request-for-other-definition", &offer1, &o1, &req_o, req_ghost(&ro, oi, blinding, &nonce_of(&serde_json::to_value(&offer_o).unwrap()), true), names.clone(), Some(false), out, &mut cases);
                }
            }
            // tampered blinded secret
            {
                let mut rj = r1.clone();
                let u = rj["blinded_ms"]["u"].as_str().unwrap().to_string();
                let mut cs: Vec<char> = u.chars().collect();
                let k = cs.len() / 2;
                cs[k] = if cs[k] == '5' { '6' } else { '5' };
                rj["blinded_ms"]["u"] = json!(cs.into_iter().collect::<String>());
                if let Ok(rt) = serde_json::from_value::<anoncreds::types::CredentialRequest>(rj.clone()) {
                    issue("blinded-secret-altered", &offer1, &o1, &rt, req_ghost(&rj, di, b1, &nonce_of(&o1), false), names.clone(), Some(false), out, &mut cases);
                }
            }
            // attribute sets
            let mut missing = names.clone();
            missing.pop();
            issue("attribute-missing", &offer1, &o1, &req1, g1.clone(), missing, Some(false), out, &mut cases);
            let mut extra = names.clone();
            extra.push("extra".into());
            issue("attribute-extra", &offer1, &o1, &req1, g1.clone(), extra, Some(false), out, &mut cases);
            // extra attributes with names the CL layer or the library uses itself
            for reserved in ["master_secret", "Master_Secret", "master_ secret", "MASTER_SECRET", "link_secret", "m2", "schema_id"] {
                let mut e = names.clone();
                e.push(reserved.to_string());
                issue("attribute-extra-reserved-name", &offer1, &o1, &req1, g1.clone(), e, Some(false), out, &mut cases);
            }
            let mut renamed = names.clone();
            renamed[0] = format!("{}x", renamed[0]);
            issue("attribute-renamed", &offer1, &o1, &req1, g1.clone(), renamed, Some(false), out, &mut cases);
            let respelled: Vec<String> = names.iter().map(|n| variant(rng, n)).collect();
            issue("attributes-respelled", &offer1, &o1, &req1, g1.clone(), respelled, Some(true), out, &mut cases);
            // --- holder side ---
            let Some(cred) = cred else { continue };
            let cj = serde_json::to_value(&cred).unwrap();
            let sig_ghost = |intact: bool, attrs_from: &Value| -> Value {
                let mut attrs: Vec<Value> = attrs_from.as_object().unwrap().iter().map(|(k, v)| json!([norm(k), v["encoded"]])).collect();
                attrs.sort_by(|a, b| a[0].as_str().cmp(&b[0].as_str()));
                json!({"key": di, "attrs": attrs, "holder": holder, "blinding": b1, "nonce": nonce_of(&r1), "intact": intact})
            };
            let vals_ghost = |v: &Value| -> Value { let mut a: Vec<Value> = v.as_object().unwrap().iter().map(|(k, x)| json!([k, x["encoded"]])).collect(); a.sort_by(|x, y| x[0].as_str().cmp(&y[0].as_str())); Value::Array(a) };
            let m1 = json!({"blinding": b1, "nonce": nonce_of(&serde_json::to_value(&meta1).unwrap())});
            let m2 = json!({"blinding": b2, "nonce": nonce_of(&serde_json::to_value(&meta2).unwrap())});
            let mut process = |cls: &str, credj: &Value, sig: Value, meta: &anoncreds::types::CredentialRequestMetadata, mg: &Value, h: usize, cdk: usize, expect: Option<bool>, out: &mut Out, cases: &mut Cases| {
                let Ok(mut c) = serde_json::from_value::<Credential>(credj.clone()) else { out.count(&format!("c11:process:{cls}:undeserialisable")); return };
                let cd_used = &w.defs[cdk];
                let ok = prover::process_credential(&mut c, meta, &eng.cast.holders[h], &cd_used.cd, None).is_ok();
                out.count(&format!("c11:process:{cls}:{}", if ok { "ok" } else { "rejected" }));
                match expect {
                    Some(true) if !ok => out.oracle_fail("holder rejected a correctly issued credential", &json!({"fam":"c11.process","sig":"","cls":cls}), &Value::Null),
                    Some(false) if ok => out.oracle_fail("holder accepted a tampered or foreign credential", &json!({"fam":"c11.process","sig":"","cls":cls}), &Value::Null),
                    _ => {}
                }
                let cdg = json!({"id": cd_used.cid.0, "key": cdk, "attrs": cd_used.schema.attr_names.0});
                cases.push((json!({"op":"process","fam":"c11.process","cls":cls,"cd":cdg,"sig":sig,"values":vals_ghost(&credj["values"]),"meta":mg,"holder":h,"nt":true}), json!(ok)));
            };
            process("honest", &cj, sig_ghost(true, &cj["values"]), &meta1, &m1, holder, di, Some(true), out, &mut cases);
            // "a credential that passes processing always yields verifiable presentations": process the real object, present its first
            // attribute revealed and its last one unrevealed, verify
            {
                let mut c = serde_json::from_value::<Credential>(cj.clone()).unwrap();
                if prover::process_credential(&mut c, &meta1, &eng.cast.holders[holder], &d.cd, None).is_ok() {
                    let reqj = json!({"nonce": format!("{}", 1000 + rng.below(1_000_000_000)), "name":"r","version":"1.0","requested_attributes": {"r0": {"name": names[0]}, "u0": {"name": names[names.len() - 1]}}, "requested_predicates": {}});
                    let preq: PresentationRequest = serde_json::from_value(reqj).unwrap();
                    let mut pc = PresentCredentials::default();
                    {
                        let mut x = pc.add_credential(&c, None, None);
                        x.add_requested_attribute("r0", true);
                        x.add_requested_attribute("u0", false);
                    }
                    let (schemas, cred_defs) = (w.schemas(), w.cred_defs());
                    let v = match prover::create_presentation(&preq, pc, None, &eng.cast.holders[holder], &schemas, &cred_defs) {
                        Ok(p) => verifier::verify_presentation(&p, &preq, &schemas, &cred_defs, None, None, None).unwrap_or(false),
                        Err(_) => false,
                    };
                    out.count(&format!("c11:processed-presented:legacy:{v}"));
                    out.oracle_only += 1;
                    if !v {
                        out.oracle_fail("a credential that passed processing does not yield a verifiable presentation", &json!({"fam":"c11.process","sig":"","cls":"processed-presented"}), &Value::Null);
                    }
                }
            }
            process("other-link-secret", &cj, sig_ghost(true, &cj["values"]), &meta1, &m1, 1 - holder, di, Some(false), out, &mut cases);
            process("other-metadata", &cj, sig_ghost(true, &cj["values"]), &meta2, &m2, holder, di, Some(false), out, &mut cases);
            let oi = eng.cast.def_idx(&other.key);
            process("other-definition", &cj, sig_ghost(true, &cj["values"]), &meta1, &m1, holder, oi, Some(false), out, &mut cases);
            // single-field alterations of the issued credential
            let first = names[0].clone();
            {
                let mut j = cj.clone();
                j["values"][first.as_str()]["encoded"] = json!("987654321");
                process("value-encoded-changed", &j, sig_ghost(true, &cj["values"]), &meta1, &m1, holder, di, Some(false), out, &mut cases);
                let mut j = cj.clone();
                j["values"][first.as_str()]["raw"] = json!("something else");
                process("value-raw-only-changed", &j, sig_ghost(true, &cj["values"]), &meta1, &m1, holder, di, None, out, &mut cases);
                if names.len() >= 2 {
                    let mut j = cj.clone();
                    let a = j["values"][names[0].as_str()]["encoded"].clone();
                    let b = j["values"][names[1].as_str()]["encoded"].clone();
                    j["values"][names[0].as_str()]["encoded"] = b;
                    j["values"][names[1].as_str()]["encoded"] = a;
                    process("values-swapped", &j, sig_ghost(true, &cj["values"]), &meta1, &m1, holder, di, Some(false), out, &mut cases);
                }
                let mut j = cj.clone();
                let v = j["values"].as_object_mut().unwrap().remove(&first).unwrap();
                j["values"][first.to_uppercase().as_str()] = v;
                process("value-key-respelled", &j, sig_ghost(true, &cj["values"]), &meta1, &m1, holder, di, None, out, &mut cases);
                let mut j = cj.clone();
                j["values"].as_object_mut().unwrap().remove(&first);
                process("value-removed", &j, sig_ghost(true, &cj["values"]), &meta1, &m1, holder, di, Some(false), out, &mut cases);
                for path in [vec!["signature", "p_credential", "a"], vec!["signature", "p_credential", "e"], vec!["signature", "p_credential", "v"], vec!["signature", "p_credential", "m_2"], vec!["signature_correctness_proof", "se"], vec!["signature_correctness_proof", "c"]] {
                    let mut j = cj.clone();
                    let mut cur = &mut j;
                    for k in &path { cur = &mut cur[*k]; }
                    if let Some(s) = cur.as_str() {
                        let mut cs: Vec<char> = s.chars().collect();
                        let k = cs.len() / 2;
                        cs[k] = if cs[k] == '5' { '6' } else { '5' };
                        *cur = json!(cs.into_iter().collect::<String>());
                        process(&format!("perturbed:{}", path.join(".")), &j, sig_ghost(false, &cj["values"]), &meta1, &m1, holder, di, Some(false), out, &mut cases);
                    }
                }
                // identifiers are not bound at processing time (the definition is a parameter): judged by the model only
                let mut j = cj.clone();
                j["cred_def_id"] = json!(other.cid.0);
                process("cred-def-id-string-changed", &j, sig_ghost(true, &cj["values"]), &meta1, &m1, holder, di, None, out, &mut cases);
            }
            // --- the same in W3C form (`w3c::issuer::create_credential`, `w3c::prover::process_credential`) ---
            {
                use anoncreds::data_types::w3c::credential_attributes::{CredentialAttributeValue as V, CredentialSubject};
                use anoncreds::types::{CredentialOffer, CredentialRequest, CredentialRequestMetadata};
                let subj_for = |ns: &[String]| -> Vec<(String, V)> { ns.iter().enumerate().map(|(i, n)| (n.clone(), if i % 2 == 0 { V::Number(20 + i as i32) } else { V::String(format!("text {i}")) })).collect() };
                // through the public builder (`MakeCredentialAttributes::add`) where it can express the entry, else directly
                let mk = |e: &[(String, V)]| -> CredentialSubject {
                    let all_builder = e.iter().all(|(_, v)| !matches!(v, V::Bool(_)));
                    if all_builder {
                        let mut b = anoncreds::w3c::types::MakeCredentialAttributes::default();
                        for (k, v) in e {
                            match v { V::String(s) => b.add(k.clone(), s.clone()), V::Number(n) => b.add(k.clone(), n.to_string()), V::Bool(_) => {} }
                        }
                        let s: CredentialSubject = b.into();
                        // the builder turns an integer string into a number: same encoding, the subject the issuer returns is what the model gets
                        s
                    } else {
                        let mut s = CredentialSubject::default(); for (k, v) in e { s.0.insert(k.clone(), v.clone()); } s
                    }
                };
                let sj = |e: &[(String, V)]| -> Value { let mut a: Vec<Value> = e.iter().map(|(k, v)| json!([k, match v { V::String(s) => json!(s), V::Number(n) => json!(n), V::Bool(b) => json!(b) }])).collect(); a.sort_by(|x, y| x[0].as_str().cmp(&y[0].as_str())); Value::Array(a) };
                let mut issue_w = |cls: &str, offer: &CredentialOffer, oj: &Value, req: &CredentialRequest, rg: Value, e: Vec<(String, V)>, expect: Option<bool>, out: &mut Out, cases: &mut Cases| -> Option<anoncreds::data_types::w3c::credential::W3CCredential> {
                    // entries with the same key collapse in the map: the model gets what the library gets
                    let subject = mk(&e);
                    let given: Vec<(String, V)> = subject.0.iter().map(|(k, v)| (k.clone(), v.clone())).collect();
                    let r = w3c::issuer::create_credential(&d.cd, &d.cdp, offer, req, subject, None, None);
                    let ok = r.is_ok();
                    out.count(&format!("c11:issue-w3c:{cls}:{}", if ok { "ok" } else { "refused" }));
                    match expect {
                        Some(true) if !ok => out.oracle_fail("honest W3C issuance refused", &json!({"fam":"c11.issue_w3c","sig":"","cls":cls}), &Value::Null),
                        Some(false) if ok => out.oracle_fail("issuer signed a W3C credential although offer / request / attribute set do not match", &json!({"fam":"c11.issue_w3c","sig":"","cls":cls}), &Value::Null),
                        _ => {}
                    }
                    cases.push((json!({"op":"issue_w3c","fam":"c11.issue_w3c","cls":cls,"cd":cdj,"offer_nonce":nonce_of(oj),"req":rg,"subject":sj(&given),"nt":true}), json!(ok)));
                    r.ok()
                };
                let base = subj_for(&names);
                let with = |extra: (&str, V)| -> Vec<(String, V)> { let mut e = base.clone(); e.push((extra.0.to_string(), extra.1)); e };
                let wcred = issue_w("honest", &offer1, &o1, &req1, g1.clone(), base.clone(), Some(true), out, &mut cases);
                issue_w("replayed-request-under-fresh-offer", &offer2, &o2, &req1, g1.clone(), base.clone(), Some(false), out, &mut cases);
                issue_w("attribute-missing", &offer1, &o1, &req1, g1.clone(), base[..base.len() - 1].to_vec(), Some(false), out, &mut cases);
                issue_w("attribute-extra-string", &offer1, &o1, &req1, g1.clone(), with(("extra", V::String("x".into()))), Some(false), out, &mut cases);
                issue_w("attribute-extra-number", &offer1, &o1, &req1, g1.clone(), with(("extra", V::Number(1))), Some(false), out, &mut cases);
                for reserved in ["master_secret", "Master_Secret", "master_ secret", "link_secret"] {
                    issue_w("attribute-extra-reserved-name", &offer1, &o1, &req1, g1.clone(), with((reserved, V::String("x".into()))), Some(false), out, &mut cases);
                }
                issue_w("attribute-extra-true", &offer1, &o1, &req1, g1.clone(), with(("extra", V::Bool(true))), Some(false), out, &mut cases);
                issue_w("attribute-extra-false", &offer1, &o1, &req1, g1.clone(), with(("extra", V::Bool(false))), Some(false), out, &mut cases);
                for b in [true, false] {
                    let mut e = base.clone();
                    e[0].1 = V::Bool(b);
                    issue_w(&format!("schema-attribute-as-{b}"), &offer1, &o1, &req1, g1.clone(), e, Some(false), out, &mut cases);
                }
                let mut e = base.clone();
                e[0].0 = format!("{}x", e[0].0);
                issue_w("attribute-renamed", &offer1, &o1, &req1, g1.clone(), e, Some(false), out, &mut cases);
                let e: Vec<(String, V)> = base.iter().map(|(k, v)| (variant(rng, k), v.clone())).collect();
                issue_w("attributes-respelled", &offer1, &o1, &req1, g1.clone(), e, Some(true), out, &mut cases);
                // holder side
                if let Some(wc) = wcred {
                    let honest: Vec<(String, V)> = wc.credential_subject.0.iter().map(|(k, v)| (k.clone(), v.clone())).collect();
                    let Ok(as_legacy) = anoncreds::w3c::credential_conversion::credential_from_w3c(&wc) else { continue };
                    let mut attrs: Vec<Value> = as_legacy.values.0.iter().map(|(k, v)| json!([norm(k), v.encoded])).collect();
                    attrs.sort_by(|a, b| a[0].as_str().cmp(&b[0].as_str()));
                    let sigw = |intact: bool| json!({"key": di, "attrs": attrs, "holder": holder, "blinding": b1, "nonce": nonce_of(&r1), "intact": intact});
                    let mut process_w = |cls: &str, e: &[(String, V)], meta: &CredentialRequestMetadata, mg: &Value, h: usize, cdk: usize, expect: Option<bool>, out: &mut Out, cases: &mut Cases| {
                        let mut c = wc.clone();
                        c.credential_subject = mk(e);
                        let given: Vec<(String, V)> = c.credential_subject.0.iter().map(|(k, v)| (k.clone(), v.clone())).collect();
                        let cd_used = &w.defs[cdk];
                        let ok = w3c::prover::process_credential(&mut c, meta, &eng.cast.holders[h], &cd_used.cd, None).is_ok();
                        out.count(&format!("c11:process-w3c:{cls}:{}", if ok { "ok" } else { "rejected" }));
                        match expect {
                            Some(true) if !ok => out.oracle_fail("holder rejected a correctly issued W3C credential", &json!({"fam":"c11.process_w3c","sig":"","cls":cls}), &Value::Null),
                            Some(false) if ok => out.oracle_fail("holder accepted a tampered or foreign W3C credential", &json!({"fam":"c11.process_w3c","sig":"","cls":cls}), &Value::Null),
                            _ => {}
                        }
                        let cdg = json!({"id": cd_used.cid.0, "key": cdk, "attrs": cd_used.schema.attr_names.0});
                        cases.push((json!({"op":"process_w3c","fam":"c11.process_w3c","cls":cls,"cd":cdg,"sig":sigw(true),"subject":sj(&given),"sig_proof_ok":true,"proof_doc":abs_proof_doc(&serde_json::to_value(&wc).unwrap()["proof"]),"meta":mg,"holder":h,"nt":true}), json!(ok)));
                    };
                    process_w("honest", &honest, &meta1, &m1, holder, di, Some(true), out, &mut cases);
                    {
                        let mut c = wc.clone();
                        if w3c::prover::process_credential(&mut c, &meta1, &eng.cast.holders[holder], &d.cd, None).is_ok() {
                            let reqj = json!({"nonce": format!("{}", 1000 + rng.below(1_000_000_000)), "name":"r","version":"1.0","requested_attributes": {"r0": {"name": names[0]}, "u0": {"name": names[names.len() - 1]}}, "requested_predicates": {}});
                            let preq: PresentationRequest = serde_json::from_value(reqj).unwrap();
                            let mut pc = PresentCredentials::default();
                            {
                                let mut x = pc.add_credential(&c, None, None);
                                x.add_requested_attribute("r0", true);
                                x.add_requested_attribute("u0", false);
                            }
                            let (schemas, cred_defs) = (w.schemas(), w.cred_defs());
                            let v = match w3c::prover::create_presentation(&preq, pc, &eng.cast.holders[holder], &schemas, &cred_defs, None) {
                                Ok(p) => w3c::verifier::verify_presentation(&p, &preq, &schemas, &cred_defs, None, None, None).unwrap_or(false),
                                Err(_) => false,
                            };
                            out.count(&format!("c11:processed-presented:w3c:{v}"));
                            out.oracle_only += 1;
                            if !v {
                                out.oracle_fail("a W3C credential that passed processing does not yield a verifiable presentation", &json!({"fam":"c11.process_w3c","sig":"","cls":"processed-presented"}), &Value::Null);
                            }
                        }
                    }
                    process_w("other-link-secret", &honest, &meta1, &m1, 1 - holder, di, Some(false), out, &mut cases);
                    process_w("other-metadata", &honest, &meta2, &m2, holder, di, Some(false), out, &mut cases);
                    process_w("other-definition", &honest, &meta1, &m1, holder, oi, Some(false), out, &mut cases);
                    let addw = |extra: (&str, V)| -> Vec<(String, V)> { let mut e = honest.clone(); e.push((extra.0.to_string(), extra.1)); e };
                    process_w("entry-added-string", &addw(("vip", V::String("yes".into()))), &meta1, &m1, holder, di, Some(false), out, &mut cases);
                    process_w("entry-added-number", &addw(("vip", V::Number(1))), &meta1, &m1, holder, di, Some(false), out, &mut cases);
                    process_w("entry-added-true", &addw(("vip", V::Bool(true))), &meta1, &m1, holder, di, Some(false), out, &mut cases);
                    process_w("entry-added-false", &addw(("vip", V::Bool(false))), &meta1, &m1, holder, di, Some(false), out, &mut cases);
                    for (i, (k, v)) in honest.iter().enumerate() {
                        let mut e = honest.clone();
                        e[i].1 = match v { V::Number(n) => V::Number(n + 1), _ => V::String("changed".into()) };
                        process_w("value-changed", &e, &meta1, &m1, holder, di, Some(false), out, &mut cases);
                        let mut e = honest.clone();
                        e[i].1 = V::Bool(true);
                        process_w("value-replaced-by-true", &e, &meta1, &m1, holder, di, Some(false), out, &mut cases);
                        // the same printed form in the other JSON type encodes the same: judged by the model
                        let mut e = honest.clone();
                        e[i].1 = match v { V::Number(n) => V::String(n.to_string()), V::String(s) => V::String(s.clone()), b => b.clone() };
                        process_w("number-as-string", &e, &meta1, &m1, holder, di, None, out, &mut cases);
                        let mut e = honest.clone();
                        e.remove(i);
                        process_w("entry-removed", &e, &meta1, &m1, holder, di, Some(false), out, &mut cases);
                        let mut e = honest.clone();
                        e[i].0 = k.to_uppercase();
                        process_w("key-respelled", &e, &meta1, &m1, holder, di, None, out, &mut cases);
                    }
                    if honest.len() >= 2 {
                        let mut e = honest.clone();
                        let t = e[0].1.clone();
                        e[0].1 = e[1].1.clone();
                        e[1].1 = t;
                        process_w("values-swapped", &e, &meta1, &m1, holder, di, Some(false), out, &mut cases);
                    }
                    // the proof envelope: only an AnonCreds data-integrity proof with purpose assertionMethod holding a credential
                    // *signature* is a credential to process; anything else is refused, whatever else matches
                    {
                        let cdg = json!({"id": d.cid.0, "key": di, "attrs": d.schema.attr_names.0});
                        let derived = {
                            let name = eng.cast.creds.iter().find(|h| h.def == di && h.holder == holder).map(|h| h.name);
                            name.and_then(|name| { let plan = basic_plan_for(eng, name); eng.build_w3c(&plan).ok().map(|b| b.pres.verifiable_credential[0].clone()) })
                        };
                        let link = eng.cast.holders[holder].try_clone().unwrap();
                        let mut envelope = |cls: &str, c: &anoncreds::data_types::w3c::credential::W3CCredential, out: &mut Out, cases: &mut Cases| {
                            let mut c = c.clone();
                            let given: Vec<(String, V)> = c.credential_subject.0.iter().map(|(k, v)| (k.clone(), v.clone())).collect();
                            let pdoc = abs_proof_doc(&serde_json::to_value(&c).unwrap()["proof"]);
                            let ok = w3c::prover::process_credential(&mut c, &meta1, &link, &d.cd, None).is_ok();
                            out.count(&format!("c11:process-w3c:{cls}:{}", if ok { "ok" } else { "rejected" }));
                            if ok {
                                out.oracle_fail("holder accepted a W3C credential whose proof is not a credential signature under assertionMethod", &json!({"fam":"c11.process_w3c","sig":"","cls":cls}), &Value::Null);
                            }
                            cases.push((json!({"op":"process_w3c","fam":"c11.process_w3c","cls":cls,"cd":cdg,"sig":sigw(true),"subject":sj(&given),"sig_proof_ok":false,"proof_doc":pdoc,"meta":m1,"holder":holder,"nt":true}), json!(ok)));
                        };
                        // purpose flipped to the other legal value
                        let mut j = serde_json::to_value(&wc).unwrap();
                        if let Some(p) = j.get_mut("proof") {
                            let p = if p.is_array() { &mut p[0] } else { p };
                            p["proofPurpose"] = json!("authentication");
                        }
                        if let Ok(c) = serde_json::from_value::<anoncreds::data_types::w3c::credential::W3CCredential>(j) {
                            envelope("purpose-authentication", &c, out, &mut cases);
                            // ... and with a forged value on top (nothing is checked once the envelope is not looked at)
                            let mut c2 = c.clone();
                            if let Some((k, _)) = honest.first() {
                                c2.credential_subject.0.insert(k.clone(), V::String("forged".into()));
                            }
                            envelope("purpose-authentication+forged-value", &c2, out, &mut cases);
                        }
                        // a derived credential lifted out of a presentation (presentation proof instead of signature proof)
                        if let Some(derived) = derived {
                            envelope("presentation-proof-instead-of-signature", &derived, out, &mut cases);
                        }
                    }
                }
            }
        }
    }
    cases
}

/// C13 (flows): the encoding is the same function at the sites that only run inside a flow — W3C issuance with string-typed and
/// number-typed subject values, both conversions, holder processing, both provers and both verifiers: credentials whose values sit
/// on the boundaries of the integer branch are issued in each form, converted, presented revealing every value, and must verify;
/// the encoded values found in the objects must be the ones the unit function (op `enc`, judged by the model) gives.
pub fn c13f(eng: &mut Engine, rng: &mut Rng, thorough: bool, out: &mut Out) -> Cases {
    use anoncreds::data_types::w3c::credential_attributes::{CredentialAttributeValue as V, CredentialSubject};
    use anoncreds::w3c::credential_conversion::{credential_from_w3c, credential_to_w3c};
    let mut cases: Cases = vec![];
    let w = eng.cast.w.clone();
    let d = w.def("A");
    let ls = eng.cast.holders[0].try_clone().unwrap();
    let schemas = w.schemas();
    let cred_defs = w.cred_defs();
    let mut pool: Vec<String> = ["2147483647", "2147483648", "-2147483648", "-2147483649", "4915123456789", "+5", "007", "-0", "+0", "9223372036854775807", "9223372036854775808",
        "99999999999999999999", "18446744073709551616", " 42", "42 ", "4 2", "1e3", "0x10", "", "text", "٤٢", "-", "+", "1.0", "00", "-007", "+2147483647", "+2147483648", "-2147483648 "].iter().map(|s| s.to_string()).collect();
    if thorough {
        for _ in 0..60 {
            pool.push(format!("{}{}", if rng.chance(1, 3) { "-" } else { "" }, rng.next() % 10u64.pow(1 + rng.below(18) as u32)));
        }
    }
    let names = d.schema.attr_names.0.clone();
    for chunk in pool.chunks(names.len()) {
        let mut vals: Vec<(String, String)> = names.iter().cloned().zip(chunk.iter().cloned()).collect();
        while vals.len() < names.len() {
            let k = vals.len();
            vals.push((names[k].clone(), "pad".into()));
        }
        // request revealing every attribute
        let attrs: serde_json::Map<String, Value> = names.iter().enumerate().map(|(i, n)| (format!("r{i}"), json!({"name": n}))).collect();
        let reqj = json!({"nonce": format!("{}", 1000 + rng.below(1_000_000_000)), "name":"r","version":"1.0","requested_attributes": attrs, "requested_predicates": {}});
        let req: PresentationRequest = serde_json::from_value(reqj.clone()).unwrap();
        let case = |how: &str| json!({"fam":"c13.flow","sig":"","values": vals, "how": how});
        let expect_enc = |out: &mut Out, cases: &mut Cases, how: &str, name: &str, raw: &str, enc: &str| {
            // the encoded value an object carries is compared with the model through the unit op
            cases.push((json!({"op":"enc","fam":"c13.flow","site":format!("flow:{how}"),"s":raw,"nt":true}), json!(enc)));
            let _ = (out, name);
        };
        // (1) legacy issuance
        let legacy = match crate::world::issue_plain(d, &ls, &vals) {
            Ok(c) => c,
            Err(e) => { out.oracle_fail("legacy issuance of boundary values failed", &case("legacy-issue"), &json!({"err": e.to_string()})); continue }
        };
        for (n, raw) in &vals {
            expect_enc(out, &mut cases, "legacy-issue", n, raw, &legacy.values.0[n].encoded);
        }
        // (2) W3C issuance with every value as a JSON string, and with in-range integers as JSON numbers
        let mut w3c_creds: Vec<(String, W3CCredential)> = vec![];
        for typed in [false, true] {
            let subject = CredentialSubject(vals.iter().map(|(k, v)| (k.clone(), match (typed, v.parse::<i32>()) { (true, Ok(n)) => V::Number(n), _ => V::String(v.clone()) })).collect());
            let offer = issuer::create_credential_offer(d.sid.clone(), d.cid.clone(), &d.kcp).unwrap();
            let (creq, meta) = prover::create_credential_request(Some("entropy"), None, &d.cd, &ls, "ls", &offer).unwrap();
            match w3c::issuer::create_credential(&d.cd, &d.cdp, &offer, &creq, subject, None, None) {
                Ok(mut c) => match w3c::prover::process_credential(&mut c, &meta, &ls, &d.cd, None) {
                    Ok(()) => w3c_creds.push((format!("w3c-issue-{}", if typed { "typed" } else { "strings" }), c)),
                    Err(e) => out.oracle_fail("holder rejects an honestly issued W3C credential with boundary values", &case("w3c-process"), &json!({"err": e.to_string()})),
                },
                Err(e) => out.oracle_fail("W3C issuance of boundary values failed", &case("w3c-issue"), &json!({"err": e.to_string()})),
            }
        }
        // (3) conversions
        if let Ok(c) = credential_to_w3c(&legacy, &d.issuer, None) {
            w3c_creds.push(("legacy-to-w3c".into(), c));
        } else {
            out.oracle_fail("legacy credential with boundary values does not convert", &case("to-w3c"), &Value::Null);
        }
        let mut legacy_creds: Vec<(String, Credential)> = vec![("legacy-issue".into(), legacy.try_clone().unwrap())];
        for (how, c) in &w3c_creds {
            match credential_from_w3c(c) {
                Ok(l) => {
                    for (n, raw) in &vals {
                        if how.ends_with("typed") && raw.parse::<i32>().is_ok() {
                            continue; // the number's printed form, not the given spelling, is what was encoded
                        }
                        expect_enc(out, &mut cases, &format!("{how}-to-legacy"), n, raw, &l.values.0[n].encoded);
                    }
                    legacy_creds.push((format!("{how}-to-legacy"), l));
                }
                Err(e) => out.oracle_fail("W3C credential with boundary values does not convert", &case(how), &json!({"err": e.to_string()})),
            }
        }
        // (4) present and verify in both formats, every value revealed
        for (how, c) in &legacy_creds {
            let mut pc = PresentCredentials::default();
            {
                let mut x = pc.add_credential(c, None, None);
                for i in 0..names.len() { x.add_requested_attribute(format!("r{i}"), true); }
            }
            let v = match prover::create_presentation(&req, pc, None, &ls, &schemas, &cred_defs) {
                Ok(p) => match verifier::verify_presentation(&p, &req, &schemas, &cred_defs, None, None, None) { Ok(true) => "T".to_string(), Ok(false) => "F".into(), Err(e) => format!("E:{e}") },
                Err(e) => format!("present-err:{e}"),
            };
            out.count(&format!("c13:flow:legacy:{}", &v[..1]));
            out.oracle_only += 1;
            if v != "T" {
                out.oracle_fail("honest legacy presentation revealing boundary values does not verify", &case(how), &json!({"outcome": v}));
            }
        }
        for (how, c) in &w3c_creds {
            let mut pc = PresentCredentials::default();
            {
                let mut x = pc.add_credential(c, None, None);
                for i in 0..names.len() { x.add_requested_attribute(format!("r{i}"), true); }
            }
            let v = match w3c::prover::create_presentation(&req, pc, &ls, &schemas, &cred_defs, None) {
                Ok(p) => {
                    // ... and once more after a wire hop (the revealed encodings travel inside the msgpack proof value)
                    let hopped: Result<W3CPresentation, _> = serde_json::from_str(&serde_json::to_string(&p).unwrap());
                    let vh = match &hopped { Ok(p2) => match w3c::verifier::verify_presentation(p2, &req, &schemas, &cred_defs, None, None, None) { Ok(true) => "T".to_string(), Ok(false) => "F".into(), Err(e) => format!("E:{e}") }, Err(e) => format!("hop-err:{e}") };
                    out.count(&format!("c13:flow:w3c-after-hop:{}", &vh[..1]));
                    if vh != "T" {
                        out.oracle_fail("honest W3C presentation revealing boundary values does not verify after a wire hop", &json!({"fam":"c13.flow","sig":"C15:w3c:negative-revealed-value-lost-in-proof-value","values": vals, "how": how}), &json!({"outcome": vh}));
                    }
                    match w3c::verifier::verify_presentation(&p, &req, &schemas, &cred_defs, None, None, None) { Ok(true) => "T".to_string(), Ok(false) => "F".into(), Err(e) => format!("E:{e}") }
                }
                Err(e) => format!("present-err:{e}"),
            };
            out.count(&format!("c13:flow:w3c:{}", &v[..1]));
            out.oracle_only += 1;
            if v != "T" {
                out.oracle_fail("honest W3C presentation revealing boundary values does not verify", &case(how), &json!({"outcome": v}));
            }
        }
    }
    cases
}

//! Case writer: one JSON object per line `{"op":…, inputs…, "fam": family, "nt": non-trivial?, "impl": outcome}`.
use serde_json::{json, Value};
use std::collections::BTreeMap;
use std::io::Write;

pub struct Out {
    w: std::io::BufWriter<std::fs::File>,
    pub n: u64,
    pub dist: BTreeMap<String, u64>,
    pub oracle_failures: Vec<Value>,
    /// evaluations judged by an oracle only (no model case line): scans, hops, fuzz inputs
    pub oracle_only: u64,
}

impl Out {
    pub fn create(path: &str) -> Out {
        let f = std::fs::File::create(path).expect("create out");
        Out { w: std::io::BufWriter::new(f), n: 0, dist: BTreeMap::new(), oracle_failures: vec![], oracle_only: 0 }
    }
    pub fn count(&mut self, key: &str) {
        *self.dist.entry(key.to_string()).or_insert(0) += 1;
    }
    pub fn count_n(&mut self, key: &str, n: u64) {
        *self.dist.entry(key.to_string()).or_insert(0) += n;
    }
    pub fn write_case(&mut self, mut case: Value, imp: Value) {
        let fam = case["fam"].as_str().unwrap_or("?").to_string();
        case["impl"] = imp;
        serde_json::to_writer(&mut self.w, &case).unwrap();
        self.w.write_all(b"\n").unwrap();
        self.n += 1;
        self.count(&format!("fam:{fam}"));
    }
    /// An implementation-vs-oracle failure: judged from the property statement alone, no model involved.
    pub fn oracle_fail(&mut self, what: &str, case: &Value, imp: &Value) {
        self.oracle_failures.push(json!({"what": what, "case": case, "impl": imp}));
    }
    pub fn finish(mut self) -> Value {
        self.w.flush().unwrap();
        json!({"cases": self.n, "dist": self.dist, "oracle_failures": self.oracle_failures, "oracle_only": self.oracle_only})
    }
}

//! C15, the msgpack layer (model Msgpack, ops mp_encode / mp_decode / mp_json / pv_read): a self-describing value type driven through
//! the library's `utils::msg_pack::{encode, decode}` (guarded hooks), generators of boundary trees and of byte strings around them.
use crate::fam_flow::Cases;
use crate::out::Out;
use crate::rng::Rng;
use anoncreds::verif_hooks::{msgpack_decode, msgpack_encode};
use serde::de::{self, MapAccess, SeqAccess, Visitor};
use serde::ser::{SerializeMap, SerializeSeq};
use serde::{Deserialize, Deserializer, Serialize, Serializer};
use serde_json::{json, Value};

#[derive(Clone, Debug, PartialEq)]
pub enum Mv { Nil, Bool(bool), Int(i128), Str(String), Bin(Vec<u8>), Arr(Vec<Mv>), Map(Vec<(Mv, Mv)>) }

impl Serialize for Mv {
    fn serialize<S: Serializer>(&self, s: S) -> Result<S::Ok, S::Error> {
        match self {
            Mv::Nil => s.serialize_unit(),
            Mv::Bool(b) => s.serialize_bool(*b),
            Mv::Int(i) => if *i >= 0 { s.serialize_u64(*i as u64) } else { s.serialize_i64(*i as i64) },
            Mv::Str(t) => s.serialize_str(t),
            Mv::Bin(b) => s.serialize_bytes(b),
            Mv::Arr(xs) => { let mut q = s.serialize_seq(Some(xs.len()))?; for x in xs { q.serialize_element(x)?; } q.end() }
            Mv::Map(kvs) => { let mut m = s.serialize_map(Some(kvs.len()))?; for (k, v) in kvs { m.serialize_entry(k, v)?; } m.end() }
        }
    }
}

struct MvVisitor;
impl<'de> Visitor<'de> for MvVisitor {
    type Value = Mv;
    fn expecting(&self, f: &mut std::fmt::Formatter) -> std::fmt::Result { f.write_str("a msgpack value without floats or extension types") }
    fn visit_unit<E: de::Error>(self) -> Result<Mv, E> { Ok(Mv::Nil) }
    fn visit_none<E: de::Error>(self) -> Result<Mv, E> { Ok(Mv::Nil) }
    fn visit_some<D: Deserializer<'de>>(self, d: D) -> Result<Mv, D::Error> { Mv::deserialize(d) }
    fn visit_bool<E: de::Error>(self, b: bool) -> Result<Mv, E> { Ok(Mv::Bool(b)) }
    fn visit_i64<E: de::Error>(self, n: i64) -> Result<Mv, E> { Ok(Mv::Int(n as i128)) }
    fn visit_u64<E: de::Error>(self, n: u64) -> Result<Mv, E> { Ok(Mv::Int(n as i128)) }
    fn visit_str<E: de::Error>(self, t: &str) -> Result<Mv, E> { Ok(Mv::Str(t.to_string())) }
    fn visit_bytes<E: de::Error>(self, b: &[u8]) -> Result<Mv, E> { Ok(Mv::Bin(b.to_vec())) }
    fn visit_seq<A: SeqAccess<'de>>(self, mut a: A) -> Result<Mv, A::Error> {
        let mut v = vec![];
        while let Some(x) = a.next_element::<Mv>()? { v.push(x); }
        Ok(Mv::Arr(v))
    }
    fn visit_map<A: MapAccess<'de>>(self, mut a: A) -> Result<Mv, A::Error> {
        let mut v = vec![];
        while let Some((k, x)) = a.next_entry::<Mv, Mv>()? { v.push((k, x)); }
        Ok(Mv::Map(v))
    }
}
impl<'de> Deserialize<'de> for Mv {
    fn deserialize<D: Deserializer<'de>>(d: D) -> Result<Mv, D::Error> { d.deserialize_any(MvVisitor) }
}

pub fn hex(b: &[u8]) -> String { b.iter().map(|x| format!("{x:02x}")).collect() }

pub fn tree(v: &Mv) -> Value {
    match v {
        Mv::Nil => json!({"nil": true}),
        Mv::Bool(b) => json!({"bool": b}),
        Mv::Int(i) => json!({"int": i.to_string()}),
        Mv::Str(t) => json!({"str": hex(t.as_bytes())}),
        Mv::Bin(b) => json!({"bin": hex(b)}),
        Mv::Arr(xs) => json!({"arr": xs.iter().map(tree).collect::<Vec<_>>()}),
        Mv::Map(kvs) => json!({"map": kvs.iter().map(|(k, v)| json!([tree(k), tree(v)])).collect::<Vec<_>>()}),
    }
}

const INTS: [i128; 34] = [0, 1, 5, 127, 128, 129, 255, 256, 257, 65_535, 65_536, 65_537, 4_294_967_295, 4_294_967_296, 4_294_967_297,
    9_223_372_036_854_775_807, 9_223_372_036_854_775_808, 18_446_744_073_709_551_615, -1, -2, -31, -32, -33, -127, -128, -129, -32_767, -32_768, -32_769,
    -2_147_483_648, -2_147_483_649, -9_223_372_036_854_775_807, -9_223_372_036_854_775_808, 300];
const LENS: [usize; 14] = [0, 1, 2, 15, 16, 17, 31, 32, 33, 255, 256, 257, 65_535, 65_536];

fn text(rng: &mut Rng, len: usize) -> String {
    // exactly `len` bytes of UTF-8: ASCII, with a two- or three-byte character now and then where it fits
    let mut s = String::new();
    while s.len() < len {
        let room = len - s.len();
        match rng.below(12) { 0 if room >= 2 => s.push('é'), 1 if room >= 3 => s.push('€'), 2 => s.push('\0'), 3 => s.push('"'), _ => s.push((b'a' + rng.below(26) as u8) as char) }
    }
    s
}

fn leaf(rng: &mut Rng) -> Mv {
    match rng.below(10) {
        0 => Mv::Nil,
        1 => Mv::Bool(rng.chance(1, 2)),
        2 | 3 => Mv::Int(*rng.pick(&INTS)),
        4 => Mv::Int(rng.range(-70_000, 70_000) as i128),
        5 => { let n = rng.next(); Mv::Int(if rng.chance(1, 2) { n as i128 } else { (n as i64) as i128 }) }
        6 | 7 => { let l = if rng.chance(3, 4) { rng.below(40) as usize } else { *rng.pick(&LENS[..12]) }; Mv::Str(text(rng, l)) }
        8 => { let l = if rng.chance(3, 4) { rng.below(40) as usize } else { *rng.pick(&LENS[..12]) }; Mv::Bin((0..l).map(|_| rng.below(256) as u8).collect()) }
        _ => Mv::Str(rng.below(1_000_000_000_000).to_string()),
    }
}

pub fn gen(rng: &mut Rng, depth: u32) -> Mv {
    if depth == 0 || rng.chance(2, 5) { return leaf(rng); }
    let n = match rng.below(8) { 0 => 0, 1 => 15, 2 => 16, 3 => 17, _ => rng.below(6) as usize };
    if rng.chance(1, 2) { Mv::Arr((0..n).map(|_| gen(rng, depth - 1)).collect()) }
    else {
        // structures are maps with string keys; other key kinds are legal msgpack and appear now and then
        Mv::Map((0..n).map(|i| (if rng.chance(9, 10) { Mv::Str(format!("k{i}_{}", text(rng, (i * 7) % 5))) } else { leaf(rng) }, gen(rng, depth - 1))).collect())
    }
}

/// the second element of a tagged proof value, as the generic reader sees it
pub fn payload_tree(bytes: &[u8]) -> Option<Value> {
    match msgpack_decode::<Mv>(bytes) { Ok(Mv::Arr(xs)) if xs.len() == 2 => Some(tree(&xs[1])), _ => None }
}

fn dec_imp(bytes: &[u8]) -> Value { match msgpack_decode::<Mv>(bytes) { Ok(v) => tree(&v), Err(_) => json!({"err": true}) } }

/// a value in a longer form than the writer's (all the reader accepts): integers in every wider format, lengths in wider headers
fn wide_forms(v: &Mv) -> Vec<Vec<u8>> {
    let mut out = vec![];
    let hdr = |m: u8, n: usize, k: usize| -> Vec<u8> { let mut h = vec![m]; h.extend_from_slice(&(n as u64).to_be_bytes()[8 - k..]); h };
    match v {
        Mv::Int(i) => {
            let i = *i;
            if (0..=0xff).contains(&i) { out.push(vec![0xcc, i as u8]); }
            if (0..=0xffff).contains(&i) { out.push(hdr(0xcd, i as usize, 2)); }
            if (0..=0xffff_ffff).contains(&i) { out.push(hdr(0xce, i as usize, 4)); }
            if (0..=u64::MAX as i128).contains(&i) { let mut h = vec![0xcf]; h.extend_from_slice(&(i as u64).to_be_bytes()); out.push(h); }
            if (i8::MIN as i128..=i8::MAX as i128).contains(&i) { out.push(vec![0xd0, i as i8 as u8]); }
            if (i16::MIN as i128..=i16::MAX as i128).contains(&i) { let mut h = vec![0xd1]; h.extend_from_slice(&(i as i16).to_be_bytes()); out.push(h); }
            if (i32::MIN as i128..=i32::MAX as i128).contains(&i) { let mut h = vec![0xd2]; h.extend_from_slice(&(i as i32).to_be_bytes()); out.push(h); }
            if (i64::MIN as i128..=i64::MAX as i128).contains(&i) { let mut h = vec![0xd3]; h.extend_from_slice(&(i as i64).to_be_bytes()); out.push(h); }
        }
        Mv::Str(t) => { for (m, k) in [(0xd9u8, 1usize), (0xda, 2), (0xdb, 4)] { if (t.len() as u64) < (1u64 << (8 * k)) { let mut h = hdr(m, t.len(), k); h.extend_from_slice(t.as_bytes()); out.push(h); } } }
        Mv::Bin(b) => { for (m, k) in [(0xc4u8, 1usize), (0xc5, 2), (0xc6, 4)] { if (b.len() as u64) < (1u64 << (8 * k)) { let mut h = hdr(m, b.len(), k); h.extend_from_slice(b); out.push(h); } } }
        Mv::Arr(xs) => { for (m, k) in [(0xdcu8, 2usize), (0xdd, 4)] { if xs.len() < 65_536 { let mut h = hdr(m, xs.len(), k); for x in xs { h.extend_from_slice(&msgpack_encode(x).unwrap()); } out.push(h); } } }
        Mv::Map(kvs) => { for (m, k) in [(0xdeu8, 2usize), (0xdf, 4)] { if kvs.len() < 65_536 { let mut h = hdr(m, kvs.len(), k); for (a, b) in kvs { h.extend_from_slice(&msgpack_encode(a).unwrap()); h.extend_from_slice(&msgpack_encode(b).unwrap()); } out.push(h); } } }
        _ => {}
    }
    out
}

pub fn cases(rng: &mut Rng, thorough: bool, out: &mut Out, real: &[(String, Vec<u8>, Value)], pv_texts: &[(String, String, Value)]) -> Cases {
    let mut cases: Cases = vec![];
    let mut trees: Vec<(&str, Mv)> = vec![];
    for i in INTS { trees.push(("int-boundary", Mv::Int(i))); }
    for l in LENS { trees.push(("str-length", Mv::Str(text(rng, l)))); trees.push(("bin-length", Mv::Bin(vec![0xa5; l]))); }
    for l in LENS { trees.push(("arr-length", Mv::Arr((0..l).map(|i| if l > 300 { Mv::Nil } else { Mv::Int(i as i128 - 3) }).collect()))); }
    for l in &LENS[..12] { trees.push(("map-length", Mv::Map((0..*l).map(|i| (Mv::Str(format!("k{i}")), Mv::Int(i as i128))).collect()))); }
    if thorough { for l in &LENS[12..] { trees.push(("map-length", Mv::Map((0..*l).map(|i| (Mv::Int(i as i128), Mv::Nil)).collect()))); } }
    for v in [Mv::Nil, Mv::Bool(false), Mv::Bool(true), Mv::Arr(vec![]), Mv::Map(vec![]), Mv::Str(String::new()), Mv::Bin(vec![])] { trees.push(("atom", v)); }
    // nesting: a chain of one-element sequences / maps
    for d in [1usize, 2, 10, 30, 60] { let mut v = Mv::Int(7); for i in 0..d { v = if i % 2 == 0 { Mv::Arr(vec![v]) } else { Mv::Map(vec![(Mv::Str("n".into()), v)]) }; } trees.push(("nested", v)); }
    for _ in 0..(if thorough { 4000 } else { 400 }) { trees.push(("random", gen(rng, 4))); }
    // derived structures: how serde's data model reaches the byte format through `to_vec_named` — a structure is a map keyed by its
    // member names in declaration order, `None` is nil (or absent with skip_serializing_if), a unit variant is its name, a newtype
    // variant a one-pair map, a tuple a sequence, a newtype structure its content. The expected tree is written out by hand here;
    // the model encodes it (op mp_encode) and the library encodes the structure itself.
    {
        #[derive(Serialize, Deserialize, PartialEq, Debug, Clone)]
        enum Kind { Plain, Boxed(u16), Pair(i8, String) }
        #[derive(Serialize, Deserialize, PartialEq, Debug, Clone)]
        struct Wrapped(u64);
        #[derive(Serialize, Deserialize, PartialEq, Debug, Clone)]
        struct Probe { schema_id: String, count: u32, delta: i64, opt: Option<String>, #[serde(skip_serializing_if = "Option::is_none")] skipped: Option<u8>, list: Vec<i64>, kind: Kind, wrapped: Wrapped, flag: bool, pair: (u8, String) }
        let s = |t: &str| Mv::Str(t.to_string());
        for i in 0..(if thorough { 200 } else { 40 }) {
            let kind = match i % 3 { 0 => Kind::Plain, 1 => Kind::Boxed(rng.below(70_000) as u16), _ => Kind::Pair(rng.range(-128, 127) as i8, text(rng, 3)) };
            let sl = rng.below(40) as usize;
            let p = Probe { schema_id: text(rng, sl), count: *rng.pick(&[0u32, 127, 128, 255, 256, 65_535, 65_536, u32::MAX]), delta: *rng.pick(&[0i64, -1, -32, -33, -128, -129, i64::MIN, i64::MAX, 300]),
                opt: if rng.chance(1, 2) { Some(text(rng, 5)) } else { None }, skipped: if rng.chance(1, 2) { Some(rng.below(256) as u8) } else { None },
                list: (0..rng.below(20)).map(|_| rng.range(-70_000, 70_000)).collect(), kind: kind.clone(), wrapped: Wrapped(rng.next()), flag: rng.chance(1, 2), pair: (rng.below(256) as u8, text(rng, 2)) };
            let mut m = vec![(s("schema_id"), Mv::Str(p.schema_id.clone())), (s("count"), Mv::Int(p.count as i128)), (s("delta"), Mv::Int(p.delta as i128)), (s("opt"), p.opt.clone().map(Mv::Str).unwrap_or(Mv::Nil))];
            if let Some(x) = p.skipped { m.push((s("skipped"), Mv::Int(x as i128))); }
            m.push((s("list"), Mv::Arr(p.list.iter().map(|x| Mv::Int(*x as i128)).collect())));
            m.push((s("kind"), match &kind { Kind::Plain => s("Plain"), Kind::Boxed(n) => Mv::Map(vec![(s("Boxed"), Mv::Int(*n as i128))]), Kind::Pair(a, b) => Mv::Map(vec![(s("Pair"), Mv::Arr(vec![Mv::Int(*a as i128), Mv::Str(b.clone())]))]) }));
            m.push((s("wrapped"), Mv::Int(p.wrapped.0 as i128)));
            m.push((s("flag"), Mv::Bool(p.flag)));
            m.push((s("pair"), Mv::Arr(vec![Mv::Int(p.pair.0 as i128), Mv::Str(p.pair.1.clone())])));
            let expected = Mv::Map(m);
            let Ok(bytes) = msgpack_encode(&p) else { continue };
            out.count("c15:mp:struct");
            cases.push((json!({"op":"mp_encode","fam":"c15.mp","cls":"enc-struct","v":tree(&expected),"nt":true}), json!(hex(&bytes))));
            if let Mv::Map(kvs) = &expected {
                let fields: Vec<Value> = kvs.iter().map(|(k, v)| json!([if let Mv::Str(t) = k { hex(t.as_bytes()) } else { String::new() }, tree(v)])).collect();
                cases.push((json!({"op":"mp_struct","fam":"c15.mp","cls":"struct-members","fields":fields,"nt":true}), json!({"hex": hex(&bytes), "members_found": true})));
            }
            // oracles on the real code: the structure is read back from its bytes, and from the bytes of the hand-written tree
            if msgpack_decode::<Probe>(&bytes).ok().as_ref() != Some(&p) { out.oracle_fail("a derived structure is not read back from its msgpack bytes", &json!({"fam":"c15.mp","sig":"","hex":hex(&bytes)}), &Value::Null); }
            if let Ok(tb) = msgpack_encode(&expected) { if msgpack_decode::<Probe>(&tb).ok().as_ref() != Some(&p) { out.oracle_fail("a derived structure is not read from the map of its members", &json!({"fam":"c15.mp","sig":"","hex":hex(&tb)}), &Value::Null); } }
        }
    }
    let mut byte_inputs: Vec<(String, Vec<u8>)> = vec![];
    for (cls, v) in &trees {
        let Ok(bytes) = msgpack_encode(v) else { out.oracle_fail("a value of the fragment is not written", &json!({"fam":"c15.mp","sig":"","tree":tree(v)}), &Value::Null); continue };
        // oracle on the real code: what is written is read back
        if msgpack_decode::<Mv>(&bytes).ok().as_ref() != Some(v) {
            out.oracle_fail("a value is not read back from its msgpack bytes", &json!({"fam":"c15.mp","sig":"","tree":tree(v)}), &json!(hex(&bytes)));
        }
        out.count(&format!("c15:mp:encode:{cls}"));
        cases.push((json!({"op":"mp_encode","fam":"c15.mp","cls":format!("enc-{cls}"),"v":tree(v),"nt":true}), json!(hex(&bytes))));
        byte_inputs.push((format!("written-{cls}"), bytes.clone()));
        let small = bytes.len() <= 2_000;
        if small || *cls != "random" {
            for w in wide_forms(v) { byte_inputs.push(("wide-form".into(), w)); }
        }
        if small {
            // truncated, extended, one byte replaced (mostly in the first bytes: markers and lengths)
            for cut in [1usize, 2, 3] { if bytes.len() > cut { byte_inputs.push(("truncated".into(), bytes[..bytes.len() - cut].to_vec())); } }
            let mut e = bytes.clone(); e.extend_from_slice(&[0xc1, 0xff, 0x00][..1 + rng.below(3) as usize]); byte_inputs.push(("trailing".into(), e));
            for _ in 0..3 {
                let mut m = bytes.clone();
                let pos = if rng.chance(2, 3) { rng.below(m.len().min(6) as u64) as usize } else { rng.below(m.len() as u64) as usize };
                m[pos] = match rng.below(4) { 0 => m[pos].wrapping_add(1), 1 => m[pos].wrapping_sub(1), 2 => *rng.pick(&[0xc0u8, 0xc1, 0xc4, 0xca, 0xcb, 0xcc, 0xd0, 0xd4, 0xd9, 0xdc, 0xde, 0xc7, 0x80, 0x90, 0xa0, 0xe0, 0xff, 0x7f]), _ => rng.below(256) as u8 };
                byte_inputs.push(("one-byte-replaced".into(), m));
            }
        }
    }
    // every leading byte alone, and followed by zeros / ones / small counts (all markers incl. floats, extension types, 0xc1)
    for b in 0..=255u8 {
        byte_inputs.push(("marker-alone".into(), vec![b]));
        for fill in [0u8, 1, 2, 0x7f, 0x80, 0xa1, 0xff] { let mut v = vec![b]; v.extend(std::iter::repeat(fill).take(9)); byte_inputs.push(("marker-filled".into(), v)); }
        byte_inputs.push(("marker-in-seq".into(), vec![0x92, b, 0x01, 0x02, 0x03, 0x04, 0x05, 0x06, 0x07, 0x08, 0x09]));
    }
    byte_inputs.push(("empty".into(), vec![]));
    // invalid UTF-8 behind a string header: the reader hands the bytes over as a byte string
    for s in [vec![0xa1u8, 0xff], vec![0xa2, 0xc3, 0x28], vec![0xa3, 0xe2, 0x82, 0xac], vec![0xa2, 0xe2, 0x82], vec![0xd9, 0x02, 0xc0, 0xaf], vec![0xa4, 0xf0, 0x9f, 0x98, 0x80], vec![0xa3, 0xed, 0xa0, 0x80]] { byte_inputs.push(("utf8".into(), s)); }
    for _ in 0..(if thorough { 20_000 } else { 2_000 }) { let l = 1 + rng.below(12) as usize; byte_inputs.push(("random-bytes".into(), (0..l).map(|_| rng.below(256) as u8).collect())); }
    for (cls, b) in byte_inputs {
        let imp = dec_imp(&b);
        out.count(&format!("c15:mp:decode:{cls}:{}", if imp.get("err").is_some() { "refused" } else { "accepted" }));
        cases.push((json!({"op":"mp_decode","fam":"c15.mp","cls":format!("dec-{cls}"),"hex":hex(&b),"nt":true}), imp));
    }
    // real structures: the document behind the msgpack bytes of a payload is the document serde_json prints for the same structure
    // real structures: the bytes of every proof value, read by the model and by the generic reader, are the same tree; that tree
    // written again (by the library's writer and by the model's) is the same bytes: real payloads lie in the fragment, in the writer's form
    for (kind, bytes, _) in real {
        out.count(&format!("c15:mp:real:{kind}"));
        let Ok(v) = msgpack_decode::<Mv>(bytes) else { out.oracle_fail("a real proof value is not read by the generic reader", &json!({"fam":"c15.mp","sig":"","hex":hex(bytes)}), &Value::Null); continue };
        if msgpack_encode(&v).ok().as_deref() != Some(&bytes[..]) {
            out.oracle_fail("a real proof value is not the writer's form of the tree it reads as", &json!({"fam":"c15.mp","sig":"","hex":hex(bytes)}), &tree(&v));
        }
        cases.push((json!({"op":"mp_decode","fam":"c15.mp","cls":format!("real-{kind}"),"hex":hex(bytes),"nt":true}), tree(&v)));
        cases.push((json!({"op":"mp_encode","fam":"c15.mp","cls":format!("real-{kind}"),"v":tree(&v),"nt":true}), json!(hex(bytes))));
    }
    // whole proof-value texts
    for (cls, t, imp) in pv_texts {
        out.count(&format!("c15:mp:pv-text:{cls}:{}", if imp.get("err").is_some() { "refused" } else { "accepted" }));
        cases.push((json!({"op":"pv_read","fam":"c15.mp","cls":format!("pv-{cls}"),"s":t,"nt":true}), imp.clone()));
    }
    cases
}

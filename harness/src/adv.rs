//! Adversarial prover built directly on the CL proof builder (`anoncreds::cl`): combines credentials of two
//! holders (two link secrets) in one proof — the honest prover API cannot be asked to do that.
use crate::cast::*;
use crate::rng::Rng;
use crate::scen::Engine;
use anoncreds::cl::{CredentialPublicKey, Issuer as ClIssuer, Prover as ClProver, Verifier as ClVerifier};
use anoncreds::types::PresentationRequest;
use serde_json::{json, Value};

pub fn mix_two_holders(eng: &mut Engine, rng: &mut Rng, register_common: bool) -> Option<(Value, Vec<Value>, Value, PresentationRequest)> {
    let ia = eng.cast.cred("a_alice");
    let ib = eng.cast.cred("a_bob");
    let d = &eng.cast.w.defs[eng.cast.creds[ia].def];
    let nonce = format!("{}", 1000 + rng.below(1_000_000_000));
    let req: PresentationRequest = serde_json::from_value(json!({"nonce": nonce, "name":"r","version":"1.0","ver":"2.0",
        "requested_attributes": {"a1": {"name": "name"}}, "requested_predicates": {"p1": {"name": "age", "p_type": ">=", "p_value": 65}}})).ok()?;
    let mut cs = ClIssuer::new_credential_schema_builder().ok()?;
    for a in &d.schema.attr_names.0 {
        cs.add_attr(&norm(a)).ok()?;
    }
    let cs = cs.finalize().ok()?;
    let mut ncs = ClIssuer::new_non_credential_schema_builder().ok()?;
    ncs.add_attr("master_secret").ok()?;
    let ncs = ncs.finalize().ok()?;
    let pk = CredentialPublicKey::build_from_parts(&d.cd.value.primary, None).ok()?;
    let mut pb = ClProver::new_proof_builder().ok()?;
    if register_common {
        pb.add_common_attribute("master_secret").ok()?;
    }
    for (ci, reveal, pred) in [(ia, Some("name"), None), (ib, None, Some(("age", "GE", 65)))] {
        let h = &eng.cast.creds[ci];
        let ls = &eng.cast.holders[h.holder];
        let dec: String = ls.try_clone().ok()?.try_into().ok()?;
        let mut vb = ClIssuer::new_credential_values_builder().ok()?;
        for (k, v) in h.cred.values.0.iter() {
            vb.add_dec_known(&norm(k), &v.encoded).ok()?;
        }
        vb.add_dec_hidden("master_secret", &dec).ok()?;
        let mut sb = ClVerifier::new_sub_proof_request_builder().ok()?;
        if let Some(r) = reveal {
            sb.add_revealed_attr(r).ok()?;
        }
        if let Some((x, t, v)) = pred {
            sb.add_predicate(x, t, v).ok()?;
        }
        pb.add_sub_proof_request(&sb.finalize().ok()?, &cs, &ncs, &h.cred.signature, &vb.finalize().ok()?, &pk, None, None).ok()?;
    }
    let proof = pb.finalize(req.value().nonce.as_native()).ok()?;
    let ident = json!({"schema_id": d.sid.0, "cred_def_id": d.cid.0, "rev_reg_id": null, "timestamp": null});
    let enc = eng.cast.creds[ia].cred.values.0["name"].encoded.clone();
    let pj = json!({"proof": serde_json::to_value(&proof).ok()?,
        "requested_proof": {"revealed_attrs": {"a1": {"sub_proof_index": 0, "raw": "Alice", "encoded": enc}}, "self_attested_attrs": {}, "unrevealed_attrs": {}, "predicates": {"p1": {"sub_proof_index": 1}}},
        "identifiers": [ident.clone(), ident]});
    eng.session += 2;
    eng.uid += 2;
    // with a registered common attribute the builder uses one blinding for both, but the secrets differ: responses differ either way
    let ghosts = vec![
        json!({"cred": eng.cast.ghost_cred(ia), "nrp": null, "ms": [0, eng.session - 1], "intact": true, "uid": eng.uid - 1}),
        json!({"cred": eng.cast.ghost_cred(ib), "nrp": null, "ms": [1, if register_common { eng.session - 1 } else { eng.session }], "intact": true, "uid": eng.uid}),
    ];
    let agg = json!({"nonce": nonce, "bound": [[eng.uid - 1, false], [eng.uid, false]], "intact": true});
    Some((pj, ghosts, agg, req))
}

//! C18: concurrent workloads on the FFI object-handle store through the exported C functions; every call is
//! stamped with invocation/response tickets from one atomic counter; the recorded history is judged by the
//! model's linearizability checker (`store_history`).
use crate::ffi::*;
use crate::out::Out;
use crate::rng::Rng;
use crate::world::World;
use serde_json::{json, Value};
use std::ffi::CString;
use std::os::raw::c_char;
use std::sync::atomic::{AtomicU64, AtomicUsize, Ordering};
use std::sync::Arc;

extern "C" {
    fn anoncreds_schema_from_json(json: ByteBuffer, result_p: *mut ObjectHandle) -> ErrorCode;
    fn anoncreds_presentation_request_from_json(json: ByteBuffer, result_p: *mut ObjectHandle) -> ErrorCode;
    fn anoncreds_revocation_registry_definition_from_json(json: ByteBuffer, result_p: *mut ObjectHandle) -> ErrorCode;
    fn anoncreds_revocation_registry_definition_get_attribute(handle: ObjectHandle, name: *const c_char, result_p: *mut *const c_char) -> ErrorCode;
    fn anoncreds_credential_get_attribute(handle: ObjectHandle, name: *const c_char, result_p: *mut *const c_char) -> ErrorCode;
}

const TY_SCHEMA: u64 = 0;
const TY_PRESREQ: u64 = 1;
const TY_REVREG: u64 = 2;
const TY_CRED: u64 = 3;

fn type_tag(name: &str) -> Option<u64> {
    match name {
        "Schema" => Some(TY_SCHEMA),
        "PresentationRequest" => Some(TY_PRESREQ),
        "RevocationRegistryDefinition" => Some(TY_REVREG),
        "Credential" => Some(TY_CRED),
        _ => None,
    }
}

fn obj_json(ty: u64, id: u64, revreg_template: &Value) -> Vec<u8> {
    let v = match ty {
        TY_SCHEMA => json!({"name": format!("obj{id}"), "version": "1.0", "attrNames": ["a"], "issuerId": "did:web:x"}),
        TY_PRESREQ => json!({"nonce": "1", "name": format!("obj{id}"), "version": "1.0", "requested_attributes": {"a": {"name": "n"}}, "requested_predicates": {}}),
        _ => {
            let mut t = revreg_template.clone();
            t["value"]["tailsLocation"] = json!(format!("obj{id}"));
            t
        }
    };
    serde_json::to_vec(&v).unwrap()
}

fn obj_id_from_json(ty: u64, bytes: &[u8]) -> Option<u64> {
    let v: Value = serde_json::from_slice(bytes).ok()?;
    let s = match ty {
        TY_REVREG => v["value"]["tailsLocation"].as_str()?,
        _ => v["name"].as_str()?,
    };
    s.strip_prefix("obj")?.parse().ok()
}

struct Shared {
    ticket: AtomicU64,
    /// published handles: slot -> handle (0 = not yet published)
    slots: Vec<AtomicUsize>,
    /// creator's (ty, obj id, immortal) per slot, fixed before the run
    meta: Vec<(u64, u64, bool)>,
    revreg: Value,
}

fn tick(s: &Shared) -> u64 {
    s.ticket.fetch_add(1, Ordering::SeqCst)
}

unsafe fn create(s: &Shared, ty: u64, id: u64) -> usize {
    let mut bytes = obj_json(ty, id, &s.revreg);
    let buf = ByteBuffer { len: bytes.len() as i64, data: bytes.as_mut_ptr() };
    let mut h: ObjectHandle = 0;
    let rc = match ty {
        TY_SCHEMA => anoncreds_schema_from_json(buf, &mut h),
        TY_PRESREQ => anoncreds_presentation_request_from_json(buf, &mut h),
        _ => anoncreds_revocation_registry_definition_from_json(buf, &mut h),
    };
    if rc != 0 {
        0
    } else {
        h
    }
}

#[derive(Clone)]
enum Step {
    Create(usize),       // slot
    Json(usize),         // slot (or bogus when >= slots.len())
    Type(usize),
    Use(usize, u64),     // slot, wanted type
    Free(usize),
    Yield,
}

fn run_thread(s: Arc<Shared>, tid: u64, prog: Vec<Step>) -> Vec<Value> {
    let mut ev = vec![];
    let bogus = |slot: usize| -> usize { (usize::MAX / 2) + slot };
    for st in prog {
        match st {
            Step::Yield => std::thread::yield_now(),
            Step::Create(slot) => {
                let (ty, id, _) = s.meta[slot];
                let inv = tick(&s);
                let h = unsafe { create(&s, ty, id) };
                let res = tick(&s);
                s.slots[slot].store(h, Ordering::SeqCst);
                ev.push(json!({"thread": tid, "op": "create", "handle": h, "want_ty": null, "inv": inv, "res": res, "result": if h != 0 { "ok" } else { "invalid" }, "ty": ty, "obj": id}));
            }
            Step::Json(slot) | Step::Type(slot) | Step::Use(slot, _) | Step::Free(slot) => {
                let h = if slot < s.slots.len() { s.slots[slot].load(Ordering::SeqCst) } else { bogus(slot) };
                if h == 0 {
                    continue; // not published yet
                }
                match st {
                    Step::Json(_) => {
                        let mut buf = ByteBuffer { len: 0, data: std::ptr::null_mut() };
                        let inv = tick(&s);
                        let rc = unsafe { anoncreds_object_get_json(h, &mut buf) };
                        let res = tick(&s);
                        if rc == 0 {
                            let bytes = unsafe { std::slice::from_raw_parts(buf.data, buf.len as usize) }.to_vec();
                            unsafe { anoncreds_buffer_free(buf) };
                            // which object is it? try each type's id field
                            let v: Value = serde_json::from_slice(&bytes).unwrap_or(Value::Null);
                            let ty = if v.get("attrNames").is_some() { TY_SCHEMA } else if v.get("requested_attributes").is_some() { TY_PRESREQ } else { TY_REVREG };
                            ev.push(json!({"thread": tid, "op": "json", "handle": h, "want_ty": null, "inv": inv, "res": res, "result": "ok", "ty": ty, "obj": obj_id_from_json(ty, &bytes)}));
                        } else {
                            ev.push(json!({"thread": tid, "op": "json", "handle": h, "want_ty": null, "inv": inv, "res": res, "result": "invalid", "ty": null, "obj": null}));
                        }
                    }
                    Step::Type(_) => {
                        let mut p: *const c_char = std::ptr::null();
                        let inv = tick(&s);
                        let rc = unsafe { anoncreds_object_get_type_name(h, &mut p) };
                        let res = tick(&s);
                        if rc == 0 {
                            let name = unsafe { take_string(p) };
                            ev.push(json!({"thread": tid, "op": "type", "handle": h, "want_ty": null, "inv": inv, "res": res, "result": "ok", "ty": type_tag(&name), "obj": null}));
                        } else {
                            ev.push(json!({"thread": tid, "op": "type", "handle": h, "want_ty": null, "inv": inv, "res": res, "result": "invalid", "ty": null, "obj": null}));
                        }
                    }
                    Step::Use(_, want) => {
                        let mut p: *const c_char = std::ptr::null();
                        let inv = tick(&s);
                        let rc = unsafe {
                            if want == TY_REVREG {
                                let n = CString::new("tails_location").unwrap();
                                anoncreds_revocation_registry_definition_get_attribute(h, n.as_ptr(), &mut p)
                            } else {
                                let n = CString::new("schema_id").unwrap();
                                anoncreds_credential_get_attribute(h, n.as_ptr(), &mut p)
                            }
                        };
                        let res = tick(&s);
                        if rc == 0 {
                            let val = unsafe { take_string(p) };
                            let obj = val.strip_prefix("obj").and_then(|x| x.parse::<u64>().ok());
                            ev.push(json!({"thread": tid, "op": "use", "handle": h, "want_ty": want, "inv": inv, "res": res, "result": "ok", "ty": want, "obj": obj}));
                        } else {
                            // the error slot of the library is process-global, so the kind of a failure cannot be read back reliably under
                            // concurrency; it is determined by construction instead: wrong-typed uses are issued on handles that are never
                            // freed (must be a type error), right-typed uses can only fail because the handle is invalid
                            let creator_ty = if slot < s.meta.len() { Some(s.meta[slot].0) } else { None };
                            let result = if creator_ty.is_some() && creator_ty != Some(want) { "type_error" } else { "invalid" };
                            ev.push(json!({"thread": tid, "op": "use", "handle": h, "want_ty": want, "inv": inv, "res": res, "result": result, "ty": null, "obj": null}));
                        }
                    }
                    _ => {
                        let inv = tick(&s);
                        unsafe { anoncreds_object_free(h) };
                        let res = tick(&s);
                        ev.push(json!({"thread": tid, "op": "free", "handle": h, "want_ty": null, "inv": inv, "res": res, "result": "ok", "ty": null, "obj": null}));
                    }
                }
            }
        }
    }
    ev
}

/// creation bursts: all threads allocate handles at the same instant (released by one flag), then read their own objects back and
/// free them. The handles of one burst must be pairwise different, each must resolve to the object its creator stored, and a
/// freed handle must no longer resolve. Small bursts are also handed to the model's history checker.
fn burst(revreg: &Value, n_threads: usize, per_thread: usize, first_obj: u64, record: bool) -> (Vec<Value>, Vec<String>) {
    use std::sync::atomic::AtomicBool;
    let shared = Arc::new(Shared { ticket: AtomicU64::new(1), slots: vec![], meta: vec![], revreg: revreg.clone() });
    let go = Arc::new(AtomicBool::new(false));
    let threads: Vec<_> = (0..n_threads)
        .map(|t| {
            let s = shared.clone();
            let go = go.clone();
            std::thread::spawn(move || {
                let mut ev = vec![];
                let mut problems: Vec<String> = vec![];
                let mut mine: Vec<(usize, u64)> = Vec::with_capacity(per_thread);
                while !go.load(Ordering::Acquire) {
                    std::hint::spin_loop();
                }
                for k in 0..per_thread {
                    let id = first_obj + (t * per_thread + k) as u64;
                    let inv = tick(&s);
                    let h = unsafe { create(&s, TY_SCHEMA, id) };
                    let res = tick(&s);
                    if record {
                        ev.push(json!({"thread": t, "op": "create", "handle": h, "want_ty": null, "inv": inv, "res": res, "result": if h != 0 { "ok" } else { "invalid" }, "ty": TY_SCHEMA, "obj": id}));
                    }
                    mine.push((h, id));
                }
                for (h, id) in &mine {
                    let mut buf = ByteBuffer { len: 0, data: std::ptr::null_mut() };
                    let inv = tick(&s);
                    let rc = unsafe { anoncreds_object_get_json(*h, &mut buf) };
                    let res = tick(&s);
                    let got = if rc == 0 {
                        let bytes = unsafe { std::slice::from_raw_parts(buf.data, buf.len as usize) }.to_vec();
                        unsafe { anoncreds_buffer_free(buf) };
                        obj_id_from_json(TY_SCHEMA, &bytes)
                    } else {
                        None
                    };
                    if got != Some(*id) && problems.len() < 3 {
                        problems.push(format!("handle {h} created for object {id} resolves to {got:?}"));
                    }
                    if record {
                        ev.push(json!({"thread": t, "op": "json", "handle": h, "want_ty": null, "inv": inv, "res": res, "result": if rc == 0 { "ok" } else { "invalid" }, "ty": if rc == 0 { json!(TY_SCHEMA) } else { Value::Null }, "obj": got}));
                    }
                }
                (ev, problems, mine)
            })
        })
        .collect();
    go.store(true, Ordering::Release);
    let mut events = vec![];
    let mut problems = vec![];
    let mut all: Vec<(usize, u64)> = vec![];
    for t in threads {
        if let Ok((e, p, m)) = t.join() {
            events.extend(e);
            problems.extend(p);
            all.extend(m);
        }
    }
    let mut hs: Vec<usize> = all.iter().map(|x| x.0).collect();
    hs.sort();
    if hs.iter().any(|h| *h == 0) {
        problems.push("create returned handle 0".into());
    }
    if let Some(w) = hs.windows(2).find(|w| w[0] == w[1]) {
        problems.push(format!("handle {} returned by two creations", w[0]));
    }
    // free everything, then nothing may resolve any more
    for (h, _) in &all {
        unsafe { anoncreds_object_free(*h) };
    }
    for (h, _) in all.iter().take(2000) {
        let mut buf = ByteBuffer { len: 0, data: std::ptr::null_mut() };
        if unsafe { anoncreds_object_get_json(*h, &mut buf) } == 0 {
            unsafe { anoncreds_buffer_free(buf) };
            problems.push(format!("handle {h} still resolves after it was freed"));
            break;
        }
    }
    events.sort_by_key(|e| e["inv"].as_u64());
    (events, problems)
}

pub fn run(w: &World, rng: &mut Rng, thorough: bool, out: &mut Out) -> Vec<(Value, Value)> {
    let mut cases = vec![];
    let revreg = serde_json::to_value(&w.def("R").regs[0].def).unwrap();
    // creation bursts first (object ids from 10^9 up, disjoint from the mixed workloads below)
    let mut first_obj = 1_000_000_000u64;
    let bursts: Vec<(usize, usize, bool)> = if thorough {
        (0..40).map(|i| (if i % 2 == 0 { 16 } else { 8 }, 20_000, false)).chain((0..20).map(|_| (16, 60, true))).collect()
    } else {
        vec![(16, 20_000, false), (8, 20_000, false), (16, 20_000, false), (16, 60, true), (8, 100, true), (16, 40, true)]
    };
    for (bi, (nt, per, record)) in bursts.into_iter().enumerate() {
        let (events, problems) = burst(&revreg, nt, per, first_obj, record);
        first_obj += (nt * per) as u64;
        out.count_n("c18:burst:creations", (nt * per) as u64);
        out.count(&format!("c18:burst:threads:{nt}"));
        for p in problems.iter().take(2) {
            out.oracle_fail("handle store: creation burst", &json!({"fam":"c18.burst","sig":"","burst":bi,"threads":nt,"per_thread":per}), &json!({"problem": p}));
        }
        if problems.is_empty() && !record {
            out.oracle_only += 1;
        }
        if record {
            out.count_n("c18:events", events.len() as u64);
            cases.push((json!({"op":"store_history","fam":"c18.history","events":events,"threads":nt,"nt":true}), json!(true)));
        }
    }
    let workloads = if thorough { 1500 } else { 120 };
    let mut next_obj = 1u64;
    for wi in 0..workloads {
        let n_threads = *rng.pick(&[2usize, 2, 3, 4, 8, 16]);
        let n_slots = 2 + rng.below(10) as usize;
        let per_thread = if thorough { 120 } else { 40 };
        // slot metadata: type, object id, immortal?
        let meta: Vec<(u64, u64, bool)> = (0..n_slots)
            .map(|_| {
                let m = (rng.below(3), next_obj, rng.chance(1, 3));
                next_obj += 1;
                m
            })
            .collect();
        // programs: each slot is created by exactly one thread
        let mut progs: Vec<Vec<Step>> = vec![vec![]; n_threads];
        for slot in 0..n_slots {
            let t = rng.below(n_threads as u64) as usize;
            let pos = rng.below(progs[t].len() as u64 + 1) as usize;
            progs[t].insert(pos, Step::Create(slot));
        }
        for t in 0..n_threads {
            for _ in 0..per_thread {
                let slot = if rng.chance(1, 12) { n_slots + rng.below(3) as usize } else { rng.below(n_slots as u64) as usize };
                let in_range = slot < n_slots;
                let immortal = in_range && meta[slot].2;
                let st = match rng.below(10) {
                    0 | 1 | 2 => Step::Json(slot),
                    3 | 4 => Step::Type(slot),
                    5 | 6 => {
                        // right-typed use on any slot of that type; wrong-typed use only on immortal slots (see run_thread)
                        if in_range && meta[slot].0 == TY_REVREG {
                            Step::Use(slot, TY_REVREG)
                        } else if immortal {
                            Step::Use(slot, if rng.chance(1, 2) { TY_REVREG } else { TY_CRED })
                        } else if !in_range {
                            Step::Use(slot, TY_REVREG)
                        } else {
                            Step::Json(slot)
                        }
                    }
                    7 | 8 => {
                        if immortal {
                            Step::Type(slot)
                        } else {
                            Step::Free(slot)
                        }
                    }
                    _ => Step::Yield,
                };
                let pos = rng.below(progs[t].len() as u64 + 1) as usize;
                progs[t].insert(pos, st);
            }
        }
        let shared = Arc::new(Shared { ticket: AtomicU64::new(1), slots: (0..n_slots).map(|_| AtomicUsize::new(0)).collect(), meta: meta.clone(), revreg: revreg.clone() });
        let handles: Vec<_> = progs.into_iter().enumerate().map(|(t, p)| { let s = shared.clone(); std::thread::spawn(move || run_thread(s, t as u64, p)) }).collect();
        let mut events: Vec<Value> = vec![];
        for h in handles {
            events.extend(h.join().unwrap_or_default());
        }
        events.sort_by_key(|e| e["inv"].as_u64());
        // clean up what is still alive (not part of the history)
        for s in &shared.slots {
            let h = s.load(Ordering::SeqCst);
            if h != 0 {
                unsafe { anoncreds_object_free(h) };
            }
        }
        let n_ev = events.len();
        out.count_n("c18:events", n_ev as u64);
        out.count(&format!("c18:threads:{n_threads}"));
        // oracle (model-independent part of C18): handles returned by create are unique and non-zero
        let mut created: Vec<u64> = events.iter().filter(|e| e["op"] == "create").map(|e| e["handle"].as_u64().unwrap_or(0)).collect();
        created.sort();
        if created.iter().any(|h| *h == 0) || created.windows(2).any(|w| w[0] == w[1]) {
            out.oracle_fail("create returned a zero or duplicate handle", &json!({"fam":"c18.history","sig":"","workload":wi}), &json!({"handles": created}));
        }
        cases.push((json!({"op":"store_history","fam":"c18.history","events":events,"threads":n_threads,"nt":true}), json!(true)));
    }
    cases
}

//! Byte-level stream for C12: mutated valid documents and random bytes into every `serde_json::from_slice::<T>`
//! the library offers (the same code the `*_from_json` C entry points run). Only "no panic" is judged.
use crate::out::Out;
use crate::rng::Rng;
use crate::scen::Engine;
use serde_json::{json, Value};

fn mutate_bytes(rng: &mut Rng, b: &mut Vec<u8>) {
    if b.is_empty() {
        b.push(rng.below(256) as u8);
        return;
    }
    for _ in 0..(1 + rng.below(3)) {
        if b.is_empty() {
            return;
        }
        let i = rng.below(b.len() as u64) as usize;
        match rng.below(6) {
            0 => b[i] = rng.below(256) as u8,
            1 => {
                b.remove(i);
            }
            2 => b.insert(i, *rng.pick(&[b'{', b'}', b'[', b']', b'"', b',', b':', b'0', b'-', b'e', b'\\', 0, 0xff])),
            3 => {
                let j = rng.below(b.len() as u64) as usize;
                b.swap(i, j);
            }
            4 => b.truncate(i),
            _ => {
                let chunk: Vec<u8> = b[i..(i + 8).min(b.len())].to_vec();
                for (k, c) in chunk.into_iter().enumerate() {
                    b.insert(i + k, c);
                }
            }
        }
    }
}

/// structural mutation: replace a random value by one of another type
fn retype(rng: &mut Rng, v: &mut Value, depth: u32) {
    match v {
        Value::Object(m) if !m.is_empty() && depth < 6 && rng.chance(3, 4) => {
            let ks: Vec<String> = m.keys().cloned().collect();
            let k = rng.pick(&ks).clone();
            retype(rng, m.get_mut(&k).unwrap(), depth + 1);
        }
        Value::Array(a) if !a.is_empty() && depth < 6 && rng.chance(3, 4) => {
            let i = rng.below(a.len() as u64) as usize;
            retype(rng, &mut a[i], depth + 1);
        }
        _ => {
            *v = match rng.below(9) {
                0 => Value::Null,
                1 => json!(-1),
                2 => json!(18446744073709551615u64),
                3 => json!(1.5e300),
                4 => json!(""),
                5 => json!([]),
                6 => json!({}),
                7 => json!("99999999999999999999999999999999999999999999999999999999999999999999999999999999999999999999"),
                _ => json!(true),
            }
        }
    }
}

macro_rules! try_parse {
    ($t:ty, $bytes:expr) => {
        std::panic::catch_unwind(|| {
            let _ = serde_json::from_slice::<$t>($bytes);
        })
        .is_ok()
    };
}


fn replacements() -> Vec<Value> {
    vec![Value::Null, json!(-1), json!(18446744073709551615u64), json!(1.5e300), json!(""), json!([]), json!({}), json!([{}]), json!({"": {}}), json!({"$and": {}}), json!({"$in": {}}),
        json!("99999999999999999999999999999999999999999999999999999999999999999999999999999999999999999999"), json!(true), json!("\u{0}"), json!(["x", 1, null])]
}

fn all_paths(v: &Value, here: Vec<String>, acc: &mut Vec<Vec<String>>) {
    if !here.is_empty() {
        acc.push(here.clone());
    }
    match v {
        Value::Object(m) => {
            for (k, x) in m {
                let mut p = here.clone();
                p.push(k.clone());
                all_paths(x, p, acc);
            }
        }
        Value::Array(a) => {
            for (i, x) in a.iter().enumerate().take(6) {
                let mut p = here.clone();
                p.push(i.to_string());
                all_paths(x, p, acc);
            }
        }
        _ => {}
    }
}

fn at_path<'a>(v: &'a mut Value, path: &[String]) -> Option<&'a mut Value> {
    let mut cur = v;
    for k in path {
        cur = match cur {
            Value::Object(m) => m.get_mut(k)?,
            Value::Array(a) => a.get_mut(k.parse::<usize>().ok()?)?,
            _ => return None,
        };
    }
    Some(cur)
}

fn feed(target: &str, bytes: &[u8], out: &mut Out, seen: &mut std::collections::HashMap<String, u64>) {
    use anoncreds::data_types::cred_def::CredentialDefinition;
    use anoncreds::data_types::schema::Schema;
    use anoncreds::types::*;
    let bytes = &bytes.to_vec();
    let ok = match target {
        "Schema" => try_parse!(Schema, bytes),
        "CredentialDefinition" => try_parse!(CredentialDefinition, bytes),
        "CredentialDefinitionPrivate" => try_parse!(CredentialDefinitionPrivate, bytes),
        "CredentialKeyCorrectnessProof" => try_parse!(CredentialKeyCorrectnessProof, bytes),
        "RevocationRegistryDefinition" => try_parse!(RevocationRegistryDefinition, bytes),
        "RevocationRegistryDefinitionPrivate" => try_parse!(RevocationRegistryDefinitionPrivate, bytes),
        "RevocationStatusList" => try_parse!(RevocationStatusList, bytes),
        "Credential" => try_parse!(Credential, bytes),
        "W3CCredential" => try_parse!(anoncreds::data_types::w3c::credential::W3CCredential, bytes),
        "PresentationRequest" => try_parse!(PresentationRequest, bytes),
        "CredentialRevocationState" => try_parse!(CredentialRevocationState, bytes),
        "Presentation" => try_parse!(Presentation, bytes),
        "W3CPresentation" => try_parse!(anoncreds::data_types::w3c::presentation::W3CPresentation, bytes),
        "CredentialOffer" => try_parse!(CredentialOffer, bytes),
        "CredentialRequest" => try_parse!(CredentialRequest, bytes),
        "CredentialRequestMetadata" => try_parse!(CredentialRequestMetadata, bytes),
        _ => true,
    };
    out.count(&format!("c12:parse:{target}"));
    out.oracle_only += 1;
    if !ok {
        let at = crate::last_panic();
        // where the panic happened is the signature: the known finding is the big-number parser of the external amcl crate
        let file = at.rsplit_once(':').map(|x| x.0.to_string()).unwrap_or_default();
        let sig = format!("C12:parse:panic-at:{file}");
        *seen.entry(sig.clone()).or_insert(0u64) += 1;
        if seen[&sig] <= 2 {
            out.oracle_fail("deserialiser panicked", &json!({"fam":"c12.parse","sig":sig,"type": target, "at": at, "text": String::from_utf8_lossy(bytes).chars().take(4000).collect::<String>(), "bytes_hex": bytes.iter().map(|b| format!("{b:02x}")).collect::<String>()}), &json!({"v":"P"}));
        }
    }
}

pub fn parse_fuzz(eng: &mut Engine, rng: &mut Rng, n: u64, out: &mut Out) {
    use anoncreds::data_types::cred_def::CredentialDefinition;
    use anoncreds::data_types::schema::Schema;
    use anoncreds::types::*;
    // seeds: one valid document per object type
    let w = eng.cast.w.clone();
    let d = w.def("R");
    let plan = crate::scen::gen_honest_plan(rng, &eng.cast, false, true);
    let built = eng.build_legacy(&plan).ok();
    let planw = crate::scen::gen_honest_plan(rng, &eng.cast, true, false);
    let builtw = eng.build_w3c(&planw).ok();
    let c = &eng.cast.creds[eng.cast.cred("r1_alice")];
    let mut seeds: Vec<(&str, Value)> = vec![
        ("Schema", serde_json::to_value(&d.schema).unwrap()),
        ("CredentialDefinition", serde_json::to_value(&d.cd).unwrap()),
        ("CredentialDefinitionPrivate", serde_json::to_value(&d.cdp).unwrap()),
        ("CredentialKeyCorrectnessProof", serde_json::to_value(&d.kcp).unwrap()),
        ("RevocationRegistryDefinition", serde_json::to_value(&d.regs[0].def).unwrap()),
        ("RevocationRegistryDefinitionPrivate", serde_json::to_value(&d.regs[0].def_priv).unwrap()),
        ("RevocationStatusList", serde_json::to_value(&eng.cast.regs[0].lists[1]).unwrap()),
        ("Credential", serde_json::to_value(&c.cred).unwrap()),
        ("W3CCredential", serde_json::to_value(&c.w3c).unwrap()),
        ("PresentationRequest", plan.request_json()),
    ];
    if let Some(st) = eng.cast.rev_state(eng.cast.cred("r1_alice"), 0) {
        seeds.push(("CredentialRevocationState", serde_json::to_value(&st).unwrap()));
    }
    if let Some(b) = &built {
        seeds.push(("Presentation", b.pres.clone()));
    }
    if let Some(b) = &builtw {
        seeds.push(("W3CPresentation", serde_json::to_value(&b.pres).unwrap()));
    }
    {
        let offer = anoncreds::issuer::create_credential_offer(d.sid.clone(), d.cid.clone(), &d.kcp).unwrap();
        let (req, meta) = anoncreds::prover::create_credential_request(Some("e"), None, &d.cd, &eng.cast.holders[0], "ls", &offer).unwrap();
        seeds.push(("CredentialOffer", serde_json::to_value(&offer).unwrap()));
        seeds.push(("CredentialRequest", serde_json::to_value(&req).unwrap()));
        seeds.push(("CredentialRequestMetadata", serde_json::to_value(&meta).unwrap()));
    }
    // restriction-rich requests: every operator, nesting, the legacy list form, null tags, internal tags
    for (k, restr) in [
        json!({"$and": [{"cred_def_id": d.cid.0}, {"$or": [{"schema_name": {"$in": ["gvt", "x"]}}, {"$not": {"issuer_id": {"$neq": "did:web:x"}}}]}, {"attr::name::value": {"$like": "A%"}}, {"attr::age::marker": "1"}]}),
        json!([{"cred_def_id": d.cid.0, "schema_id": null}, {"schema_version": {"$gte": "1.0"}}, {}]),
        json!({"schema_id": {"$gt": "a"}, "schema_issuer_did": {"$lt": "z"}, "issuer_did": {"$lte": "z"}, "rev_reg_id": {"$neq": ""}}),
    ].into_iter().enumerate() {
        let mut r = plan.request_json();
        if let Some(a) = r["requested_attributes"].as_object_mut() {
            if let Some((_, v)) = a.iter_mut().next() {
                v["restrictions"] = restr.clone();
            }
        }
        r["requested_predicates"][format!("fz{k}")] = json!({"name": "age", "p_type": ">=", "p_value": 18, "restrictions": restr, "non_revoked": {"from": 1, "to": 2}});
        r["non_revoked"] = json!({"from": 5});
        seeds.push(("PresentationRequest", r));
    }
    let types: Vec<&str> = seeds.iter().map(|(t, _)| *t).collect();
    let mut seen: std::collections::HashMap<String, u64> = std::collections::HashMap::new();
    // exhaustive pass: every position of every seed document (at most `cap` per seed, spread evenly) replaced by every value of
    // `REPLACEMENTS`; the random passes below then add byte-level damage and deeper combinations
    let mut work: Vec<(&str, Vec<u8>)> = vec![];
    let cap = if n > 100_000 { 4000 } else { 250 };
    for (ty, seed) in &seeds {
        let mut paths = vec![];
        all_paths(seed, vec![], &mut paths);
        let step = (paths.len() / cap).max(1);
        for path in paths.iter().step_by(step) {
            for rep in replacements() {
                let mut v = seed.clone();
                if let Some(slot) = at_path(&mut v, path) {
                    *slot = rep;
                    work.push((*ty, serde_json::to_vec(&v).unwrap()));
                }
            }
        }
    }
    out.count_n("c12:parse:exhaustive-position-value", work.len() as u64);
    let n_work = work.len() as u64;
    for i in 0..(n + n_work) {
        if i < n_work {
            let (ty, bytes) = &work[i as usize];
            feed(ty, bytes, out, &mut seen);
            continue;
        }
        let (ty, seed) = &seeds[(i % seeds.len() as u64) as usize];
        let bytes: Vec<u8> = match rng.below(4) {
            0 => {
                let mut v = seed.clone();
                retype(rng, &mut v, 0);
                serde_json::to_vec(&v).unwrap()
            }
            1 | 2 => {
                let mut b = serde_json::to_vec(seed).unwrap();
                mutate_bytes(rng, &mut b);
                b
            }
            _ => (0..rng.below(64)).map(|_| rng.below(256) as u8).collect(),
        };
        // feed the bytes to the type they were derived from and to one other type
        for target in [*ty, *rng.pick(&types)] {
            feed(target, &bytes, out, &mut seen);
        }
    }
}

//! C08: non-revocation interval algebra and the per-credential interval checks — exact correspondence (unit hooks).
use crate::out::Out;
use crate::rng::Rng;
use serde_json::{json, Value};

#[cfg(feature = "unit_hooks")]
use anoncreds::data_types::pres_request::{AttributeInfo, NonRevokedInterval, PresentationRequestPayload};
#[cfg(feature = "unit_hooks")]
use anoncreds::data_types::rev_reg_def::RevocationRegistryDefinitionId;
#[cfg(feature = "unit_hooks")]
use std::collections::{HashMap, HashSet};

const BOUNDS: &[Option<u64>] = &[None, Some(10), Some(20), Some(30)];
const TS: &[u64] = &[0, 9, 10, 11, 19, 20, 21, 29, 30, 31, u64::MAX, 5, 25, 3];

fn all_ivls() -> Vec<Value> {
    let mut v = vec![];
    for f in BOUNDS {
        for t in BOUNDS {
            v.push(json!({"from": f, "to": t}));
        }
    }
    v
}
fn all_opt_ivls() -> Vec<Value> {
    let mut v = vec![Value::Null];
    v.extend(all_ivls());
    v
}
fn overrides() -> Vec<Value> {
    vec![
        Value::Null,
        json!([]),
        json!([["r1", [[10, 5]]]]),
        json!([["r1", [[20, 3]]]]),
        json!([["r2", [[10, 5]]]]),
        json!([["r1", [[10, 25], [30, 0]]]]),
        json!([["r1", [[10, 20], [20, 30]]]]),
    ]
}

pub fn gen(rng: &mut Rng, thorough: bool, out: &mut Out) -> Vec<Value> {
    let mut cases = vec![];
    if !cfg!(feature = "unit_hooks") {
        return cases;
    }
    let ivls = all_ivls();
    let opts = all_opt_ivls();
    let ovrs = overrides();
    for a in &ivls {
        for b in &ivls {
            cases.push(json!({"op":"ivl_merge","fam":"c08.merge","a":a,"b":b,"nt":true}));
        }
        for t in TS {
            cases.push(json!({"op":"ivl_valid","fam":"c08.valid","a":a,"t":t,"nt":true}));
        }
        for m in [json!([]), json!([[10, 5]]), json!([[20, 3]]), json!([[10, 25], [30, 0]]), json!([[10, 20], [20, 30]])] {
            cases.push(json!({"op":"ivl_override","fam":"c08.override","a":a,"map":m,"nt":true}));
        }
    }
    // folds of up to three locals (exhaustive: 17 + 17^2 + 17^3)
    cases.push(json!({"op":"ivl_fold","fam":"c08.fold","locals":[],"nt":true}));
    for a in &opts {
        cases.push(json!({"op":"ivl_fold","fam":"c08.fold","locals":[a],"nt":true}));
        for b in &opts {
            cases.push(json!({"op":"ivl_fold","fam":"c08.fold","locals":[a,b],"nt":true}));
            for c in &opts {
                if thorough || rng.chance(1, 3) {
                    cases.push(json!({"op":"ivl_fold","fam":"c08.fold","locals":[a,b,c],"nt":true}));
                }
            }
        }
    }
    for reg in [Value::Null, json!("r1")] {
        for l in &opts {
            for g in &opts {
                for o in &ovrs {
                    cases.push(json!({"op":"ivl_requested","fam":"c08.requested","rev_reg_id":reg,"local":l,"global":g,"override":o,"nt":true}));
                }
            }
        }
    }
    // the legacy per-credential check and the prover-side interval: exhaustive in thorough, sampled in quick
    let tss: Vec<Value> = vec![Value::Null, json!(0), json!(9), json!(10), json!(15), json!(20), json!(21), json!(30), json!(31), json!(u64::MAX), json!(5), json!(3), json!(25)];
    let n_samples = if thorough { 0 } else { 40_000 };
    if thorough {
        for revocable in [true, false] {
            for a in &opts {
                for p in &opts {
                    for g in &opts {
                        for reg in [Value::Null, json!("r1")] {
                            for o in &ovrs {
                                for ts in &tss {
                                    if !revocable && !rng.chance(1, 20) {
                                        continue;
                                    }
                                    cases.push(json!({"op":"ivl_check_legacy","fam":"c08.check_legacy","revocable":revocable,"attrs":a,"preds":p,"global":g,"rev_reg_id":reg,"override":o,"timestamp":ts,"nt":true}));
                                }
                                cases.push(json!({"op":"ivl_prover","fam":"c08.prover","attrs":a,"preds":p,"global":g,"rev_reg_id":reg,"override":o,"nt":true}));
                            }
                        }
                    }
                }
            }
        }
    }
    for _ in 0..n_samples {
        let a = rng.pick(&opts).clone();
        let p = rng.pick(&opts).clone();
        let g = rng.pick(&opts).clone();
        let reg = if rng.chance(1, 5) { Value::Null } else { json!("r1") };
        let o = rng.pick(&ovrs).clone();
        let ts = rng.pick(&tss).clone();
        let revocable = !rng.chance(1, 10);
        cases.push(json!({"op":"ivl_check_legacy","fam":"c08.check_legacy","revocable":revocable,"attrs":a,"preds":p,"global":g,"rev_reg_id":reg,"override":o,"timestamp":ts,"nt":true}));
        if rng.chance(1, 4) {
            cases.push(json!({"op":"ivl_prover","fam":"c08.prover","attrs":a,"preds":p,"global":g,"rev_reg_id":reg,"override":o,"nt":true}));
        }
    }
    out.count_n("c08:generated", cases.len() as u64);
    cases
}

#[cfg(feature = "unit_hooks")]
fn ivl(v: &Value) -> Option<NonRevokedInterval> {
    if v.is_null() {
        None
    } else {
        Some(NonRevokedInterval::new(v["from"].as_u64(), v["to"].as_u64()))
    }
}
#[cfg(feature = "unit_hooks")]
fn ivl_out(i: Option<NonRevokedInterval>) -> Value {
    match i {
        None => Value::Null,
        Some(i) => json!({"from": i.from, "to": i.to}),
    }
}
#[cfg(feature = "unit_hooks")]
fn kvmap(v: &Value) -> HashMap<u64, u64> {
    v.as_array().map(|a| a.iter().map(|kv| (kv[0].as_u64().unwrap(), kv[1].as_u64().unwrap())).collect()).unwrap_or_default()
}
#[cfg(feature = "unit_hooks")]
fn ovr(v: &Value) -> Option<HashMap<RevocationRegistryDefinitionId, HashMap<u64, u64>>> {
    v.as_array().map(|a| a.iter().map(|e| (RevocationRegistryDefinitionId::new_unchecked(e[0].as_str().unwrap()), kvmap(&e[1]))).collect())
}
#[cfg(feature = "unit_hooks")]
fn payload(global: Option<NonRevokedInterval>, attrs: HashMap<String, AttributeInfo>) -> PresentationRequestPayload {
    PresentationRequestPayload {
        nonce: anoncreds::data_types::nonce::Nonce::from_dec("1").unwrap(),
        name: "r".into(),
        version: "1.0".into(),
        requested_attributes: attrs,
        requested_predicates: HashMap::new(),
        non_revoked: global,
    }
}

#[cfg(feature = "unit_hooks")]
pub fn eval(case: &Value, world: &crate::world::World) -> Value {
    use anoncreds::verif_hooks as h;
    let reg = case["rev_reg_id"].as_str().map(RevocationRegistryDefinitionId::new_unchecked);
    match case["op"].as_str().unwrap_or("") {
        "ivl_merge" => {
            let mut a = ivl(&case["a"]).unwrap();
            a.compare_and_set(&ivl(&case["b"]).unwrap());
            ivl_out(Some(a))
        }
        "ivl_override" => {
            let mut a = ivl(&case["a"]).unwrap();
            a.update_with_override(&kvmap(&case["map"]));
            ivl_out(Some(a))
        }
        "ivl_valid" => json!(ivl(&case["a"]).unwrap().is_valid(case["t"].as_u64().unwrap()).is_ok()),
        "ivl_fold" => {
            let mut attrs = HashMap::new();
            let mut refs = HashSet::new();
            for (i, l) in case["locals"].as_array().cloned().unwrap_or_default().iter().enumerate() {
                attrs.insert(format!("a{i}"), AttributeInfo { name: Some("n".into()), names: None, restrictions: None, non_revoked: ivl(l) });
                refs.insert(format!("a{i}"));
            }
            match h::requested_attributes_interval(&payload(None, attrs), &refs) {
                Ok((_, i)) => ivl_out(i),
                Err(_) => json!({"err": true}),
            }
        }
        "ivl_requested" => {
            let o = ovr(&case["override"]);
            ivl_out(h::get_requested_non_revoked_interval(reg.as_ref(), ivl(&case["local"]).as_ref(), ivl(&case["global"]).as_ref(), o.as_ref()))
        }
        "ivl_prover" => {
            let o = ovr(&case["override"]);
            let p = payload(ivl(&case["global"]), HashMap::new());
            ivl_out(h::get_non_revoked_interval(ivl(&case["attrs"]), ivl(&case["preds"]), &p, reg.as_ref(), o.as_ref()))
        }
        "ivl_check_legacy" => {
            let o = ovr(&case["override"]);
            let p = payload(ivl(&case["global"]), HashMap::new());
            let cd = if case["revocable"].as_bool().unwrap_or(false) { &world.def("R").cd } else { &world.def("A").cd };
            json!(h::check_non_revoked_interval(cd, ivl(&case["attrs"]), ivl(&case["preds"]), &p, reg.as_ref(), o.as_ref(), case["timestamp"].as_u64()).is_ok())
        }
        _ => json!({"unknown_op": true}),
    }
}

#[cfg(not(feature = "unit_hooks"))]
pub fn eval(_case: &Value, _world: &crate::world::World) -> Value {
    json!({"needs_hooks": true})
}

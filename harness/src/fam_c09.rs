//! C09 / C10: status-list histories and witness derivations on real registries (op `sl_run`).
//! Accumulators and witnesses are opaque group elements: compared as equivalence patterns (affine bytes).
use crate::out::Out;
use crate::rng::Rng;
use crate::world::{Reg, World};
use anoncreds::data_types::rev_reg_def::RevocationRegistryDefinitionId;
use anoncreds::tails::TailsFileWriter;
use anoncreds::types::*;
use anoncreds::{issuer, prover, verifier};
use serde_json::{json, Value};
use std::collections::{BTreeSet, HashMap};

fn rand_set(rng: &mut Rng, l: u64) -> Value {
    match rng.below(8) {
        0 => Value::Null,
        1 => json!([]),
        _ => {
            let n = rng.below(4);
            let mut s = BTreeSet::new();
            for _ in 0..n {
                // mostly in range, sometimes L, L+1 or far out
                let i = match rng.below(10) {
                    0 => l,
                    1 => l + 1 + rng.below(3),
                    2 => 1000,
                    _ => rng.below(l.max(1)),
                };
                s.insert(i);
            }
            json!(s.into_iter().collect::<Vec<_>>())
        }
    }
}

fn gen_run(rng: &mut Rng, l: u64, n_ops: u64, with_queries: bool) -> Value {
    let by_default = rng.chance(1, 2);
    let ts0 = if rng.chance(1, 8) { Value::Null } else { json!(10) };
    let mut ops = vec![];
    for i in 0..n_ops {
        let ts = if rng.chance(1, 5) { Value::Null } else { json!(20 + 10 * i) };
        if rng.chance(1, 8) {
            ops.push(json!({"kind":"ts_only","ts": 20 + 10 * i}));
        } else {
            ops.push(json!({"kind":"update","issued": rand_set(rng, l), "revoked": rand_set(rng, l), "ts": ts}));
        }
    }
    let mut queries = vec![];
    if with_queries {
        let n_states = n_ops + 1;
        let nq = 3 + rng.below(4);
        for _ in 0..nq {
            let k = match rng.below(12) {
                0 => 0,
                1 => l,
                2 => l + 1,
                _ => 1 + rng.below(l.saturating_sub(1).max(1)),
            };
            let state = rng.below(n_states);
            // earlier queries for the same k that can serve as the holder's previous state
            let prev: Vec<usize> = queries.iter().enumerate().filter(|(_, q): &(usize, &Value)| q["k"] == json!(k) && q["q"] != "issue").map(|(i, _)| i).collect();
            let prev_issue: Vec<usize> = queries.iter().enumerate().filter(|(_, q): &(usize, &Value)| q["k"] == json!(k) && q["q"] == "issue").map(|(i, _)| i).collect();
            match rng.below(6) {
                0 | 1 => queries.push(json!({"q":"scratch","state":state,"k":k})),
                2 => queries.push(json!({"q":"issue","state":state,"k":k})),
                3 | 4 if !prev.is_empty() => {
                    let r = *rng.pick(&prev);
                    let from = queries[r].get("to").or(queries[r].get("state")).cloned().unwrap();
                    queries.push(json!({"q":"update","from":from,"to":state,"k":k,"w":r}));
                }
                5 if !prev_issue.is_empty() => {
                    // the realistic flow: issuer witness, updated from the list the credential was issued against
                    let r = *rng.pick(&prev_issue);
                    let from = queries[r]["state"].clone();
                    queries.push(json!({"q":"update","from":from,"to":state,"k":k,"w":r}));
                }
                _ => queries.push(json!({"q":"scratch","state":state,"k":k})),
            }
        }
    }
    json!({"op":"sl_run","size":l,"by_default":by_default,"ts":ts0,"ops":ops,"queries":queries,"nt":true})
}

pub fn gen(rng: &mut Rng, thorough: bool, fam: &str, out: &mut Out) -> Vec<Value> {
    let mut cases = vec![];
    let (n_plain, n_query) = match (fam, thorough) {
        ("c09", false) => (2500, 0),
        ("c09", true) => (60_000, 0),
        ("c10", false) => (0, 60),
        (_, _) => (0, 2500),
    };
    for i in 0..n_plain {
        let l = 1 + (i % 6) as u64;
        let n_ops = if i % 10 == 9 { 5 + rng.below(20) } else { rng.below(5) };
        let mut c = gen_run(rng, l, n_ops, false);
        c["fam"] = json!("c09.run");
        cases.push(c);
    }
    // the embed clause of C09: credentials issued against any state of a history (re-issued indices, on-demand registries after
    // position 0 was touched, ...) carry the accumulator of the matching issue update
    let n_issue = match (fam, thorough) { ("c09", false) => 24, ("c09", true) => 600, _ => 0 };
    for i in 0..n_issue {
        let l = 3 + (i % 4) as u64;
        let n_ops = 1 + rng.below(4);
        let mut c = gen_run(rng, l, n_ops, false);
        let n_states = n_ops + 1;
        let mut queries = vec![];
        for _ in 0..3 {
            queries.push(json!({"q":"issue","state":rng.below(n_states),"k":1 + rng.below(l - 1)}));
        }
        // make index 0 and a revoke / re-issue of the queried index part of most histories
        if let Some(ops) = c["ops"].as_array_mut() {
            if let Some(op) = ops.first_mut() {
                if op["kind"] == "update" && rng.chance(2, 3) {
                    op["issued"] = json!([0, queries[0]["k"]]);
                    op["revoked"] = Value::Null;
                }
            }
            if ops.len() >= 2 && rng.chance(1, 2) {
                ops[0] = json!({"kind":"update","issued": null, "revoked": [queries[0]["k"]], "ts": 20});
            }
        }
        c["queries"] = json!(queries);
        c["fam"] = json!("c09.issue");
        cases.push(c);
    }
    for i in 0..n_query {
        let l = 2 + (i % 5) as u64;
        let n_ops = 1 + rng.below(4);
        let mut c = gen_run(rng, l, n_ops, true);
        c["fam"] = json!("c10.run");
        cases.push(c);
    }
    out.count_n(&format!("{fam}:runs"), cases.len() as u64);
    cases
}

/// registries of def R by size, created on demand and cached in the pool directory
pub struct SizeRegs {
    regs: HashMap<u32, Reg>,
}
impl SizeRegs {
    pub fn new() -> SizeRegs {
        SizeRegs { regs: HashMap::new() }
    }
    pub fn get(&mut self, w: &World, size: u32) -> &Reg {
        if !self.regs.contains_key(&size) {
            let path = format!("{}/sizereg-{}.json", crate::world::POOL_DIR, size);
            let d = w.def("R");
            let fp = crate::world::fingerprint(d);
            // cached registry: only for the very key material of the pooled definition (fingerprint), tails file in place
            let cached: Option<Reg> = std::fs::read_to_string(&path).ok().and_then(|t| serde_json::from_str::<Value>(&t).ok())
                .filter(|j| j["fingerprint"] == json!(fp)).and_then(|j| serde_json::from_value::<Reg>(j["reg"].clone()).ok())
                .filter(|r: &Reg| std::path::Path::new(&r.def.value.tails_location).exists() && r.def.cred_def_id == d.cid);
            let reg = match cached {
                Some(r) => r,
                None => {
                    // made for this process only unless `bin/setup` is running (see world.rs: the pool is never written by a check)
                    let tails_dir = format!("{}/tails", crate::world::fixture_dir());
                    std::fs::create_dir_all(&tails_dir).unwrap();
                    let mut tw = TailsFileWriter::new(Some(tails_dir));
                    let (def, def_priv) = issuer::create_revocation_registry_def(&d.cd, d.cid.clone(), &format!("sz{size}"), RegistryType::CL_ACCUM, size, &mut tw).unwrap();
                    let r = Reg { rid: RevocationRegistryDefinitionId::new(format!("did:web:rho/revreg/size/{size}")).unwrap(), def, def_priv, size };
                    if crate::world::pool_writable() {
                        std::fs::write(&path, serde_json::to_string(&json!({"fingerprint": fp, "reg": r})).unwrap()).ok();
                    }
                    r
                }
            };
            self.regs.insert(size, reg);
        }
        &self.regs[&size]
    }
}

fn to_set(v: &Value) -> Option<BTreeSet<u32>> {
    v.as_array().map(|a| a.iter().map(|x| x.as_u64().unwrap_or(u32::MAX as u64).min(u32::MAX as u64) as u32).collect())
}

fn class_of(table: &mut Vec<Vec<u8>>, bytes: Vec<u8>) -> usize {
    if let Some(i) = table.iter().position(|x| *x == bytes) {
        i
    } else {
        table.push(bytes);
        table.len() - 1
    }
}

/// canonical (affine) bytes of a G2 element given in the crate's projective hex form; the point at infinity
/// has many projective forms and no canonical byte form, so it is mapped to a marker
pub fn point_bytes(s: &str) -> Option<Vec<u8>> {
    let a = anoncreds::cl::Accumulator::from_string(s).ok()?;
    if a.is_inf().ok()? {
        return Some(vec![0]);
    }
    a.to_bytes().ok()
}

pub fn eval(case: &Value, w: &World, sregs: &mut SizeRegs, out: &mut Out) -> Value {
    let size = case["size"].as_u64().unwrap_or(1) as u32;
    let d = w.def("R");
    let reg = sregs.get(w, size);
    let by_default = case["by_default"].as_bool().unwrap_or(true);
    let l0 = match issuer::create_revocation_status_list(&d.cd, reg.rid.clone(), &reg.def, &reg.def_priv, by_default, case["ts"].as_u64()) {
        Ok(l) => l,
        Err(_) => return json!({"err": true}),
    };
    let mut lists = vec![l0];
    for op in case["ops"].as_array().cloned().unwrap_or_default() {
        let cur = lists.last().unwrap();
        let before = serde_json::to_string(cur).unwrap();
        let next = if op["kind"] == "ts_only" {
            issuer::update_revocation_status_list_timestamp_only(op["ts"].as_u64().unwrap_or(0), cur)
        } else {
            match issuer::update_revocation_status_list(&d.cd, &reg.def, &reg.def_priv, cur, to_set(&op["issued"]), to_set(&op["revoked"]), op["ts"].as_u64()) {
                Ok(l) => l,
                Err(_) => return json!({"err": true}),
            }
        };
        // oracle (C09, model-independent): an update never modifies the list it starts from
        if serde_json::to_string(cur).unwrap() != before {
            out.oracle_fail("update modified the list it started from", case, &Value::Null);
        }
        // exercise the JSON round trip between steps on every other step
        let next = if lists.len() % 2 == 0 { serde_json::from_str(&serde_json::to_string(&next).unwrap()).unwrap() } else { next };
        lists.push(next);
    }
    let mut acc_table: Vec<Vec<u8>> = vec![];
    let mut states = vec![];
    let mut acc_bytes = vec![];
    for l in &lists {
        let j = serde_json::to_value(l).unwrap();
        let bits: Vec<u64> = j["revocationList"].as_array().unwrap().iter().map(|x| x.as_u64().unwrap()).collect();
        let b = j["currentAccumulator"].as_str().and_then(point_bytes).unwrap_or_default();
        acc_bytes.push(b.clone());
        let cls = class_of(&mut acc_table, b);
        // first state with this accumulator
        let first = acc_bytes.iter().position(|x| *x == acc_table[cls]).unwrap();
        states.push(json!({"bits": bits, "ts": j["timestamp"], "acc_class": first}));
    }
    // queries
    let queries = case["queries"].as_array().cloned().unwrap_or_default();
    if queries.is_empty() {
        return json!({"states": states, "queries": []});
    }
    let ls = prover::create_link_secret().unwrap();
    let mut creds: HashMap<u32, Option<Credential>> = HashMap::new();
    let mut results: Vec<Value> = vec![];
    let mut wits: Vec<Option<(CredentialRevocationState, Vec<u8>)>> = vec![];
    let mut wit_table: Vec<(Vec<u8>, usize)> = vec![];
    let vals: Vec<(String, String)> = vec![("name".into(), "Alice".into()), ("age".into(), "25".into()), ("dept".into(), "x".into())];
    for (qi, q) in queries.iter().enumerate() {
        let k = q["k"].as_u64().unwrap_or(0) as u32;
        // a credential at index k (issued against whichever state of the run allows it; the signature does not depend on the state)
        let cred = creds.entry(k).or_insert_with(|| lists.iter().find_map(|l| crate::world::issue_rev(d, reg, l, k, &ls, &vals).ok())).as_ref().map(|c| c.try_clone().unwrap());
        let kind = q["q"].as_str().unwrap_or("");
        let mut embeds: Option<i64> = None;
        // derive the holder's state
        let derived: Option<(CredentialRevocationState, usize /* list it is for */, Option<RevocationStatusList>)> = match kind {
            "scratch" => {
                let si = q["state"].as_u64().unwrap() as usize;
                prover::create_or_update_revocation_state(&reg.def.value.tails_location, &reg.def, &lists[si], k, None, None).ok().map(|s| (s, si, None))
            }
            "update" => {
                let (fi, ti, r) = (q["from"].as_u64().unwrap() as usize, q["to"].as_u64().unwrap() as usize, q["w"].as_u64().unwrap() as usize);
                match &wits[r] {
                    Some((st, _)) => prover::create_or_update_revocation_state(&reg.def.value.tails_location, &reg.def, &lists[ti], k, Some(st), Some(&lists[fi])).ok().map(|s| (s, ti, None)),
                    None => None,
                }
            }
            "issue" => {
                let si = q["state"].as_u64().unwrap() as usize;
                match crate::world::issue_rev(d, reg, &lists[si], k, &ls, &vals) {
                    Ok(c) => {
                        let cj = serde_json::to_value(&c).unwrap();
                        let emb = cj["rev_reg"]["accum"].as_str().and_then(point_bytes).unwrap_or_default();
                        embeds = Some(acc_bytes.iter().position(|x| *x == emb).map(|i| i as i64).unwrap_or(-1));
                        // the list that has the embedded accumulator: the matching issue update (C09 embed clause), with a timestamp to present against
                        let matching = issuer::update_revocation_status_list(&d.cd, &reg.def, &reg.def_priv, &lists[si], Some([k].into_iter().collect()), None, Some(5)).ok();
                        if let Some(m) = &matching {
                            let mj = serde_json::to_value(m).unwrap();
                            let mb = mj["currentAccumulator"].as_str().and_then(point_bytes).unwrap_or_default();
                            if mb != emb {
                                out.oracle_fail("issued credential does not embed the accumulator of the matching issue update", case, &json!({"query": qi}));
                            }
                        }
                        match (c.witness.clone(), matching) {
                            (Some(wt), Some(m)) => prover::create_revocation_state_with_witness(wt, &m, 5).ok().map(|s| (s, si, Some(m))),
                            _ => None,
                        }
                    }
                    Err(_) => None,
                }
            }
            _ => None,
        };
        match derived {
            None => {
                wits.push(None);
                let mut r = json!({"ok": false, "valid": false, "wit_class": qi});
                if kind == "issue" {
                    r["embeds_class"] = json!(-1);
                }
                results.push(r);
            }
            Some((st, li, special_list)) => {
                let sj = serde_json::to_value(&st).unwrap();
                let wb = sj["witness"]["omega"].as_str().and_then(point_bytes).unwrap_or_default();
                let wcls = match wit_table.iter().find(|(b, _)| *b == wb) {
                    Some((_, first)) => *first,
                    None => {
                        wit_table.push((wb.clone(), qi));
                        qi
                    }
                };
                // validity = a presentation built with this state verifies against the list it is for
                let target = special_list.clone().unwrap_or_else(|| lists[li].clone());
                // no credential can exist at this index (k = L has no list position): validity cannot be observed
                let valid = match &cred {
                    Some(c) => json!(present_and_verify(w, d, reg, c, &st, &target, &ls)),
                    None => json!("__untested__"),
                };
                // oracle (C10, model-independent): valid iff not revoked in the list the state is for
                if let Some(vb) = valid.as_bool() {
                    let tj = serde_json::to_value(&target).unwrap();
                    let revoked = tj["revocationList"].as_array().and_then(|a| a.get(k as usize)).and_then(|x| x.as_u64()).map(|x| x == 1).unwrap_or(true);
                    let pos0 = tj["revocationList"][0].as_u64() == Some(1);
                    if revoked && vb {
                        out.oracle_fail("revoked index yields an accepted non-revocation proof", &json!({"sig": format!("C10:{kind}:revoked-accepted"), "query": qi, "run": case}), &json!({"valid": vb}));
                    }
                    let source_ok = match kind {
                        "update" => {
                            let r = q["w"].as_u64().unwrap() as usize;
                            queries[r]["q"] == "issue" || results[r]["valid"] == json!(true)
                        }
                        _ => true,
                    };
                    if !revoked && !vb && source_ok {
                        let sig = match kind {
                            "scratch" if !by_default => "C10:scratch:on-demand".to_string(),
                            "scratch" if pos0 => "C10:scratch:pos0-revoked".to_string(),
                            _ => format!("C10:{kind}:valid-index-rejected"),
                        };
                        out.oracle_fail("non-revoked index: derived revocation state does not verify", &json!({"sig": sig, "query": qi, "run": case}), &json!({"valid": vb}));
                    }
                }
                wits.push(Some((st, wb)));
                let mut r = json!({"ok": true, "valid": valid, "wit_class": wcls});
                if let Some(e) = embeds {
                    r["embeds_class"] = json!(e);
                }
                results.push(r);
            }
        }
    }
    json!({"states": states, "queries": results})
}

fn present_and_verify(w: &World, d: &crate::world::Def, reg: &Reg, cred: &Credential, st: &CredentialRevocationState, list: &RevocationStatusList, ls: &LinkSecret) -> bool {
    let lj = serde_json::to_value(list).unwrap();
    let Some(ts) = lj["timestamp"].as_u64() else { return false };
    let req = crate::world::request("77", json!({"a":{"name":"name"}}), json!({}), json!({"from": 0, "to": ts}));
    let schemas = w.schemas();
    let cred_defs = w.cred_defs();
    let mut pc = PresentCredentials::default();
    {
        let mut x = pc.add_credential(cred, Some(ts), Some(st));
        x.add_requested_attribute("a", true);
    }
    let r = std::panic::catch_unwind(std::panic::AssertUnwindSafe(|| {
        let p = match prover::create_presentation(&req, pc, None, ls, &schemas, &cred_defs) {
            Ok(p) => p,
            Err(_) => return false,
        };
        let mut rrd = HashMap::new();
        rrd.insert(reg.rid.clone(), reg.def.clone());
        let _ = d;
        matches!(verifier::verify_presentation(&p, &req, &schemas, &cred_defs, Some(&rrd), Some(vec![list.clone()]), None), Ok(true))
    }));
    r.unwrap_or(false)
}

//! Fixture pool: credential definitions, registries and tails files made through /repo's own issuer API,
//! cached under /verif/.cache/pool (key material is input data, not code under test).
#![allow(dead_code)]
use anoncreds::data_types::cred_def::{CredentialDefinition, CredentialDefinitionId};
use anoncreds::data_types::issuer_id::IssuerId;
use anoncreds::data_types::rev_reg_def::{RevocationRegistryDefinition, RevocationRegistryDefinitionId, RevocationRegistryDefinitionPrivate};
use anoncreds::data_types::schema::{Schema, SchemaId};
use anoncreds::tails::TailsFileWriter;
use anoncreds::types::*;
use anoncreds::{issuer, prover};
use serde::{Deserialize, Serialize};
use serde_json::json;
use std::collections::HashMap;

pub const POOL_DIR: &str = "/verif/.cache/pool";

/// The fixture pool (key material, registries, tails files) is written ONLY by `bin/setup` (`vh warm`, `VH_POOL_WRITE=1`), from the tree
/// as it is then. A check never writes into it: a tree under test that cannot use the pool (issuance broken, a deserialiser changed)
/// must not get to regenerate it with its own code and leave that behind for later runs. What a check finds missing it makes for
/// itself in a scratch directory that disappears with the process.
pub fn pool_writable() -> bool {
    std::env::var("VH_POOL_WRITE").map(|v| v == "1").unwrap_or(false)
}

/// where new fixture files go: the pool when it may be written, else a per-process scratch directory
pub fn fixture_dir() -> String {
    if pool_writable() {
        POOL_DIR.to_string()
    } else {
        let d = format!("/verif/.cache/scratch-pool-{}", std::process::id());
        std::fs::create_dir_all(&d).ok();
        d
    }
}

/// remove this process's scratch fixtures (called at exit of `vh`)
pub fn cleanup_scratch() {
    let d = format!("/verif/.cache/scratch-pool-{}", std::process::id());
    std::fs::remove_dir_all(&d).ok();
}

/// fingerprint of a definition's public key material: sized registries are only valid for the key they were made with
pub fn fingerprint(d: &Def) -> String {
    use sha2::Digest;
    let j = serde_json::to_string(&d.cd).unwrap_or_default();
    let mut h = sha2::Sha256::new();
    h.update(j.as_bytes());
    h.finalize().iter().map(|b| format!("{b:02x}")).collect()
}

#[derive(Serialize, Deserialize)]
pub struct Reg {
    pub rid: RevocationRegistryDefinitionId,
    pub def: RevocationRegistryDefinition,
    pub def_priv: RevocationRegistryDefinitionPrivate,
    pub size: u32,
}

#[derive(Serialize, Deserialize)]
pub struct Def {
    pub key: String,
    pub issuer: IssuerId,
    pub sid: SchemaId,
    pub cid: CredentialDefinitionId,
    pub schema: Schema,
    pub cd: CredentialDefinition,
    pub cdp: CredentialDefinitionPrivate,
    pub kcp: CredentialKeyCorrectnessProof,
    pub revocable: bool,
    pub regs: Vec<Reg>,
}

#[derive(Clone)]
pub struct DefSpec {
    pub key: &'static str,
    pub issuer: &'static str,
    /// issuer of the schema (defs A and B share one schema published by alpha)
    pub schema_issuer: &'static str,
    pub sid: &'static str,
    pub cid: &'static str,
    pub schema_name: &'static str,
    pub schema_version: &'static str,
    pub attrs: &'static [&'static str],
    pub revocable: bool,
    pub regs: &'static [(&'static str, u32)], // (registry id, size)
}

pub const LEGACY_DID: &str = "NcYxiDXkpYi6ov5FcYDi1e";
pub const LEGACY_DID2: &str = "VsKV7grR1BUE29mG2Fm2kX";

pub const SPECS: &[DefSpec] = &[
    DefSpec { key: "A", issuer: "did:web:alpha", schema_issuer: "did:web:alpha", sid: "did:web:alpha/schema/gvt", cid: "did:web:alpha/creddef/gvt", schema_name: "gvt", schema_version: "1.0", attrs: &["name", "age", "sex", "height"], revocable: false, regs: &[] },
    DefSpec { key: "B", issuer: "did:web:beta", schema_issuer: "did:web:alpha", sid: "did:web:alpha/schema/gvt", cid: "did:web:beta/creddef/gvt", schema_name: "gvt", schema_version: "1.0", attrs: &["name", "age", "sex", "height"], revocable: false, regs: &[] },
    DefSpec { key: "C", issuer: "did:web:gamma", schema_issuer: "did:web:gamma", sid: "did:web:gamma/schema/degree", cid: "did:web:gamma/creddef/degree", schema_name: "degree", schema_version: "2.1", attrs: &["Degree", "Given Name", "year", "GPA Score"], revocable: false, regs: &[] },
    DefSpec { key: "L", issuer: LEGACY_DID, schema_issuer: LEGACY_DID, sid: "NcYxiDXkpYi6ov5FcYDi1e:2:gvt:1.0", cid: "NcYxiDXkpYi6ov5FcYDi1e:3:CL:NcYxiDXkpYi6ov5FcYDi1e:2:gvt:1.0:tag", schema_name: "gvt", schema_version: "1.0", attrs: &["name", "age", "sex", "height"], revocable: false, regs: &[] },
    DefSpec { key: "R", issuer: "did:web:rho", schema_issuer: "did:web:rho", sid: "did:web:rho/schema/emp", cid: "did:web:rho/creddef/emp", schema_name: "emp", schema_version: "1.0", attrs: &["name", "age", "dept"], revocable: true,
        regs: &[("did:web:rho/revreg/emp/1", 6), ("did:web:rho/revreg/emp/2", 6)] },
    DefSpec { key: "S", issuer: LEGACY_DID2, schema_issuer: LEGACY_DID2, sid: "VsKV7grR1BUE29mG2Fm2kX:2:emp:1.0", cid: "VsKV7grR1BUE29mG2Fm2kX:3:CL:VsKV7grR1BUE29mG2Fm2kX:2:emp:1.0:tag", schema_name: "emp", schema_version: "1.0", attrs: &["name", "age", "dept"], revocable: true,
        regs: &[("VsKV7grR1BUE29mG2Fm2kX:4:VsKV7grR1BUE29mG2Fm2kX:3:CL:VsKV7grR1BUE29mG2Fm2kX:2:emp:1.0:tag:CL_ACCUM:r1", 5)] },
];

fn make_def(spec: &DefSpec) -> Def {
    let issuer = IssuerId::new(spec.issuer).unwrap();
    let sid = SchemaId::new(spec.sid).unwrap();
    let cid = CredentialDefinitionId::new(spec.cid).unwrap();
    let schema = issuer::create_schema(spec.schema_name, spec.schema_version, IssuerId::new(spec.schema_issuer).unwrap(), spec.attrs.into()).unwrap();
    let (cd, cdp, kcp) = issuer::create_credential_definition(
        sid.clone(),
        &schema,
        issuer.clone(),
        "tag",
        SignatureType::CL,
        CredentialDefinitionConfig { support_revocation: spec.revocable },
    )
    .unwrap();
    let mut regs = vec![];
    for (rid, size) in spec.regs {
        let tails_dir = format!("{}/tails", fixture_dir());
        std::fs::create_dir_all(&tails_dir).unwrap();
        let mut tw = TailsFileWriter::new(Some(tails_dir));
        let (def, def_priv) = issuer::create_revocation_registry_def(&cd, cid.clone(), "r", RegistryType::CL_ACCUM, *size, &mut tw).unwrap();
        regs.push(Reg { rid: RevocationRegistryDefinitionId::new(*rid).unwrap(), def, def_priv, size: *size });
    }
    Def { key: spec.key.to_string(), issuer, sid, cid, schema, cd, cdp, kcp, revocable: spec.revocable, regs }
}

pub struct World {
    pub defs: Vec<Def>,
}

impl World {
    pub fn def(&self, key: &str) -> &Def {
        self.defs.iter().find(|d| d.key == key).unwrap_or_else(|| panic!("no def {key}"))
    }
    pub fn schemas(&self) -> HashMap<SchemaId, Schema> {
        self.defs.iter().map(|d| (d.sid.clone(), d.schema.clone())).collect()
    }
    pub fn cred_defs(&self) -> HashMap<CredentialDefinitionId, CredentialDefinition> {
        self.defs.iter().map(|d| (d.cid.clone(), d.cd.try_clone().unwrap())).collect()
    }
    pub fn rev_reg_defs(&self) -> HashMap<RevocationRegistryDefinitionId, RevocationRegistryDefinition> {
        self.defs.iter().flat_map(|d| d.regs.iter().map(|r| (r.rid.clone(), r.def.clone()))).collect()
    }

    /// the cached pool as it is (child processes of the fault injection: the parent validated it already)
    pub fn load_quiet() -> World {
        let path = format!("{POOL_DIR}/pool-v2.json");
        let defs: Vec<Def> = serde_json::from_str(&std::fs::read_to_string(&path).expect("pool file")).expect("pool json");
        World { defs }
    }

    /// load the cached pool. Absent or not matching the specification: generate one — into the cache when `bin/setup` runs
    /// (`VH_POOL_WRITE=1`; there also when the smoke flow fails: the pool is stale), else for this process only. A pool that is there is
    /// used as it is by a check, whether or not the tree under test can work with it: honest flows that then fail are findings.
    pub fn load() -> World {
        let path = format!("{POOL_DIR}/pool-v2.json");
        if let Ok(txt) = std::fs::read_to_string(&path) {
            if let Ok(defs) = serde_json::from_str::<Vec<Def>>(&txt) {
                let w = World { defs };
                let shaped = w.defs.len() == SPECS.len() && w.defs.iter().zip(SPECS).all(|(d, s)| d.key == s.key && d.cid.0 == s.cid && d.regs.len() == s.regs.len());
                if shaped && (!pool_writable() || w.smoke()) {
                    return w;
                }
                eprintln!("fixture pool stale");
            }
        }
        eprintln!("generating fixture pool ({})", if pool_writable() { "cached" } else { "for this process only" });
        std::fs::create_dir_all(fixture_dir()).unwrap();
        let handles: Vec<_> = SPECS.iter().map(|s| { let s = s.clone(); std::thread::spawn(move || make_def(&s)) }).collect();
        let defs: Vec<Def> = handles.into_iter().map(|h| h.join().expect("keygen")).collect();
        let w = World { defs };
        if pool_writable() {
            std::fs::write(&path, serde_json::to_string(&w.defs).unwrap()).unwrap();
        }
        w
    }

    /// one honest flow per pooled key against the current tree; false = pool unusable
    fn smoke(&self) -> bool {
        let r = std::panic::catch_unwind(std::panic::AssertUnwindSafe(|| {
            for d in &self.defs {
                if d.regs.iter().any(|r| !std::path::Path::new(&r.def.value.tails_location).exists()) {
                    return false;
                }
                let ls = prover::create_link_secret().unwrap();
                let vals: Vec<(String, String)> = d.schema.attr_names.0.iter().map(|a| (a.clone(), "1".to_string())).collect();
                if issue_plain(d, &ls, &vals).is_err() {
                    return false;
                }
            }
            true
        }));
        r.unwrap_or(false)
    }
}

pub fn make_values(vals: &[(String, String)]) -> anoncreds::data_types::credential::CredentialValues {
    let mut v = MakeCredentialValues::default();
    for (k, y) in vals {
        v.add_raw(k.clone(), y.clone()).unwrap();
    }
    v.into()
}

/// issue a non-revocable credential (or a revocable definition's credential without a registry)
pub fn issue_plain(d: &Def, ls: &LinkSecret, vals: &[(String, String)]) -> Result<Credential, anoncreds::Error> {
    let offer = issuer::create_credential_offer(d.sid.clone(), d.cid.clone(), &d.kcp)?;
    let (req, meta) = if d.cid.is_legacy_cred_def_identifier() && d.key == "S" {
        prover::create_credential_request(None, Some(LEGACY_DID), &d.cd, ls, "ls", &offer)?
    } else {
        prover::create_credential_request(Some("entropy"), None, &d.cd, ls, "ls", &offer)?
    };
    let mut cred = issuer::create_credential(&d.cd, &d.cdp, &offer, &req, make_values(vals), None)?;
    prover::process_credential(&mut cred, &meta, ls, &d.cd, None)?;
    Ok(cred)
}

/// issue a revocable credential at index `idx` against `list`
pub fn issue_rev(d: &Def, reg: &Reg, list: &RevocationStatusList, idx: u32, ls: &LinkSecret, vals: &[(String, String)]) -> Result<Credential, anoncreds::Error> {
    let offer = issuer::create_credential_offer(d.sid.clone(), d.cid.clone(), &d.kcp)?;
    let (req, meta) = prover::create_credential_request(Some("entropy"), None, &d.cd, ls, "ls", &offer)?;
    let cfg = CredentialRevocationConfig { reg_def: &reg.def, reg_def_private: &reg.def_priv, status_list: list, registry_idx: idx };
    let mut cred = issuer::create_credential(&d.cd, &d.cdp, &offer, &req, make_values(vals), Some(cfg))?;
    prover::process_credential(&mut cred, &meta, ls, &d.cd, Some(&reg.def))?;
    Ok(cred)
}

pub fn request(nonce: &str, attrs: serde_json::Value, preds: serde_json::Value, non_revoked: serde_json::Value) -> PresentationRequest {
    let mut j = json!({"nonce": nonce, "name":"r", "version":"1.0", "ver": "2.0", "requested_attributes": attrs, "requested_predicates": preds});
    if !non_revoked.is_null() {
        j["non_revoked"] = non_revoked;
    }
    serde_json::from_value(j).expect("request json")
}

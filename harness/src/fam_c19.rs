//! C19: tails file layout, naming, read-back, and fault injection at every step of the write.
use crate::out::Out;
use crate::rng::Rng;
use crate::world::World;
use anoncreds::cl::{RevocationTailsAccessor, RevocationTailsGenerator};
use anoncreds::tails::{TailsFileReader, TailsFileWriter, TailsWriter};
use anoncreds::types::RegistryType;
use serde_json::{json, Value};
use sha2::{Digest, Sha256};

fn hex(b: &[u8]) -> String {
    b.iter().map(|x| format!("{x:02x}")).collect()
}

/// writer that records the generated tails (from a clone of the generator) and then delegates to the real file writer
#[derive(Debug)]
struct Capture {
    inner: TailsFileWriter,
    tails: Vec<Vec<u8>>,
}
impl TailsWriter for Capture {
    fn write(&mut self, generator: &mut RevocationTailsGenerator) -> Result<(String, String), anoncreds::Error> {
        let mut g = generator.clone();
        while let Some(t) = g.try_next().map_err(|e| anoncreds::Error::from_msg(anoncreds::ErrorKind::Unexpected, e.to_string()))? {
            self.tails.push(t.to_bytes().map_err(|e| anoncreds::Error::from_msg(anoncreds::ErrorKind::Unexpected, e.to_string()))?);
        }
        self.inner.write(generator)
    }
}

fn scratch_dir(tag: &str) -> String {
    let d = format!("/verif/.cache/c19/{}-{}", tag, std::process::id());
    let _ = std::fs::remove_dir_all(&d);
    std::fs::create_dir_all(&d).unwrap();
    d
}

pub fn run(w: &World, rng: &mut Rng, thorough: bool, out: &mut Out) -> Vec<(Value, Value)> {
    let mut cases = vec![];
    let d = w.def("R");
    let sizes: Vec<u32> = if thorough { vec![1, 2, 3, 4, 5, 7, 8, 13, 16, 31, 32, 33, 64] } else { vec![1, 2, 3, 5, 8, 33] };
    for size in sizes {
        let dir = scratch_dir(&format!("layout{size}"));
        let mut cap = Capture { inner: TailsFileWriter::new(Some(dir.clone())), tails: vec![] };
        let r = anoncreds::issuer::create_revocation_registry_def(&d.cd, d.cid.clone(), "t", RegistryType::CL_ACCUM, size, &mut cap);
        let Ok((def, _)) = r else {
            out.oracle_fail("tails file could not be written", &json!({"fam":"c19.layout","sig":"","size":size}), &Value::Null);
            continue;
        };
        let loc = def.value.tails_location.clone();
        let name = std::path::Path::new(&loc).file_name().map(|s| s.to_string_lossy().into_owned()).unwrap_or_default();
        let bytes = std::fs::read(&loc).unwrap_or_default();
        let tails_hex: Vec<String> = cap.tails.iter().map(|t| hex(t)).collect();
        // oracles straight from the property statement
        let mut expect = vec![0u8, 2u8];
        for t in &cap.tails {
            expect.extend_from_slice(t);
        }
        if bytes != expect {
            out.oracle_fail("file bytes are not the version tag followed by the tails in generation order", &json!({"fam":"c19.layout","sig":"","size":size}), &json!({"len": bytes.len(), "expected_len": expect.len()}));
        }
        let digest = Sha256::digest(&bytes);
        if def.value.tails_hash != name || name != bs58::encode(digest).into_string() {
            out.oracle_fail("tails file is not named by / reported with the base58 SHA-256 of its bytes", &json!({"fam":"c19.layout","sig":"","size":size}), &json!({"name": name, "tails_hash": def.value.tails_hash}));
        }
        let entries: Vec<String> = std::fs::read_dir(&dir).unwrap().filter_map(|e| e.ok()).map(|e| e.file_name().to_string_lossy().into_owned()).collect();
        if entries.len() != 1 {
            out.oracle_fail("directory holds more than the published file after a successful write", &json!({"fam":"c19.layout","sig":"","size":size}), &json!({"entries": entries}));
        }
        cases.push((json!({"op":"tails_layout","fam":"c19.layout","tails_hex":tails_hex,"nt":true}), json!({"name": name, "size": bytes.len(), "sha256_hex": hex(&digest)})));
        // read back every tail through the reader the prover uses, plus out-of-range indices
        if let Ok(reader) = TailsFileReader::new(&loc) {
            let n = cap.tails.len() as u32;
            let mut ks: Vec<u32> = if n <= 17 || thorough { (0..n).collect() } else { (0..6).map(|_| rng.below(n as u64) as u32).collect() };
            ks.extend([n, n + 1, n + 100]);
            for k in ks {
                let mut got: Option<Vec<u8>> = None;
                let r = reader.access_tail(k, &mut |t| got = t.to_bytes().ok());
                let imp = match (r, got) {
                    (Ok(()), Some(b)) => json!(hex(&b)),
                    _ => json!({"err": true}),
                };
                if (k as usize) < cap.tails.len() && imp != json!(hex(&cap.tails[k as usize])) {
                    out.oracle_fail("reading tail k back does not yield the k-th generated tail", &json!({"fam":"c19.read","sig":"","size":size,"k":k}), &imp);
                }
                cases.push((json!({"op":"tails_read","fam":"c19.read","tails_hex":tails_hex,"k":k,"nt":true}), imp));
            }
        }
        let _ = std::fs::remove_dir_all(&dir);
    }
    // base58 of random and edge-case byte strings against the bs58 crate
    for i in 0..(if thorough { 20_000 } else { 1_500 }) {
        let len = match i % 7 {
            0 => 0,
            1 => 1,
            2 => 32,
            _ => rng.below(40) as usize,
        };
        let mut b: Vec<u8> = (0..len).map(|_| rng.below(256) as u8).collect();
        for x in b.iter_mut().take((i % 4) as usize) {
            *x = 0;
        }
        cases.push((json!({"op":"b58","fam":"c19.b58","hex":hex(&b),"nt":true}), json!(bs58::encode(&b).into_string())));
    }
    // fault injection: an error or a process abort at every step of the write (LD_PRELOAD shim below libc)
    fault_cases(rng, thorough, out, &mut cases);
    cases
}

const SHIM: &str = "/verif/.cache/fault.so";

fn child(dir: &str, size: u32, env: &[(&str, String)]) -> (Option<i32>, String) {
    let exe = std::env::current_exe().unwrap();
    let mut cmd = std::process::Command::new(exe);
    cmd.arg("tails_child").arg(dir).arg(size.to_string()).env("LD_PRELOAD", SHIM);
    for (k, v) in env {
        cmd.env(k, v);
    }
    match cmd.output() {
        Ok(o) => (o.status.code(), String::from_utf8_lossy(&o.stdout).into_owned()),
        Err(e) => (None, format!("spawn failed: {e}")),
    }
}

/// the child process: write one tails file into `dir` with the real writer; prints OK <name> or ERR
pub fn tails_child(dir: &str, size: u32) {
    let w = World::load_quiet();
    let d = w.def("R");
    let mut tw = TailsFileWriter::new(Some(dir.to_string()));
    match anoncreds::issuer::create_revocation_registry_def(&d.cd, d.cid.clone(), "t", RegistryType::CL_ACCUM, size, &mut tw) {
        Ok((def, _)) => println!("OK {}", def.value.tails_hash),
        Err(_) => println!("ERR"),
    }
}

fn fault_cases(rng: &mut Rng, thorough: bool, out: &mut Out, cases: &mut Vec<(Value, Value)>) {
    if !std::path::Path::new(SHIM).exists() {
        out.oracle_fail("fault shim missing (bin/setup builds it)", &json!({"fam":"c19.fault","sig":""}), &Value::Null);
        return;
    }
    let sizes: Vec<u32> = if thorough { vec![1, 3, 40, 70] } else { vec![2, 40] };
    for size in sizes {
        let n_tails = 2 * size + 1;
        // clean run under the shim: enumerate the calls of each kind
        let dir = scratch_dir(&format!("fault{size}"));
        let log = format!("{dir}.log");
        let _ = std::fs::remove_file(&log);
        let (code, outp) = child(&dir, size, &[("FAULT_OP", "none".into()), ("FAULT_LOG", log.clone())]);
        if code != Some(0) || !outp.starts_with("OK") {
            out.oracle_fail("clean run under the fault shim failed", &json!({"fam":"c19.fault","sig":"","size":size}), &json!({"code": code, "out": outp}));
            continue;
        }
        let calls = std::fs::read_to_string(&log).unwrap_or_default();
        let count = |op: &str| calls.lines().filter(|l| l.starts_with(op)).count() as u32;
        let _ = std::fs::remove_file(&log);
        let expected_len = 2 + 128 * n_tails as usize;
        let mut plan: Vec<(&str, u32)> = vec![];
        for op in ["open", "write", "lseek", "rename"] {
            let c = count(op);
            let take: Vec<u32> = if c <= 3 || thorough { (1..=c).collect() } else { vec![1, 1 + rng.below(c as u64 - 1) as u32, c] };
            for k in take {
                plan.push((op, k));
            }
        }
        out.count_n(&format!("c19:calls:size{size}:open"), count("open") as u64);
        out.count_n(&format!("c19:calls:size{size}:write"), count("write") as u64);
        for (op, k) in plan {
            for kind in ["error", "kill"] {
                let dir = scratch_dir(&format!("fault{size}-{op}{k}{kind}"));
                let (code, outp) = child(&dir, size, &[("FAULT_OP", op.into()), ("FAULT_N", k.to_string()), ("FAULT_KIND", kind.into())]);
                let returned = if code.is_none() || code == Some(137) { "crashed" } else if outp.starts_with("OK") { "ok" } else { "err" };
                let mut final_present = false;
                let mut final_complete = false;
                let mut temp_present = false;
                for e in std::fs::read_dir(&dir).unwrap().filter_map(|e| e.ok()) {
                    let name = e.file_name().to_string_lossy().into_owned();
                    if name.ends_with(".tmp") {
                        temp_present = true;
                    } else {
                        final_present = true;
                        let b = std::fs::read(e.path()).unwrap_or_default();
                        final_complete = b.len() == expected_len && bs58::encode(Sha256::digest(&b)).into_string() == name;
                    }
                }
                // oracles (C19): complete-or-absent always; no temporary file after an error return
                let case_id = json!({"fam":"c19.fault","sig":"","size":size,"op":op,"n":k,"kind":kind});
                if final_present && !final_complete {
                    out.oracle_fail("final name holds incomplete content", &case_id, &json!({"returned": returned}));
                }
                if returned == "err" && temp_present {
                    out.oracle_fail("temporary file left behind after an error return", &case_id, &json!({"returned": returned}));
                }
                if returned == "ok" && !(final_present && final_complete) {
                    out.oracle_fail("writer reported success without a complete published file", &case_id, &json!({"returned": returned}));
                }
                // model step: create=0, header=1, tails=2..n+1, flush=n+2, close=n+3, rename=n+4
                let step = match op {
                    "open" => 0,
                    "write" => n_tails + 2,
                    "lseek" => n_tails + 3,
                    _ => n_tails + 4,
                };
                let mkind = if kind == "kill" { "crash" } else { "error" };
                cases.push((
                    json!({"op":"tails_fault","fam":"c19.fault","n_tails":n_tails,"fault_step":step,"kind":mkind,"real":{"op":op,"n":k,"size":size},"nt":true}),
                    json!({"final_present": final_present, "final_complete": final_complete, "temp_present": temp_present, "returned": returned}),
                ));
                let _ = std::fs::remove_dir_all(&dir);
            }
        }
        let _ = std::fs::remove_dir_all(&dir);
        // a leftover temporary file with the very name the writer draws (an earlier writer was killed; C19 allows that leftover):
        // whatever the writer does about it — fail, or take another name — nothing incomplete or mis-named may be published, and a
        // reported success needs a complete file
        for stale in [16_384usize, 1] {
            let dir = scratch_dir(&format!("fault{size}-leftover{stale}"));
            let (code, outp) = child(&dir, size, &[("FAULT_OP", "none".into()), ("FAULT_PREPLANT", stale.to_string())]);
            let returned = if code.is_none() || code == Some(137) { "crashed" } else if outp.starts_with("OK") { "ok" } else { "err" };
            let mut bad: Vec<String> = vec![];
            let mut complete = 0;
            for e in std::fs::read_dir(&dir).unwrap().filter_map(|e| e.ok()) {
                let name = e.file_name().to_string_lossy().into_owned();
                if !name.ends_with(".tmp") {
                    let b = std::fs::read(e.path()).unwrap_or_default();
                    if b.len() == expected_len && bs58::encode(Sha256::digest(&b)).into_string() == name { complete += 1; } else { bad.push(format!("{name}: {} bytes", b.len())); }
                }
            }
            out.count(&format!("c19:leftover-collision:{returned}"));
            out.oracle_only += 1;
            let case_id = json!({"fam":"c19.fault","sig":"","size":size,"op":"leftover-with-the-drawn-name","stale_bytes":stale});
            if !bad.is_empty() {
                out.oracle_fail("a file that is not content-addressed was published over a leftover temporary file", &case_id, &json!({"returned": returned, "files": bad}));
            }
            if returned == "ok" && complete == 0 {
                out.oracle_fail("writer reported success without a complete published file", &case_id, &json!({"returned": returned}));
            }
            if returned == "crashed" {
                out.oracle_fail("writer crashed on a leftover temporary file", &case_id, &json!({"code": code}));
            }
            let _ = std::fs::remove_dir_all(&dir);
        }
    }
}

//! Scenario engine: honest presentations built by the real prover from a plan, class-specific
//! alterations (of the request, the verifier context, or the presentation), verification by the real
//! verifier, and the abstraction handed to the Lean model. Each case carries
//! `cls` (scenario class), `sig` (known-finding signature) and `expect` (the oracle: "T" must verify,
//! "notT" must not verify, null = judged by the model only).
#![allow(dead_code)]
use crate::abs::*;
use crate::cast::*;
use crate::out::Out;
use crate::rng::Rng;
use anoncreds::data_types::presentation::Presentation;
use anoncreds::data_types::w3c::credential::{CredentialProof, W3CCredential};
use anoncreds::data_types::w3c::one_or_many::OneOrMany;
use anoncreds::data_types::w3c::presentation::W3CPresentation;
use anoncreds::data_types::w3c::proof::{CredentialPresentationProofValue, DataIntegrityProof, ProofPurpose};
use anoncreds::types::*;
use anoncreds::{prover, verifier, w3c};
use serde_json::{json, Value};
use std::collections::HashMap;

#[derive(Clone, Debug)]
pub enum Kind {
    Single(String),
    Group(Vec<String>),
    Pred(String, &'static str, i32),
    SelfAttested(String),
}

#[derive(Clone, Debug)]
pub struct RefPlan {
    pub referent: String,
    pub kind: Kind,
    /// position in `Plan.creds`; None for self-attested
    pub cred: Option<usize>,
    pub revealed: bool,
    pub restrictions: Option<Value>,
    pub non_revoked: Option<Value>,
}

#[derive(Clone, Debug)]
pub struct CredUse {
    pub held: usize,
    /// list index of the holder's revocation state (and timestamp), if any
    pub state_list: Option<usize>,
    /// timestamp named in the presentation without a state (normally None)
    pub ts_only: Option<u64>,
}

#[derive(Clone, Debug)]
pub struct Plan {
    pub creds: Vec<CredUse>,
    pub refs: Vec<RefPlan>,
    pub global_nr: Option<Value>,
    pub nonce: String,
    pub holder: usize,
}

pub fn ptype_wire(t: &str) -> &'static str {
    match t {
        "GE" => ">=",
        "GT" => ">",
        "LE" => "<=",
        _ => "<",
    }
}

impl Plan {
    pub fn request_json(&self) -> Value {
        let mut attrs = serde_json::Map::new();
        let mut preds = serde_json::Map::new();
        for r in &self.refs {
            let mut o = serde_json::Map::new();
            match &r.kind {
                Kind::Single(n) | Kind::SelfAttested(n) => {
                    o.insert("name".into(), json!(n));
                }
                Kind::Group(ns) => {
                    o.insert("names".into(), json!(ns));
                }
                Kind::Pred(n, t, v) => {
                    o.insert("name".into(), json!(n));
                    o.insert("p_type".into(), json!(ptype_wire(t)));
                    o.insert("p_value".into(), json!(v));
                }
            }
            if let Some(q) = &r.restrictions {
                o.insert("restrictions".into(), q.clone());
            }
            if let Some(nr) = &r.non_revoked {
                o.insert("non_revoked".into(), nr.clone());
            }
            match r.kind {
                Kind::Pred(..) => preds.insert(r.referent.clone(), Value::Object(o)),
                _ => attrs.insert(r.referent.clone(), Value::Object(o)),
            };
        }
        let mut j = json!({"nonce": self.nonce, "name": "r", "version": "1.0", "ver": "2.0", "requested_attributes": attrs, "requested_predicates": preds});
        if let Some(g) = &self.global_nr {
            j["non_revoked"] = g.clone();
        }
        j
    }
}

/// an honestly built presentation with the ghost data of its sub-proofs
pub struct Built {
    pub req: PresentationRequest,
    pub pres: Value,
    pub ghosts: Vec<Value>,
    pub agg: Value,
}
pub struct BuiltW3C {
    pub req: PresentationRequest,
    pub pres: W3CPresentation,
    pub ghosts: Vec<Value>,
    pub agg: Value,
}

pub struct Engine {
    pub cast: Cast,
    pub uid: u64,
    pub session: u64,
    pub accs: AccTable,
    /// message of the last verification error (informational; never compared)
    pub last_err: String,
    /// the prover-model case of the last build (with the implementation's outcome), for families that emit it
    pub last_present: Option<(Value, Value)>,
    /// derive revocation states incrementally (list 0 from scratch, then list by list) instead of from scratch for the target list
    pub incremental: bool,
}

impl Engine {
    pub fn new(cast: Cast) -> Engine {
        Engine { cast, uid: 0, session: 0, accs: AccTable::default(), last_err: String::new(), last_present: None, incremental: false }
    }

    fn states(&self, plan: &Plan) -> Vec<Option<CredentialRevocationState>> {
        plan.creds.iter().map(|cu| cu.state_list.and_then(|li| if self.incremental { self.cast.rev_state_incremental(cu.held, li) } else { self.cast.rev_state(cu.held, li) })).collect()
    }

    /// ghost of the revocation state passed for credential `ci` of the plan (`SymNrp`), if any
    fn state_ghost(&mut self, plan: &Plan, states: &[Option<CredentialRevocationState>], ci: usize) -> Value {
        let cu = &plan.creds[ci];
        let h = &self.cast.creds[cu.held];
        match (h.rev, cu.state_list, states[ci].as_ref()) {
            (Some((ri, idx)), Some(li), Some(st)) => {
                let acc = self.accs.id_of_state(st);
                // from-scratch derivation is valid for issuance-by-default registries whose position 0 is untouched (C10 / F12)
                let wit_ok = !self.cast.regs[ri].revoked_at(li, idx);
                json!({"reg_key": self.cast.reg_key(ri), "idx": idx, "acc": acc, "wit_ok": wit_ok})
            }
            _ => Value::Null,
        }
    }

    /// the `present_legacy` / `present_w3c` case of a plan (input of the prover model)
    pub fn present_case(&mut self, plan: &Plan, req: &PresentationRequest, states: &[Option<CredentialRevocationState>], w3c: bool) -> Value {
        let mut schemas: Vec<Value> = vec![];
        for d in self.cast.w.defs.iter() {
            if !schemas.iter().any(|x| x[0] == json!(d.sid.0)) {
                schemas.push(json!([d.sid.0, d.schema.attr_names.0]));
            }
        }
        let cred_defs: Vec<String> = self.cast.w.defs.iter().map(|d| d.cid.0.clone()).collect();
        let mut sel = vec![];
        for (ci, cu) in plan.creds.iter().enumerate() {
            let rev_state = self.state_ghost(plan, states, ci);
            let h = &self.cast.creds[cu.held];
            let d = &self.cast.w.defs[h.def];
            let ts = cu.ts_only.or(cu.state_list.map(RegHist::ts));
            let mut attrs = vec![];
            let mut preds = vec![];
            for r in plan.refs.iter().filter(|r| r.cred == Some(ci)) {
                match r.kind {
                    Kind::Pred(..) => preds.push(json!(r.referent)),
                    _ => attrs.push(json!([r.referent, r.revealed])),
                }
            }
            let cred = if w3c {
                let mut subject: Vec<Value> = h.w3c.credential_subject.0.iter().map(|(k, v)| {
                    use anoncreds::data_types::w3c::credential_attributes::CredentialAttributeValue as V;
                    json!([k, match v { V::String(s) => json!(s), V::Number(n) => json!(n), V::Bool(b) => json!(b) }])
                }).collect();
                subject.sort_by(|a, b| a[0].as_str().cmp(&b[0].as_str()));
                json!({"issuer": h.w3c.issuer.0, "schema_id": d.sid.0, "cred_def_id": d.cid.0, "rev_reg_id": h.cred.rev_reg_id.as_ref().map(|r| r.0.clone()), "subject": subject, "sym": self.cast.ghost_cred(cu.held)})
            } else {
                let mut values: Vec<Value> = h.cred.values.0.iter().map(|(k, v)| json!([k, [v.raw, v.encoded]])).collect();
                values.sort_by(|a, b| a[0].as_str().cmp(&b[0].as_str()));
                json!({"schema_id": d.sid.0, "cred_def_id": d.cid.0, "rev_reg_id": h.cred.rev_reg_id.as_ref().map(|r| r.0.clone()), "values": values, "sym": self.cast.ghost_cred(cu.held)})
            };
            sel.push(json!({"cred": cred, "timestamp": ts, "rev_state": rev_state, "attrs": attrs, "preds": preds}));
        }
        let mut sa: Vec<Value> = plan.refs.iter().filter_map(|r| if let Kind::SelfAttested(_) = r.kind { Some(json!([r.referent, "self attested value"])) } else { None }).collect();
        sa.sort_by(|a, b| a[0].as_str().cmp(&b[0].as_str()));
        json!({"op": if w3c { "present_w3c" } else { "present_legacy" }, "pctx": {"schemas": schemas, "cred_defs": cred_defs}, "req": abs_req(req), "sel": sel,
            "self_attested": sa, "holder": plan.holder, "session": self.session + 1, "uid0": self.uid + 1, "nt": true})
    }

    fn ghosts_for(&mut self, plan: &Plan, states: &[Option<CredentialRevocationState>], used: &[usize], nrp_built: &[bool]) -> (Vec<Value>, Value) {
        self.session += 1;
        let mut ghosts = vec![];
        let mut bound = vec![];
        for (k, ci) in used.iter().enumerate() {
            let cu = &plan.creds[*ci];
            self.uid += 1;
            let nrp = if nrp_built[k] { self.state_ghost(plan, states, *ci) } else { Value::Null };
            let h = &self.cast.creds[cu.held];
            ghosts.push(json!({"cred": self.cast.ghost_cred(cu.held), "nrp": nrp, "ms": [h.holder, self.session], "intact": true, "uid": self.uid}));
            bound.push(json!([self.uid, nrp_built[k]]));
        }
        (ghosts, json!({"nonce": plan.nonce, "bound": bound, "intact": true}))
    }

    /// honest legacy presentation through `prover::create_presentation`
    pub fn build_legacy(&mut self, plan: &Plan) -> Result<Built, String> {
        let req: PresentationRequest = serde_json::from_value(plan.request_json()).map_err(|e| format!("request: {e}"))?;
        let states = self.states(plan);
        let pcase = self.present_case(plan, &req, &states, false);
        let schemas = self.cast.w.schemas();
        let cred_defs = self.cast.w.cred_defs();
        let mut pc = PresentCredentials::default();
        let mut used = vec![];
        for (ci, cu) in plan.creds.iter().enumerate() {
            let ts = cu.ts_only.or(cu.state_list.map(RegHist::ts));
            let mut x = pc.add_credential(&self.cast.creds[cu.held].cred, ts, states[ci].as_ref());
            let mut any = false;
            for r in plan.refs.iter().filter(|r| r.cred == Some(ci)) {
                any = true;
                match r.kind {
                    Kind::Pred(..) => x.add_requested_predicate(r.referent.clone()),
                    _ => x.add_requested_attribute(r.referent.clone(), r.revealed),
                }
            }
            if any {
                used.push(ci);
            }
        }
        let sa: HashMap<String, String> = plan.refs.iter().filter_map(|r| if let Kind::SelfAttested(_) = r.kind { Some((r.referent.clone(), "self attested value".to_string())) } else { None }).collect();
        let sa = if sa.is_empty() { None } else { Some(sa) };
        let p = match std::panic::catch_unwind(std::panic::AssertUnwindSafe(|| prover::create_presentation(&req, pc, sa, &self.cast.holders[plan.holder], &schemas, &cred_defs))) {
            Ok(Ok(p)) => p,
            Ok(Err(e)) => {
                self.last_present = Some((pcase, json!({"err": true})));
                return Err(format!("create_presentation: {e}"));
            }
            Err(_) => {
                self.last_present = Some((pcase, json!({"err": true, "panic": true})));
                return Err("create_presentation panicked".into());
            }
        };
        let pres = serde_json::to_value(&p).unwrap();
        let nrp_built: Vec<bool> = pres["proof"]["proofs"].as_array().unwrap().iter().map(|s| !s["non_revoc_proof"].is_null()).collect();
        if nrp_built.len() != used.len() {
            return Err("sub-proof count differs from used credentials".into());
        }
        let (ghosts, agg) = self.ghosts_for(plan, &states, &used, &nrp_built);
        self.last_present = abs_pres_legacy(&pres, &ghosts, &agg).map(|a| (pcase, a));
        Ok(Built { req, pres, ghosts, agg })
    }

    /// honest W3C presentation through `w3c::prover::create_presentation`
    pub fn build_w3c(&mut self, plan: &Plan) -> Result<BuiltW3C, String> {
        let req: PresentationRequest = serde_json::from_value(plan.request_json()).map_err(|e| format!("request: {e}"))?;
        let states = self.states(plan);
        let pcase = self.present_case(plan, &req, &states, true);
        let schemas = self.cast.w.schemas();
        let cred_defs = self.cast.w.cred_defs();
        let mut pc = PresentCredentials::default();
        let mut used = vec![];
        for (ci, cu) in plan.creds.iter().enumerate() {
            let ts = cu.ts_only.or(cu.state_list.map(RegHist::ts));
            let mut x = pc.add_credential(&self.cast.creds[cu.held].w3c, ts, states[ci].as_ref());
            let mut any = false;
            for r in plan.refs.iter().filter(|r| r.cred == Some(ci)) {
                any = true;
                match r.kind {
                    Kind::Pred(..) => x.add_requested_predicate(r.referent.clone()),
                    _ => x.add_requested_attribute(r.referent.clone(), r.revealed),
                }
            }
            if any {
                used.push(ci);
            }
        }
        let p = match std::panic::catch_unwind(std::panic::AssertUnwindSafe(|| w3c::prover::create_presentation(&req, pc, &self.cast.holders[plan.holder], &schemas, &cred_defs, None))) {
            Ok(Ok(p)) => p,
            Ok(Err(e)) => {
                self.last_present = Some((pcase, json!({"err": true})));
                return Err(format!("w3c create_presentation: {e}"));
            }
            Err(_) => {
                self.last_present = Some((pcase, json!({"err": true, "panic": true})));
                return Err("w3c create_presentation panicked".into());
            }
        };
        let mut nrp_built = vec![];
        for vc in &p.verifiable_credential {
            let pv = vc.get_credential_presentation_proof().map_err(|e| e.to_string())?;
            let sj = serde_json::to_value(&pv.sub_proof).unwrap();
            nrp_built.push(!sj["non_revoc_proof"].is_null());
        }
        if nrp_built.len() != used.len() {
            return Err(format!("W3C presentation has {} credentials for {} used", nrp_built.len(), used.len()));
        }
        let (ghosts, agg) = self.ghosts_for(plan, &states, &used, &nrp_built);
        self.last_present = abs_pres_w3c(&p, &ghosts, &agg, true).map(|a| (pcase, a));
        Ok(BuiltW3C { req, pres: p, ghosts, agg })
    }

    /// run the real legacy verifier; verdict T / F / E / P
    pub fn verify_legacy(&mut self, pres: &Value, req: &PresentationRequest, o: &VOpts) -> Option<(String, Value)> {
        self.last_err.clear();
        let p: Presentation = serde_json::from_value(pres.clone()).ok()?;
        let (rc, actx) = build_ctx(&self.cast, o, &mut self.accs);
        let r = std::panic::catch_unwind(std::panic::AssertUnwindSafe(|| verifier::verify_presentation(&p, req, &rc.schemas, &rc.cred_defs, rc.rev_reg_defs.as_ref(), rc.lists.clone(), rc.override_.as_ref())));
        let v = match r {
            Err(_) => "P",
            Ok(Ok(true)) => "T",
            Ok(Ok(false)) => "F",
            Ok(Err(e)) => {
                self.last_err = e.to_string();
                "E"
            }
        };
        Some((v.to_string(), actx))
    }

    pub fn verify_w3c(&mut self, pres: &W3CPresentation, req: &PresentationRequest, o: &VOpts) -> (String, Value) {
        self.last_err.clear();
        let (rc, actx) = build_ctx(&self.cast, o, &mut self.accs);
        let r = std::panic::catch_unwind(std::panic::AssertUnwindSafe(|| w3c::verifier::verify_presentation(pres, req, &rc.schemas, &rc.cred_defs, rc.rev_reg_defs.as_ref(), rc.lists.clone(), rc.override_.as_ref())));
        let v = match r {
            Err(_) => "P",
            Ok(Ok(true)) => "T",
            Ok(Ok(false)) => "F",
            Ok(Err(e)) => {
                self.last_err = e.to_string();
                "E"
            }
        };
        (v.to_string(), actx)
    }
}

/// the case line of one verification, plus the oracle
pub fn emit_legacy(eng: &mut Engine, out: &mut Out, cases: &mut Vec<(Value, Value)>, fam: &str, cls: &str, sig: &str, expect: Option<bool>, pres: &Value, ghosts: &[Value], agg: &Value, req: &PresentationRequest, o: &VOpts, dir: &str) {
    let Some((v, actx)) = eng.verify_legacy(pres, req, o) else {
        out.count(&format!("{fam}:undeserialisable"));
        return;
    };
    let Some(apres) = abs_pres_legacy(pres, ghosts, agg) else {
        out.count(&format!("{fam}:unabstractable"));
        return;
    };
    let case = json!({"op":"verify_legacy","fam":fam,"cls":cls,"sig":sig,"dir":dir,"nt":true,
        "expect": expect.map(|b| if b {"T"} else {"notT"}), "ctx": actx, "req": abs_req(req), "pres": apres});
    judge(out, &case, &v, expect, Some(json!({"presentation": pres, "request": serde_json::to_value(req).unwrap(), "error": eng.last_err})));
    out.count(&format!("cls:{cls}:{v}"));
    cases.push((case, json!({"v": v})));
}

pub fn emit_w3c(eng: &mut Engine, out: &mut Out, cases: &mut Vec<(Value, Value)>, fam: &str, cls: &str, sig: &str, expect: Option<bool>, pres: &W3CPresentation, ghosts: &[Value], agg: &Value, validate_ok: bool, req: &PresentationRequest, o: &VOpts, dir: &str) {
    let (v, actx) = eng.verify_w3c(pres, req, o);
    let Some(apres) = abs_pres_w3c(pres, ghosts, agg, validate_ok) else {
        out.count(&format!("{fam}:unabstractable"));
        return;
    };
    let case = json!({"op":"verify_w3c","fam":fam,"cls":cls,"sig":sig,"dir":dir,"nt":true,
        "expect": expect.map(|b| if b {"T"} else {"notT"}), "ctx": actx, "req": abs_req(req), "pres": apres});
    judge(out, &case, &v, expect, Some(json!({"presentation": serde_json::to_value(pres).unwrap(), "request": serde_json::to_value(req).unwrap(), "error": eng.last_err})));
    out.count(&format!("cls:{cls}:{v}"));
    cases.push((case, json!({"v": v})));
}

fn judge(out: &mut Out, case: &Value, v: &str, expect: Option<bool>, detail: Option<Value>) {
    let slim = json!({"op": case["op"], "fam": case["fam"], "cls": case["cls"], "sig": case["sig"], "expect": case["expect"], "ctx": case["ctx"], "req": case["req"], "pres": case["pres"], "real": detail});
    if v == "P" {
        out.oracle_fail("verifier panicked", &slim, &json!({"v": v}));
    }
    match expect {
        Some(true) if v != "T" => out.oracle_fail("honest presentation did not verify", &slim, &json!({"v": v})),
        Some(false) if v == "T" => out.oracle_fail("presentation that must be rejected was accepted", &slim, &json!({"v": v})),
        _ => {}
    }
}

// ---------------------------------------------------------------------------------------------
// plan generation

pub const NUMERIC: &[&str] = &["age", "height", "year", "gpascore"];

/// a spelling variant of an attribute name with the same normal form (ASCII only)
pub fn variant(rng: &mut Rng, name: &str) -> String {
    match rng.below(5) {
        0 => name.to_uppercase(),
        1 => {
            let mut s = String::new();
            for (i, c) in name.chars().enumerate() {
                if i > 0 && rng.chance(1, 3) {
                    s.push(' ');
                }
                s.push(c);
            }
            s
        }
        2 => format!(" {name} "),
        _ => name.to_string(),
    }
}

/// restriction templates that the credential `h` of definition `d` meets; `revealed`: (name, raw) pairs revealed under the referent
pub fn true_restrictions(rng: &mut Rng, cast: &Cast, held: usize, revealed: &[(String, String)]) -> Value {
    let h = &cast.creds[held];
    let d = &cast.w.defs[h.def];
    let legacy_issuer = d.issuer.0.len() < 30 && !d.issuer.0.contains(':');
    let mut opts = vec![
        json!({"cred_def_id": d.cid.0}),
        json!({"schema_id": d.sid.0}),
        json!({"schema_name": d.schema.name, "schema_version": d.schema.version}),
        json!({"issuer_id": d.issuer.0}),
        json!({"schema_issuer_id": d.schema.issuer_id.0}),
        json!({"$or": [{"cred_def_id": "nope"}, {"cred_def_id": d.cid.0}]}),
        json!({"$and": [{"schema_id": d.sid.0}, {"$not": {"cred_def_id": "nope"}}]}),
        json!({"cred_def_id": {"$in": ["x", d.cid.0]}}),
        json!({"schema_name": {"$neq": "nope"}}),
        json!([{"cred_def_id": "nope"}, {"cred_def_id": d.cid.0, "schema_id": null}]),
        json!({}),
        json!({"$not": {"$or": [{"schema_name": "nope"}, {"issuer_id": {"$in": []}}]}}),
    ];
    if legacy_issuer {
        opts.push(json!({"issuer_did": d.issuer.0}));
        opts.push(json!({"schema_issuer_did": d.schema.issuer_id.0}));
    }
    if let Some((n, raw)) = revealed.first() {
        opts.push(json!({ format!("attr::{n}::value"): raw }));
        // a marker on a revealed attribute is compared with the revealed value, exactly like `value`
        opts.push(json!({ format!("attr::{n}::marker"): raw, "cred_def_id": d.cid.0 }));
    }
    rng.pick(&opts).clone()
}

/// restriction templates that the credential does NOT meet
pub fn false_restrictions(rng: &mut Rng, cast: &Cast, held: usize) -> Value {
    let h = &cast.creds[held];
    let d = &cast.w.defs[h.def];
    let opts = vec![
        json!({"cred_def_id": "nope"}),
        json!({"schema_id": d.sid.0, "issuer_id": "did:web:nobody"}),
        json!({"$not": {"cred_def_id": d.cid.0}}),
        json!({"schema_name": {"$neq": d.schema.name}}),
        json!({"cred_def_id": {"$in": ["x", "y"]}}),
        json!({"$or": [{"cred_def_id": "nope"}, {"schema_version": "9.9"}]}),
        json!({"schema_version": {"$gte": "0"}}),
        json!({"cred_def_id": {"$like": "%"}}),
        json!({"$exist": ["cred_def_id"]}),
        json!({"unknown_tag": "x"}),
        json!({"rev_reg_id": "x"}),
        json!([{"cred_def_id": "nope"}, {"schema_id": "nope"}]),
    ];
    rng.pick(&opts).clone()
}

/// a random plan whose demands the chosen credentials meet (C04's quantifier); `w3c`: no self-attested referents
/// boundary shapes an honest holder can produce: a credential that reveals nothing and proves no predicate, one that only
/// proves a predicate, an unrevealed group, the same next to an ordinary credential
pub fn extreme_plans(rng: &mut Rng, cast: &Cast) -> Vec<Plan> {
    let mk = |refs: Vec<RefPlan>, helds: &[&str], rng: &mut Rng| Plan {
        creds: helds.iter().map(|h| CredUse { held: cast.cred(h), state_list: None, ts_only: None }).collect(),
        refs,
        global_nr: None,
        nonce: format!("{}", 1000 + rng.below(1_000_000_000)),
        holder: 0,
    };
    let va = cast.creds[cast.cred("a_alice")].values.clone();
    let vc = cast.creds[cast.cred("c_alice")].values.clone();
    let single = |r: &str, n: &str, c: usize, rev: bool| RefPlan { referent: r.into(), kind: Kind::Single(n.into()), cred: Some(c), revealed: rev, restrictions: None, non_revoked: None };
    let (pn, pv) = va.iter().find(|(_, v)| v.parse::<i32>().is_ok()).map(|(k, v)| (k.clone(), v.parse::<i32>().unwrap())).unwrap();
    let pred = |r: &str, c: usize| RefPlan { referent: r.into(), kind: Kind::Pred(pn.clone(), "GE", pv - 1), cred: Some(c), revealed: false, restrictions: None, non_revoked: None };
    vec![
        mk(vec![single("u0", &va[0].0, 0, false)], &["a_alice"], rng),
        mk(vec![single("u0", &va[0].0, 0, false), single("u1", &va[1].0, 0, false)], &["a_alice"], rng),
        mk(vec![RefPlan { referent: "ug".into(), kind: Kind::Group(vec![va[0].0.clone(), va[2].0.clone()]), cred: Some(0), revealed: false, restrictions: None, non_revoked: None }], &["a_alice"], rng),
        mk(vec![pred("p0", 0)], &["a_alice"], rng),
        mk(vec![single("r0", &vc[0].0, 0, true), single("u0", &va[0].0, 1, false)], &["c_alice", "a_alice"], rng),
        mk(vec![single("u0", &va[0].0, 0, false), single("r0", &vc[0].0, 1, true)], &["a_alice", "c_alice"], rng),
        mk(vec![pred("p0", 0), single("u0", &vc[0].0, 1, false)], &["a_alice", "c_alice"], rng),
        // a range: two predicates on one attribute of one credential
        mk(vec![pred("p0", 0), RefPlan { referent: "p1".into(), kind: Kind::Pred(pn.clone(), "LE", pv + 4), cred: Some(0), revealed: false, restrictions: None, non_revoked: None }], &["a_alice"], rng),
        // the same attribute name asked twice, answered from two credentials of one definition / of two definitions over one schema
        mk(vec![single("n0", &va[0].0, 0, true), single("n1", &va[0].0, 1, true)], &["a_alice", "a2_alice"], rng),
        mk(vec![single("n0", &va[0].0, 0, true), single("n1", &va[0].0, 1, true)], &["a_alice", "b_alice"], rng),
        mk(vec![single("n0", &va[0].0, 0, true), single("n1", &va[0].0, 1, false)], &["b_alice", "a_alice"], rng),
        // the same predicate / the same attribute from two credentials, each referent restricted to the definition of "its" credential,
        // the second referent's credential listed first (a verifier that searches the credentials must pass over the first match)
        {
            let cid = |h: &str| cast.w.defs[cast.creds[cast.cred(h)].def].cid.0.clone();
            let mut p0 = pred("p_b", 0);
            p0.restrictions = Some(json!({"cred_def_id": cid("b_alice")}));
            let mut p1 = pred("p_a", 1);
            p1.restrictions = Some(json!({"cred_def_id": cid("a_alice")}));
            // b_alice's value of the predicate attribute may differ: keep a threshold both meet
            if let Kind::Pred(_, _, th) = &mut p0.kind { *th = 1; }
            if let Kind::Pred(_, _, th) = &mut p1.kind { *th = 1; }
            let mut n0 = single("n_b", &va[0].0, 0, true);
            n0.restrictions = Some(json!({"cred_def_id": cid("b_alice")}));
            let mut n1 = single("n_a", &va[0].0, 1, true);
            n1.restrictions = Some(json!({"cred_def_id": cid("a_alice")}));
            mk(vec![p1, p0, n1, n0], &["b_alice", "a_alice"], rng)
        },
    ]
}

pub fn gen_honest_plan(rng: &mut Rng, cast: &Cast, w3c: bool, with_rev: bool) -> Plan {
    // one plan in six is a boundary shape
    if !with_rev && rng.chance(1, 6) {
        let mut e = extreme_plans(rng, cast);
        let i = rng.below(e.len() as u64) as usize;
        return e.swap_remove(i);
    }
    let alice: Vec<usize> = cast.creds.iter().enumerate().filter(|(_, c)| c.holder == 0 && (with_rev || c.rev.is_none())).map(|(i, _)| i).collect();
    let n = 1 + rng.below(3) as usize;
    let mut chosen: Vec<usize> = vec![];
    for _ in 0..n {
        let c = *rng.pick(&alice);
        if !chosen.contains(&c) {
            chosen.push(c);
        }
    }
    if with_rev && !chosen.iter().any(|c| cast.creds[*c].rev.is_some()) {
        chosen[0] = cast.cred("r1_alice");
    }
    let mut creds = vec![];
    let mut refs = vec![];
    let mut k = 0;
    let mut global_nr: Option<Value> = None;
    let global_wanted = with_rev && rng.chance(1, 2);
    for (ci, &held) in chosen.iter().enumerate() {
        let h = &cast.creds[held];
        // revocation: pick a list at which the credential is valid
        let mut state_list = None;
        let mut local_nr: Option<Value> = None;
        if let Some((ri, idx)) = h.rev {
            let rh = &cast.regs[ri];
            let valid: Vec<usize> = (0..rh.lists.len()).filter(|li| !rh.revoked_at(*li, idx)).collect();
            if with_rev && !valid.is_empty() {
                let li = *rng.pick(&valid);
                state_list = Some(li);
                let ts = RegHist::ts(li);
                let iv = match rng.below(4) {
                    0 => json!({"from": ts, "to": ts}),
                    1 => json!({"from": ts - 5, "to": ts + 5}),
                    2 => json!({"to": ts + 100}),
                    _ => json!({"from": 0}),
                };
                if global_wanted {
                    // one request-wide interval must fit every revocable credential: use open bounds
                    global_nr = Some(json!({"from": 0, "to": 1000}));
                    if rng.chance(1, 3) {
                        local_nr = Some(iv);
                    }
                } else {
                    local_nr = Some(iv);
                }
            }
        }
        creds.push(CredUse { held, state_list, ts_only: None });
        // attributes of this credential, each in at most one role
        let mut names: Vec<(String, String)> = h.values.clone();
        rng.shuffle(&mut names);
        let mut first = true;
        let mut local_used = false;
        while let Some((name, raw)) = names.pop() {
            let role = rng.below(6);
            let is_num = raw.parse::<i32>().is_ok();
            let referent = format!("ref{k}");
            k += 1;
            // the local interval must sit on a revealed attribute or a predicate (legacy ignores unrevealed ones: F5)
            let mut nr = None;
            let mut rp = match role {
                0 | 1 => RefPlan { referent, kind: Kind::Single(variant(rng, &name)), cred: Some(ci), revealed: true, restrictions: None, non_revoked: None },
                2 => RefPlan { referent, kind: Kind::Single(variant(rng, &name)), cred: Some(ci), revealed: false, restrictions: None, non_revoked: None },
                3 if is_num => {
                    let v: i32 = raw.parse().unwrap();
                    let (t, th) = *rng.pick(&[("GE", v), ("GE", v - 7), ("GT", v - 1), ("LE", v), ("LE", v + 3), ("LT", v + 1), ("GE", -5), ("LT", 100000)]);
                    RefPlan { referent, kind: Kind::Pred(variant(rng, &name), t, th), cred: Some(ci), revealed: false, restrictions: None, non_revoked: None }
                }
                4 if !names.is_empty() => {
                    let (n2, _) = names.pop().unwrap();
                    let reveal = rng.chance(3, 4);
                    RefPlan { referent, kind: Kind::Group(vec![variant(rng, &name), variant(rng, &n2)]), cred: Some(ci), revealed: reveal, restrictions: None, non_revoked: None }
                }
                _ => {
                    if first {
                        RefPlan { referent, kind: Kind::Single(name.clone()), cred: Some(ci), revealed: true, restrictions: None, non_revoked: None }
                    } else {
                        k -= 1;
                        continue;
                    }
                }
            };
            let carries = rp.revealed || matches!(rp.kind, Kind::Pred(..));
            if carries && local_nr.is_some() && (!local_used || rng.chance(1, 3)) {
                nr = local_nr.clone();
                local_used = true;
            }
            rp.non_revoked = nr;
            if rng.chance(1, 3) {
                // value restrictions name the attribute: the legacy verifier keys its value map by the *requested* spelling,
                // the W3C verifier by the credential's own spelling (F19) — an honest request uses the one its format understands
                let revealed_pairs: Vec<(String, String)> = match (&rp.kind, rp.revealed) {
                    (Kind::Single(n), true) => vec![(if w3c { name.clone() } else { n.clone() }, raw.clone())],
                    _ => vec![],
                };
                rp.restrictions = Some(true_restrictions(rng, cast, held, &revealed_pairs));
            }
            // a predicate referent restricted by the marker / the (true) value of its own attribute, spelled as the credential spells it
            if let Kind::Pred(n, _, _) = &mut rp.kind {
                if rng.chance(1, 4) {
                    *n = name.clone();
                    // (W3C: the subject shows a predicate attribute as the marker `true`; a value leaf on it is outside the hypotheses of
                    // C04_w3c — `predsServed` — so the W3C stream keeps to the marker)
                    rp.restrictions = Some(if w3c || rng.chance(1, 2) { json!({ format!("attr::{name}::marker"): "1" }) } else { json!({ format!("attr::{name}::value"): raw }) });
                }
            }
            first = false;
            // a second predicate on the same attribute (a range), sometimes
            let range = match &rp.kind {
                Kind::Pred(n, t, _) if rng.chance(1, 3) => {
                    let v: i32 = raw.parse().unwrap_or(0);
                    let (t2, th2) = if t.starts_with('G') { ("LE", v + 1 + rng.below(20) as i32) } else { ("GE", v - 1 - rng.below(20) as i32) };
                    Some(RefPlan { referent: format!("ref{k}"), kind: Kind::Pred(variant(rng, n), t2, th2), cred: Some(ci), revealed: false, restrictions: None, non_revoked: None })
                }
                _ => None,
            };
            refs.push(rp);
            if let Some(r2) = range {
                k += 1;
                refs.push(r2);
            }
        }
        if local_nr.is_some() && !local_used && global_nr.is_none() {
            // make sure the interval is demanded somewhere the legacy verifier looks
            refs.push(RefPlan { referent: format!("ref{k}"), kind: Kind::Pred("age".into(), "GE", 0), cred: Some(ci), revealed: false, restrictions: None, non_revoked: local_nr.clone() });
            k += 1;
        }
    }
    if !w3c && rng.chance(1, 4) {
        refs.push(RefPlan { referent: format!("ref{k}"), kind: Kind::SelfAttested("nickname".into()), cred: None, revealed: true, restrictions: if rng.chance(1, 2) { Some(json!({})) } else { None }, non_revoked: None });
    }
    // an unused credential passed along (no referent points at it)
    if rng.chance(1, 3) {
        let extra = *rng.pick(&alice);
        if !chosen.contains(&extra) {
            let pos = rng.below(creds.len() as u64 + 1) as usize;
            creds.insert(pos, CredUse { held: extra, state_list: None, ts_only: None });
            for r in refs.iter_mut() {
                if let Some(c) = r.cred.as_mut() {
                    if *c >= pos {
                        *c += 1;
                    }
                }
            }
        }
    }
    // a request may not use a new tag name and its legacy spelling together (`verify_presentation` refuses such a request
    // outright): an honest verifier writes one spelling, so the legacy-spelled restrictions give way
    for (new_tag, old_tag) in [("\"issuer_id\"", "\"issuer_did\""), ("\"schema_issuer_id\"", "\"schema_issuer_did\"")] {
        let has = |r: &RefPlan, t: &str| r.restrictions.as_ref().map(|q| q.to_string().contains(t)).unwrap_or(false);
        if refs.iter().any(|r| has(r, new_tag)) {
            for r in refs.iter_mut() {
                if has(r, old_tag) {
                    r.restrictions = None;
                }
            }
        }
    }
    Plan { creds, refs, global_nr, nonce: format!("{}", 1000 + rng.below(1_000_000_000)), holder: 0 }
}

/// verifier options for an honest verification of `plan`
pub fn honest_vopts(cast: &Cast, plan: &Plan) -> VOpts {
    let mut lists = vec![];
    let mut any_rev = false;
    for cu in &plan.creds {
        if let (Some((ri, _)), Some(li)) = (cast.creds[cu.held].rev, cu.state_list) {
            any_rev = true;
            if !lists.contains(&(ri, li)) {
                lists.push((ri, li));
            }
        }
    }
    // every other plan is verified by a verifier that resolves exactly the definitions the presentation uses
    let used: Vec<usize> = plan.creds.iter().enumerate().filter(|(ci, _)| plan.refs.iter().any(|r| r.cred == Some(*ci))).map(|(_, cu)| cast.creds[cu.held].def).collect();
    let narrow = plan.nonce.bytes().last().map(|b| b % 2 == 0).unwrap_or(false);
    VOpts { lists: if any_rev { Some(lists) } else { None }, rev_reg_defs: any_rev, only_defs: if narrow { Some(used) } else { None }, ..Default::default() }
}

// helpers for typed W3C alterations -------------------------------------------------------------

/// replace the credential presentation proof of `vc` (keeps purpose and verification method unless given)
pub fn set_w3c_proof(vc: &mut W3CCredential, value: &CredentialPresentationProofValue, verification_method: Option<String>, purpose: Option<ProofPurpose>) {
    let vm = verification_method.unwrap_or_else(|| value.cred_def_id.to_string());
    let p = DataIntegrityProof::new(purpose.unwrap_or(ProofPurpose::AssertionMethod), vm, value, None).unwrap();
    vc.proof = OneOrMany::One(CredentialProof::AnonCredsDataIntegrityProof(p));
}

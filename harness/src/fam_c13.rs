//! C13: attribute encoding — exact correspondence at every call site.
use crate::out::Out;
use crate::rng::Rng;
use anoncreds::data_types::credential::RawCredentialValues;
use anoncreds::types::MakeCredentialValues;
use serde_json::{json, Value};
use std::collections::{BTreeSet, HashMap};

pub const ALPHABET: &[&str] = &[
    "0", "1", "2", "7", "8", "9", "+", "-", " ", "\t", "\n", "\r", "\u{0}", "\u{1f}", "a", "e", "x", "_", ".", ",",
    "١", "２", "०", "߁", "é", "ß", "İ", "ǅ", "\u{a0}", "\u{feff}", "\u{200b}", "−", "＋", "𝟏", "😀", "E", "/", ":", "\"", "\\",
];

fn gen_strings(rng: &mut Rng, n_random: u64, thorough: bool) -> Vec<(String, &'static str)> {
    let mut v: Vec<(String, &'static str)> = Vec::new();
    // exhaustive boundary forms
    let p31: i128 = 1 << 31;
    let bases: Vec<i128> = vec![0, p31, -p31, p31 - 1, p31 * 10, -p31 * 10, p31 / 10, -(p31 / 10), 99_999_999, 100_000_000, 1 << 32, -(1 << 32), 1 << 63, i128::from(u64::MAX)];
    let span: i128 = if thorough { 40 } else { 3 };
    for b in &bases {
        for d in -span..=span {
            let x = b + d;
            let mag = x.unsigned_abs().to_string();
            for zeros in 0..=3 {
                let z = "0".repeat(zeros);
                for sign in ["", "+", "-"] {
                    v.push((format!("{sign}{z}{mag}"), "boundary"));
                }
            }
        }
    }
    // all strings of length <= 2 over the alphabet
    v.push((String::new(), "short"));
    for a in ALPHABET {
        v.push((a.to_string(), "short"));
        for b in ALPHABET {
            v.push((format!("{a}{b}"), "short"));
        }
    }
    // sign/space/format decorations of small numbers
    for core in ["0", "5", "42", "2147483647", "2147483648"] {
        for (pre, post) in [(" ", ""), ("", " "), ("", "\n"), ("\n", ""), ("+", "+"), ("+-", ""), ("--", ""), ("-+", ""), ("", ".0"), ("", "e0"), ("0x", ""), ("1_", ""), ("", "\u{0}"), ("\u{feff}", "")] {
            v.push((format!("{pre}{core}{post}"), "decorated"));
        }
    }
    // random digit strings
    for _ in 0..n_random {
        let len = rng.range(1, 12) as usize;
        let mut s = String::new();
        match rng.below(4) {
            0 => s.push('+'),
            1 => s.push('-'),
            _ => {}
        }
        for _ in 0..len {
            s.push(char::from(b'0' + rng.below(10) as u8));
        }
        v.push((s, "rand_digits"));
    }
    // random unicode / control / mixed
    for _ in 0..n_random {
        let len = rng.below(12) as usize;
        let mut s = String::new();
        for _ in 0..len {
            match rng.below(5) {
                0 => { let a: &&str = rng.pick(ALPHABET); s.push_str(*a) }
                1 => s.push(char::from(rng.below(128) as u8)),
                2 => {
                    let c = loop {
                        if let Some(c) = char::from_u32(rng.below(0x11_0000) as u32) {
                            break c;
                        }
                    };
                    s.push(c)
                }
                _ => s.push(char::from(b'0' + rng.below(10) as u8)),
            }
        }
        v.push((s, "rand_unicode"));
    }
    // long strings
    for k in 0..(if thorough { 12 } else { 4 }) {
        let len = [55usize, 56, 63, 64, 65, 119, 120, 1000, 4096, 65536, 65537, 100_000][k % 12];
        let unit = *rng.pick(&["a", "9", "é", "😀"]);
        v.push((unit.repeat(len), "long"));
    }
    v
}

pub const SITES: &[&str] = &["fn", "add_raw", "raw_values", "w3c_subject", "w3c_number", "ffi"];

pub fn gen(rng: &mut Rng, thorough: bool, out: &mut Out) -> Vec<Value> {
    let n_random = if thorough { 300_000 } else { 12_000 };
    let strings = gen_strings(rng, n_random, thorough);
    let mut seen: BTreeSet<String> = BTreeSet::new();
    let mut cases = Vec::new();
    for (s, class) in strings {
        if !seen.insert(s.clone()) {
            continue;
        }
        out.count(&format!("c13:{class}"));
        let is_lit = s.parse::<i32>().is_ok();
        out.count(if is_lit { "c13:int_branch" } else { "c13:sha_branch" });
        for site in SITES {
            if *site == "w3c_number" && !is_lit {
                continue;
            }
            if *site == "ffi" && s.contains('\u{0}') {
                continue; // C strings cannot carry an interior NUL
            }
            if !cfg!(feature = "unit_hooks") && ["fn", "w3c_subject", "w3c_number"].contains(site) {
                continue;
            }
            cases.push(json!({"op":"enc","fam":format!("c13.{site}"),"site":site,"s":s,"nt":true}));
        }
    }
    cases
}

fn enc_result<T>(r: Result<T, anoncreds::Error>, f: impl Fn(T) -> Value) -> Value {
    match r {
        Ok(v) => f(v),
        Err(_) => json!({"err": true}),
    }
}

/// implementation outcome of one `enc` case
pub fn eval(case: &Value) -> Value {
    let s = case["s"].as_str().unwrap_or("").to_string();
    match case["site"].as_str().unwrap_or("") {
        #[cfg(feature = "unit_hooks")]
        "fn" => enc_result(anoncreds::verif_hooks::encode_credential_attribute(&s), |e| json!(e)),
        "add_raw" => {
            let mut mk = MakeCredentialValues::default();
            match mk.add_raw("a", s.clone()) {
                Ok(()) => {
                    let cv: anoncreds::data_types::credential::CredentialValues = mk.into();
                    json!(cv.0["a"].encoded)
                }
                Err(_) => json!({"err": true}),
            }
        }
        "raw_values" => {
            let mut m = HashMap::new();
            m.insert("a".to_string(), s.clone());
            enc_result(RawCredentialValues(m).encode(), |cv| json!(cv.0["a"].encoded))
        }
        #[cfg(feature = "unit_hooks")]
        "w3c_subject" | "w3c_number" => {
            use anoncreds::data_types::w3c::credential_attributes::{CredentialAttributeValue, CredentialSubject};
            let mut m = HashMap::new();
            let v = if case["site"] == "w3c_number" {
                match s.parse::<i32>() {
                    Ok(n) => CredentialAttributeValue::Number(n),
                    Err(_) => return json!({"not_a_number": true}),
                }
            } else {
                CredentialAttributeValue::String(s.clone())
            };
            m.insert("a".to_string(), v);
            enc_result(anoncreds::verif_hooks::credential_subject_encode(&CredentialSubject(m)), |cv| json!(cv.0["a"].encoded))
        }
        "ffi" => match crate::ffi::ffi_encode(&[&s, "x", &s]) {
            Ok(joined) => {
                let parts: Vec<&str> = joined.split(',').collect();
                if parts.len() == 3 && parts[0] == parts[2] {
                    json!(parts[0])
                } else {
                    json!({"malformed": joined})
                }
            }
            Err(rc) => json!({"err": rc}),
        },
        _ => json!({"unknown_site": true}),
    }
}

//! Abstraction functions: real requests / verifier contexts / presentations → the model's wire forms
//! (`verify_legacy`, `verify_w3c` ops). Ghost data comes from the scenario engine's knowledge of how
//! each object was built or altered.
#![allow(dead_code)]
use crate::cast::{norm, Cast, RegHist};
use anoncreds::data_types::cred_def::{CredentialDefinition, CredentialDefinitionId};
use anoncreds::data_types::pres_request::{NonRevokedInterval, PredicateTypes, PresentationRequest};
use anoncreds::data_types::rev_reg_def::{RevocationRegistryDefinition, RevocationRegistryDefinitionId};
use anoncreds::data_types::schema::{Schema, SchemaId};
use anoncreds::data_types::w3c::credential_attributes::CredentialAttributeValue;
use anoncreds::data_types::w3c::presentation::W3CPresentation;
use anoncreds::data_types::w3c::credential::CredentialProof;
use anoncreds::data_types::w3c::proof::DataIntegrityProofValue;
use anoncreds::data_types::w3c::one_or_many::OneOrMany;
use anoncreds::types::RevocationStatusList;
use serde_json::{json, Value};
use std::collections::HashMap;

pub fn ivl(i: &Option<NonRevokedInterval>) -> Value {
    match i {
        None => Value::Null,
        Some(i) => json!({"from": i.from, "to": i.to}),
    }
}

#[cfg(feature = "unit_hooks")]
fn restr(q: &Option<anoncreds::verif_hooks::Query>) -> Value {
    match q {
        None => Value::Null,
        Some(q) => crate::fam_c16::query_to_ast(q),
    }
}

/// without hooks the Query type cannot be named; restrictions are re-parsed from the printed form by the model
#[cfg(not(feature = "unit_hooks"))]
fn restr<T: serde::Serialize>(q: &Option<T>) -> Value {
    match q {
        None => Value::Null,
        Some(q) => json!({"printed": serde_json::to_value(q).unwrap()}),
    }
}

pub fn abs_req(req: &PresentationRequest) -> Value {
    let r = req.value();
    let mut attrs: Vec<Value> = r
        .requested_attributes
        .iter()
        .map(|(k, a)| json!([k, {"name": a.name, "names": a.names, "restrictions": restr(&a.restrictions), "non_revoked": ivl(&a.non_revoked)}]))
        .collect();
    attrs.sort_by(|a, b| a[0].as_str().cmp(&b[0].as_str()));
    let mut preds: Vec<Value> = r
        .requested_predicates
        .iter()
        .map(|(k, p)| {
            let ty = match p.p_type {
                PredicateTypes::GE => "GE",
                PredicateTypes::GT => "GT",
                PredicateTypes::LE => "LE",
                PredicateTypes::LT => "LT",
            };
            json!([k, {"name": p.name, "p_type": ty, "p_value": p.p_value, "restrictions": restr(&p.restrictions), "non_revoked": ivl(&p.non_revoked)}])
        })
        .collect();
    preds.sort_by(|a, b| a[0].as_str().cmp(&b[0].as_str()));
    // the nonce is compared as a number (`Nonce::as_native`): canonical decimal form on the wire
    let nonce = {
        let s = r.nonce.to_string();
        let t = s.trim_start_matches('0');
        if t.is_empty() { "0".to_string() } else { t.to_string() }
    };
    json!({"nonce": nonce, "attrs": attrs, "preds": preds, "non_revoked": ivl(&r.non_revoked)})
}

/// accumulator equivalence classes: affine bytes → small id
#[derive(Default)]
pub struct AccTable(pub Vec<Vec<u8>>);
impl AccTable {
    pub fn id_of_str(&mut self, s: &str) -> Option<u64> {
        let b = crate::fam_c09::point_bytes(s)?;
        if let Some(i) = self.0.iter().position(|x| *x == b) {
            return Some(i as u64);
        }
        self.0.push(b);
        Some(self.0.len() as u64 - 1)
    }
    pub fn id_of_list(&mut self, l: &RevocationStatusList) -> Option<u64> {
        let j = serde_json::to_value(l).ok()?;
        let s = j.get("currentAccumulator")?.as_str()?.to_string();
        self.id_of_str(&s)
    }
    pub fn id_of_state(&mut self, st: &anoncreds::types::CredentialRevocationState) -> Option<u64> {
        let j = serde_json::to_value(st).ok()?;
        let s = j["rev_reg"]["accum"].as_str()?.to_string();
        self.id_of_str(&s)
    }
}

/// how the verifier is set up for one verification
#[derive(Clone, Default)]
pub struct VOpts {
    /// supply, under the id of def `.0`, the credential definition of def `.1`
    pub swap_def: Option<(usize, usize)>,
    pub drop_schema: Option<usize>,
    pub drop_def: Option<usize>,
    /// (registry history, list index) of every status list supplied; None = no lists argument at all
    pub lists: Option<Vec<(usize, usize)>>,
    pub rev_reg_defs: bool,
    pub override_: Option<Vec<(String, Vec<(u64, u64)>)>>,
    /// supply only these definitions (and their schemas): a verifier that resolves exactly what the presentation names
    pub only_defs: Option<Vec<usize>>,
}

pub struct RealCtx {
    pub schemas: HashMap<SchemaId, Schema>,
    pub cred_defs: HashMap<CredentialDefinitionId, CredentialDefinition>,
    pub rev_reg_defs: Option<HashMap<RevocationRegistryDefinitionId, RevocationRegistryDefinition>>,
    pub lists: Option<Vec<RevocationStatusList>>,
    pub override_: Option<HashMap<RevocationRegistryDefinitionId, HashMap<u64, u64>>>,
}

pub fn build_ctx(cast: &Cast, o: &VOpts, accs: &mut AccTable) -> (RealCtx, Value) {
    let w = &cast.w;
    let mut schemas = HashMap::new();
    let mut a_schemas = vec![];
    for (i, d) in w.defs.iter().enumerate() {
        if o.drop_schema == Some(i) || o.only_defs.as_ref().map(|v| !v.contains(&i)).unwrap_or(false) {
            continue;
        }
        if schemas.insert(d.sid.clone(), d.schema.clone()).is_none() {
            a_schemas.push(json!([d.sid.0, {"name": d.schema.name, "version": d.schema.version, "issuer_id": d.schema.issuer_id.0, "attr_names": d.schema.attr_names.0}]));
        }
    }
    let mut cred_defs = HashMap::new();
    let mut a_defs = vec![];
    for (i, d) in w.defs.iter().enumerate() {
        if o.drop_def == Some(i) || o.only_defs.as_ref().map(|v| !v.contains(&i)).unwrap_or(false) {
            continue;
        }
        let src = match o.swap_def {
            Some((at, from)) if at == i => from,
            _ => i,
        };
        let s = &w.defs[src];
        cred_defs.insert(d.cid.clone(), s.cd.try_clone().unwrap());
        a_defs.push(json!([d.cid.0, {"issuer_id": s.cd.issuer_id.0, "key": src, "revocable": s.revocable}]));
    }
    let (rev_reg_defs, a_rrd) = if o.rev_reg_defs {
        let mut m = HashMap::new();
        let mut a = vec![];
        for (di, d) in w.defs.iter().enumerate() {
            for (ri, r) in d.regs.iter().enumerate() {
                m.insert(r.rid.clone(), r.def.clone());
                a.push(json!([r.rid.0, {"reg_key": di * 10 + ri}]));
            }
        }
        (Some(m), Value::Array(a))
    } else {
        (None, Value::Null)
    };
    let (lists, a_lists) = match &o.lists {
        None => (None, Value::Null),
        Some(sel) => {
            let mut v = vec![];
            let mut a = vec![];
            for (ri, li) in sel {
                let rh: &RegHist = &cast.regs[*ri];
                let l = rh.lists[*li].clone();
                let reg = &w.defs[rh.def].regs[rh.reg];
                a.push(json!({"reg_id": reg.rid.0, "ts": RegHist::ts(*li), "acc": accs.id_of_list(&l)}));
                v.push(l);
            }
            (Some(v), Value::Array(a))
        }
    };
    let (override_, a_ovr) = match &o.override_ {
        None => (None, Value::Null),
        Some(v) => {
            let m: HashMap<_, _> = v.iter().map(|(id, kv)| (RevocationRegistryDefinitionId::new_unchecked(id.clone()), kv.iter().copied().collect::<HashMap<u64, u64>>())).collect();
            let a: Vec<Value> = v.iter().map(|(id, kv)| json!([id, kv.iter().map(|(k, x)| json!([k, x])).collect::<Vec<_>>()])).collect();
            (Some(m), Value::Array(a))
        }
    };
    let a_ctx = json!({"schemas": a_schemas, "cred_defs": a_defs, "rev_reg_defs": a_rrd, "lists": a_lists, "override": a_ovr});
    (RealCtx { schemas, cred_defs, rev_reg_defs, lists, override_ }, a_ctx)
}

fn sorted_pairs(m: &serde_json::Map<String, Value>, f: impl Fn(&Value) -> Value) -> Vec<Value> {
    let mut v: Vec<Value> = m.iter().map(|(k, x)| json!([k, f(x)])).collect();
    v.sort_by(|a, b| a[0].as_str().cmp(&b[0].as_str()));
    v
}

/// visible part of a CL sub-proof (JSON of `SubProof`)
pub fn abs_sub_visible(sub: &Value) -> (Value, Value, bool) {
    let empty = serde_json::Map::new();
    let rv = sub["primary_proof"]["eq_proof"]["revealed_attrs"].as_object().unwrap_or(&empty);
    let revealed = sorted_pairs(rv, |x| x.clone());
    let mut preds: Vec<Value> = sub["primary_proof"]["ge_proofs"]
        .as_array()
        .map(|a| a.iter().map(|g| json!({"attr": g["predicate"]["attr_name"], "ty": g["predicate"]["p_type"], "value": g["predicate"]["value"]})).collect())
        .unwrap_or_default();
    // canonical order (the sub-proof request keeps a set): by (attr, ty, value)
    preds.sort_by(|a, b| (a["attr"].as_str(), a["ty"].as_str(), a["value"].as_i64()).cmp(&(b["attr"].as_str(), b["ty"].as_str(), b["value"].as_i64())));
    (Value::Array(revealed), Value::Array(preds), !sub["non_revoc_proof"].is_null())
}

/// model sub-proof = visible part (from the real JSON) + ghost
pub fn abs_sub(sub: &Value, ghost: &Value) -> Value {
    let (revealed, preds, _) = abs_sub_visible(sub);
    let mut g = ghost.clone();
    g["revealed"] = revealed;
    g["preds"] = preds;
    g
}

/// legacy presentation JSON (possibly edited) + ghosts → model presentation
pub fn abs_pres_legacy(p: &Value, ghosts: &[Value], agg: &Value) -> Option<Value> {
    let rp = &p["requested_proof"];
    let empty = serde_json::Map::new();
    let obj = |v: &Value| v.as_object().cloned().unwrap_or_else(|| empty.clone());
    let revealed = sorted_pairs(&obj(&rp["revealed_attrs"]), |x| json!({"idx": x["sub_proof_index"], "raw": x["raw"], "encoded": x["encoded"]}));
    let groups = sorted_pairs(&obj(&rp["revealed_attr_groups"]), |x| {
        let vals = sorted_pairs(&obj(&x["values"]), |y| json!([y["raw"], y["encoded"]]));
        json!({"idx": x["sub_proof_index"], "values": vals})
    });
    let self_attested = sorted_pairs(&obj(&rp["self_attested_attrs"]), |x| x.clone());
    let unrevealed = sorted_pairs(&obj(&rp["unrevealed_attrs"]), |x| x["sub_proof_index"].clone());
    let predicates = sorted_pairs(&obj(&rp["predicates"]), |x| x["sub_proof_index"].clone());
    let identifiers: Vec<Value> = p["identifiers"].as_array()?.iter().map(|i| json!({"schema_id": i["schema_id"], "cred_def_id": i["cred_def_id"], "rev_reg_id": i["rev_reg_id"], "timestamp": i["timestamp"]})).collect();
    let subs_json = p["proof"]["proofs"].as_array()?;
    if subs_json.len() != ghosts.len() {
        return None;
    }
    let subs: Vec<Value> = subs_json.iter().zip(ghosts).map(|(s, g)| abs_sub(s, g)).collect();
    Some(json!({"revealed": revealed, "groups": groups, "self_attested": self_attested, "unrevealed": unrevealed, "predicates": predicates, "identifiers": identifiers, "subs": subs, "agg": agg}))
}

/// `proof` member of a W3C credential document → the model's `ProofDoc.Doc` shape. Which values are AnonCreds data-integrity
/// proofs is the library's own classification (serde-derived, see the trusted base); purpose and kind are read from the document
pub fn abs_proof_doc(proof: &Value) -> Value {
    use anoncreds::data_types::w3c::proof::{DataIntegrityProof, DataIntegrityProofValue};
    let scalar = |v: &Value| -> Value {
        match serde_json::from_value::<DataIntegrityProof>(v.clone()) {
            Ok(p) => {
                let purpose = if v["proofPurpose"] == "assertionMethod" { 0 } else { 1 };
                let kind = match p.get_proof_value() { DataIntegrityProofValue::CredentialSignature(_) => 0, DataIntegrityProofValue::CredentialPresentation(_) => 1, DataIntegrityProofValue::Presentation(_) => 2 };
                json!({"anon": [purpose, kind, 0]})
            }
            Err(_) => json!({"other": 0}),
        }
    };
    match proof {
        Value::Array(a) => json!({"arr": a.iter().map(|e| if e.is_array() { json!({"nested": 0}) } else { scalar(e) }).collect::<Vec<_>>()}),
        v => json!({"val": scalar(v)}),
    }
}

/// `@context` list of a document → the model's `Envelope.Ctx` list: the three URIs the library compares with are named, the
/// issuer-dependent vocabulary object is `obj 0`, everything else only has an identity (equal values get equal identities)
pub fn abs_contexts(ctx: &Value) -> Vec<Value> {
    let mut seen: Vec<Value> = vec![];
    let mut id = |v: &Value| -> u64 { match seen.iter().position(|x| x == v) { Some(i) => i as u64 + 1, None => { seen.push(v.clone()); seen.len() as u64 } } };
    ctx.as_array().cloned().unwrap_or_default().iter().map(|c| match c {
        Value::String(s) if s == "https://www.w3.org/2018/credentials/v1" => json!({"uri": "v11"}),
        Value::String(s) if s == "https://www.w3.org/ns/credentials/v2" => json!({"uri": "v20"}),
        Value::String(s) if s == "https://w3id.org/security/data-integrity/v2" => json!({"uri": "di"}),
        Value::String(_) => json!({"uri": id(c)}),
        Value::Object(o) if o.len() == 1 && o.get("@vocab") == Some(&json!("https://www.w3.org/ns/credentials/issuer-dependent#")) => json!({"obj": 0}),
        _ => json!({"obj": id(c)}),
    }).collect()
}

/// W3C presentation (possibly edited, typed) + ghosts → model presentation.
/// `validate_ok`: the scenario engine knows whether it damaged contexts/types (validate() is crate-private).
pub fn abs_pres_w3c(p: &W3CPresentation, ghosts: &[Value], agg: &Value, validate_ok: bool) -> Option<Value> {
    if p.verifiable_credential.len() != ghosts.len() {
        return None;
    }
    let mut creds = vec![];
    for (vc, g) in p.verifiable_credential.iter().zip(ghosts) {
        let mut subject: Vec<Value> = vc
            .credential_subject
            .0
            .iter()
            .map(|(k, v)| {
                let x = match v {
                    CredentialAttributeValue::String(s) => json!(s),
                    CredentialAttributeValue::Number(n) => json!(n),
                    CredentialAttributeValue::Bool(b) => json!(b),
                };
                json!([k, x])
            })
            .collect();
        subject.sort_by(|a, b| a[0].as_str().cmp(&b[0].as_str()));
        let vcj = serde_json::to_value(vc).ok()?;
        // the AnonCreds data-integrity proof, as get_data_integrity_proof finds it (first anoncreds-2023 entry)
        let proofs: Vec<Value> = match &vcj["proof"] {
            Value::Array(a) => a.clone(),
            other => vec![other.clone()],
        };
        let di = proofs.iter().find(|x| x["cryptosuite"] == "anoncreds-2023");
        let vm = di.map(|x| x["verificationMethod"].as_str().unwrap_or("").to_string()).unwrap_or_default();
        // what the proof is, read off the object itself (not through the library's accessors, which are part of what is checked): the
        // first AnonCreds data-integrity proof, its purpose, and which kind of value it carries
        let di_typed = match &vc.proof {
            OneOrMany::One(CredentialProof::AnonCredsDataIntegrityProof(x)) => Some(x),
            OneOrMany::Many(v) => v.iter().find_map(|c| if let CredentialProof::AnonCredsDataIntegrityProof(x) = c { Some(x) } else { None }),
            _ => None,
        };
        let purpose_ok = di.map(|x| x["proofPurpose"] == "assertionMethod").unwrap_or(false);
        let as_pres_proof = di_typed.and_then(|x| if let DataIntegrityProofValue::CredentialPresentation(pv) = x.get_proof_value() { Some(pv) } else { None });
        match (if purpose_ok { as_pres_proof } else { None }).ok_or(()) {
            Ok(pv) => {
                let subj = serde_json::to_value(&pv.sub_proof).ok()?;
                creds.push(json!({"issuer": vc.issuer.0, "subject": subject, "proof_ok": true, "verification_method": vm,
                    "schema_id": pv.schema_id.0, "cred_def_id": pv.cred_def_id.0, "rev_reg_id": pv.rev_reg_id.as_ref().map(|r| r.0.clone()), "timestamp": pv.timestamp,
                    "sub": abs_sub(&subj, g)}));
            }
            Err(_) => {
                let mut gg = g.clone();
                gg["revealed"] = json!([]);
                gg["preds"] = json!([]);
                creds.push(json!({"issuer": vc.issuer.0, "subject": subject, "proof_ok": false, "verification_method": vm,
                    "schema_id": "", "cred_def_id": "", "rev_reg_id": null, "timestamp": null, "sub": gg}));
            }
        }
    }
    let pj = serde_json::to_value(&p.proof).ok()?;
    let pres_proof_ok = pj["proofPurpose"] == "authentication" && matches!(p.proof.get_proof_value(), DataIntegrityProofValue::Presentation(_));
    // the envelope as the document shows it: the model decides `validate()` from it (Envelope.presValid); the engine's flag is kept
    // only for the cross-check in the driver (`validate_ok` must agree with what the model computes from `env`)
    let doc = serde_json::to_value(p).ok()?;
    let mut types: Vec<Value> = doc["type"].as_array().cloned().unwrap_or_default();
    types.sort_by_key(|t| t.to_string());
    let env = json!({"ctx": abs_contexts(&doc["@context"]), "types": types});
    Some(json!({"validate_ok": validate_ok, "env": env, "creds": creds, "pres_proof_ok": pres_proof_ok, "agg": agg}))
}

pub fn norm_name(s: &str) -> String {
    norm(s)
}

//! One PRNG for every random choice: SplitMix64 seeded by VERIF_SEED.
#[derive(Clone)]
pub struct Rng(pub u64);

impl Rng {
    pub fn new(seed: u64) -> Self {
        Rng(seed ^ 0x9E37_79B9_7F4A_7C15)
    }
    pub fn fork(&mut self, label: &str) -> Rng {
        let mut h = self.next();
        for b in label.bytes() {
            h = h.wrapping_mul(0x100_0000_01b3) ^ (b as u64);
        }
        Rng(h)
    }
    pub fn next(&mut self) -> u64 {
        self.0 = self.0.wrapping_add(0x9E37_79B9_7F4A_7C15);
        let mut z = self.0;
        z = (z ^ (z >> 30)).wrapping_mul(0xBF58_476D_1CE4_E5B9);
        z = (z ^ (z >> 27)).wrapping_mul(0x94D0_49BB_1331_11EB);
        z ^ (z >> 31)
    }
    pub fn below(&mut self, n: u64) -> u64 {
        if n == 0 {
            0
        } else {
            self.next() % n
        }
    }
    pub fn range(&mut self, lo: i64, hi: i64) -> i64 {
        lo + self.below((hi - lo + 1) as u64) as i64
    }
    pub fn chance(&mut self, num: u64, den: u64) -> bool {
        self.below(den) < num
    }
    pub fn pick<'a, T>(&mut self, xs: &'a [T]) -> &'a T {
        &xs[self.below(xs.len() as u64) as usize]
    }
    pub fn shuffle<T>(&mut self, xs: &mut [T]) {
        for i in (1..xs.len()).rev() {
            let j = self.below(i as u64 + 1) as usize;
            xs.swap(i, j);
        }
    }
}

//! System-level scenario families (real crypto): honest flows (C04) and the attack / alteration
//! classes of C01 C02 C03 C05 C06 C08 C12.
#![allow(dead_code)]
use crate::abs::*;
use crate::cast::*;
use crate::out::Out;
use crate::rng::Rng;
use crate::scen::*;
use serde_json::{json, Value};

pub type Cases = Vec<(Value, Value)>;

/// C04: honest issue-hold-present-verify flows, both formats
pub fn c04(eng: &mut Engine, rng: &mut Rng, thorough: bool, out: &mut Out) -> Cases {
    let mut cases = vec![];
    let n = if thorough { 3000 } else { 140 };
    for i in 0..n {
        let w3c = i % 2 == 1;
        let with_rev = i % 3 == 0;
        eng.incremental = false;
        let plan = gen_honest_plan(rng, &eng.cast, w3c, with_rev);
        let o = honest_vopts(&eng.cast, &plan);
        // every other revocation flow: the holder keeps a state and updates it list by list (other credentials of the registry are
        // revoked and re-issued on the way) instead of deriving it afresh for the list it presents
        eng.incremental = with_rev && (i / 6) % 2 == 1;
        let cls = format!("honest:{}:{}", if w3c { "w3c" } else { "legacy" }, if with_rev { if eng.incremental { "rev-incremental-state" } else { "rev" } } else { "plain" });
        // every third plan is broken in one way the prover must refuse (exercises the prover model's error paths)
        let mut plan = plan;
        let broken = i % 3 == 2;
        if broken {
            break_plan(rng, &mut plan, eng);
        }
        let r = if w3c { eng.build_w3c(&plan).map(|_| ()) } else { eng.build_legacy(&plan).map(|_| ()) };
        if let Some((mut pc, imp)) = eng.last_present.take() {
            if !broken && imp.get("err").is_none() {
                // the hypotheses of C04's theorem (meetsDemands) must hold of the honest flows this family exercises
                let (_, actx) = build_ctx(&eng.cast, &o, &mut eng.accs);
                let mut mc = json!({"op": if w3c { "meets_w3c" } else { "meets_legacy" }, "fam": if w3c { "c04.meets_w3c" } else { "c04.meets_legacy" }, "dir": "exact", "nt": true,
                    "ctx": actx, "pctx": pc["pctx"], "req": pc["req"], "sel": pc["sel"]});
                if !w3c {
                    mc["self_attested"] = pc["self_attested"].clone();
                }
                cases.push((mc, json!({"meets": true, "failed": []})));
            }
            pc["fam"] = json!(if w3c { "c04.present_w3c" } else { "c04.present_legacy" });
            pc["cls"] = json!(if broken { "broken-selection" } else { "honest-selection" });
            pc["dir"] = json!("exact");
            out.count(&format!("present:{}:{}", if broken { "broken" } else { "honest" }, if imp.get("err").is_some() { "err" } else { "ok" }));
            cases.push((pc, imp));
        }
        if broken {
            let _ = r;
            continue;
        }
        if w3c {
            match eng.build_w3c(&plan) {
                Ok(b) => emit_w3c(eng, out, &mut cases, "c04.w3c", &cls, "", Some(true), &b.pres, &b.ghosts, &b.agg, true, &b.req, &o, "verdict"),
                Err(e) => out.oracle_fail("honest W3C presentation could not be built", &json!({"fam":"c04.w3c","cls":cls,"plan": format!("{plan:?}")}), &json!({"err": e})),
            }
        } else {
            match eng.build_legacy(&plan) {
                Ok(b) => emit_legacy(eng, out, &mut cases, "c04.legacy", &cls, "", Some(true), &b.pres, &b.ghosts, &b.agg, &b.req, &o, "verdict"),
                Err(e) => out.oracle_fail("honest legacy presentation could not be built", &json!({"fam":"c04.legacy","cls":cls,"plan": format!("{plan:?}")}), &json!({"err": e})),
            }
        }
    }
    // F19 (known finding): W3C value restriction whose tag spells the attribute as the request does, not as the credential does
    {
        let mut plan = basic_plan(rng, eng, "a_alice", false);
        plan.refs[0].kind = Kind::Single(" NAME ".into());
        plan.refs[0].restrictions = Some(json!({"attr:: NAME ::value": "Alice"}));
        let o = plain_opts();
        if let Ok(b) = eng.build_w3c(&plan) {
            emit_w3c(eng, out, &mut cases, "c04.w3c", "honest:w3c:value-restriction-name-respelled", "C04:w3c:value-restriction-name-respelled", Some(true), &b.pres, &b.ghosts, &b.agg, true, &b.req, &o, "verdict");
        }
        if let Ok(b) = eng.build_legacy(&plan) {
            emit_legacy(eng, out, &mut cases, "c04.legacy", "honest:legacy:value-restriction-name-respelled", "", Some(true), &b.pres, &b.ghosts, &b.agg, &b.req, &o, "verdict");
        }
    }
    eng.incremental = false;
    // every boundary shape, in both formats, every run (the random stream above only meets them now and then)
    for (k, plan) in extreme_plans(rng, &eng.cast).into_iter().enumerate() {
        let o = honest_vopts(&eng.cast, &plan);
        if let Ok(b) = eng.build_legacy(&plan) {
            emit_legacy(eng, out, &mut cases, "c04.legacy", &format!("honest:legacy:boundary-shape-{k}"), "", Some(true), &b.pres, &b.ghosts, &b.agg, &b.req, &o, "verdict");
        } else {
            out.oracle_fail("honest legacy presentation could not be built", &json!({"fam":"c04.legacy","cls":format!("boundary-shape-{k}")}), &Value::Null);
        }
        if let Ok(b) = eng.build_w3c(&plan) {
            emit_w3c(eng, out, &mut cases, "c04.w3c", &format!("honest:w3c:boundary-shape-{k}"), "", Some(true), &b.pres, &b.ghosts, &b.agg, true, &b.req, &o, "verdict");
        } else {
            out.oracle_fail("honest W3C presentation could not be built", &json!({"fam":"c04.w3c","cls":format!("boundary-shape-{k}")}), &Value::Null);
        }
    }
    cases
}

// ---------------------------------------------------------------------------------------------
// helpers

fn req_from(j: &Value) -> Option<anoncreds::types::PresentationRequest> {
    serde_json::from_value(j.clone()).ok()
}

/// a plan with one credential of definition A: single revealed, single unrevealed, group, predicate
fn basic_plan(rng: &mut Rng, eng: &Engine, held: &str, with_pred: bool) -> Plan {
    let h = eng.cast.cred(held);
    let vals = &eng.cast.creds[h].values;
    let mut refs = vec![
        RefPlan { referent: "a_name".into(), kind: Kind::Single(vals[0].0.clone()), cred: Some(0), revealed: true, restrictions: None, non_revoked: None },
    ];
    if vals.len() >= 4 {
        refs.push(RefPlan { referent: "g_sh".into(), kind: Kind::Group(vec![vals[2].0.clone(), vals[3].0.clone()]), cred: Some(0), revealed: true, restrictions: None, non_revoked: None });
    } else {
        refs.push(RefPlan { referent: "u_dept".into(), kind: Kind::Single(vals[2].0.clone()), cred: Some(0), revealed: false, restrictions: None, non_revoked: None });
    }
    if with_pred {
        let v: i32 = vals[1].1.parse().unwrap_or(0);
        refs.push(RefPlan { referent: "p_age".into(), kind: Kind::Pred(vals[1].0.clone(), "GE", v - 7), cred: Some(0), revealed: false, restrictions: None, non_revoked: None });
    } else {
        refs.push(RefPlan { referent: "u_age".into(), kind: Kind::Single(vals[1].0.clone()), cred: Some(0), revealed: false, restrictions: None, non_revoked: None });
    }
    Plan { creds: vec![CredUse { held: h, state_list: None, ts_only: None }], refs, global_nr: None, nonce: format!("{}", 1000 + rng.below(1_000_000_000)), holder: 0 }
}

/// two credentials (definitions A and B share a schema; C has other attributes)
fn two_cred_plan(rng: &mut Rng, eng: &Engine, first: &str, second: &str) -> Plan {
    let h1 = eng.cast.cred(first);
    let h2 = eng.cast.cred(second);
    let v1 = &eng.cast.creds[h1].values;
    let v2 = &eng.cast.creds[h2].values;
    // the predicate goes on the second credential's first numeric attribute
    let (pname, pval) = v2.iter().find(|(_, v)| v.parse::<i32>().is_ok()).map(|(k, v)| (k.clone(), v.parse::<i32>().unwrap())).unwrap();
    let refs = vec![
        RefPlan { referent: "a1".into(), kind: Kind::Single(v1[0].0.clone()), cred: Some(0), revealed: true, restrictions: None, non_revoked: None },
        RefPlan { referent: "u1".into(), kind: Kind::Single(v1[1].0.clone()), cred: Some(0), revealed: false, restrictions: None, non_revoked: None },
        RefPlan { referent: "a2".into(), kind: Kind::Single(v2[0].0.clone()), cred: Some(1), revealed: true, restrictions: None, non_revoked: None },
        RefPlan { referent: "p2".into(), kind: Kind::Pred(pname, "GE", pval - 3), cred: Some(1), revealed: false, restrictions: None, non_revoked: None },
    ];
    Plan { creds: vec![CredUse { held: h1, state_list: None, ts_only: None }, CredUse { held: h2, state_list: None, ts_only: None }], refs, global_nr: None, nonce: format!("{}", 1000 + rng.below(1_000_000_000)), holder: 0 }
}

fn plain_opts() -> VOpts {
    VOpts::default()
}

// ---------------------------------------------------------------------------------------------
// C01: the presentation proves exactly what the request asks

pub fn c01(eng: &mut Engine, rng: &mut Rng, thorough: bool, out: &mut Out) -> Cases {
    let mut cases = vec![];
    let rounds = if thorough { 60 } else { 4 };
    let o = plain_opts();
    for round in 0..rounds {
        for held in ["a_alice", "c_alice", "l_alice"] {
            if round > 0 && held != "a_alice" && !thorough {
                continue;
            }
            let plan = basic_plan(rng, eng, held, true);
            let r0 = plan.request_json();
            let h = eng.cast.cred(held);
            let vals = eng.cast.creds[h].values.clone();
            let age: i32 = vals[1].1.parse().unwrap_or(0);
            // request variations, each verified against the presentation built for R0
            let mut variants: Vec<(&str, Value, Option<bool>)> = vec![("same", r0.clone(), Some(true))];
            let pkey = "p_age";
            for (cls, f) in [
                ("pred:value+1", Box::new(|r: &mut Value| r["requested_predicates"][pkey]["p_value"] = json!(age - 6)) as Box<dyn Fn(&mut Value)>),
                ("pred:value-1", Box::new(|r: &mut Value| r["requested_predicates"][pkey]["p_value"] = json!(age - 8))),
                ("pred:value-far", Box::new(|r: &mut Value| r["requested_predicates"][pkey]["p_value"] = json!(age + 40))),
                ("pred:value-true-but-other", Box::new(|r: &mut Value| r["requested_predicates"][pkey]["p_value"] = json!(age))),
                ("pred:op-gt", Box::new(|r: &mut Value| r["requested_predicates"][pkey]["p_type"] = json!(">"))),
                ("pred:op-le", Box::new(|r: &mut Value| r["requested_predicates"][pkey]["p_type"] = json!("<="))),
                ("pred:op-lt", Box::new(|r: &mut Value| r["requested_predicates"][pkey]["p_type"] = json!("<"))),
                ("pred:attr-other", Box::new(|r: &mut Value| r["requested_predicates"][pkey]["name"] = json!(vals[vals.len() - 1].0.clone()))),
                ("pred:attr-absent", Box::new(|r: &mut Value| r["requested_predicates"][pkey]["name"] = json!("salary"))),
                ("pred:removed", Box::new(|r: &mut Value| { r["requested_predicates"].as_object_mut().unwrap().remove(pkey); })),
                ("pred:added", Box::new(|r: &mut Value| r["requested_predicates"]["p_extra"] = json!({"name": vals[1].0.clone(), "p_type": ">=", "p_value": 1}))),
                ("attr:name-other", Box::new(|r: &mut Value| r["requested_attributes"]["a_name"]["name"] = json!(vals[1].0.clone()))),
                ("attr:name-absent", Box::new(|r: &mut Value| r["requested_attributes"]["a_name"]["name"] = json!("ssn"))),
                ("attr:name-to-names", Box::new(|r: &mut Value| { let n = r["requested_attributes"]["a_name"]["name"].clone(); let o = r["requested_attributes"]["a_name"].as_object_mut().unwrap(); o.remove("name"); o.insert("names".into(), json!([n])); })),
                ("attr:added", Box::new(|r: &mut Value| r["requested_attributes"]["a_extra"] = json!({"name": vals[0].0.clone()}))),
                ("attr:removed", Box::new(|r: &mut Value| { r["requested_attributes"].as_object_mut().unwrap().remove("a_name"); })),
            ] {
                let mut r = r0.clone();
                f(&mut r);
                variants.push((cls, r, Some(false)));
            }
            // every neighbouring (comparison, threshold) pair: the proof was made for (op0, v0) and for nothing else — also not for a pair
            // that denotes the same or a nearby set of integers (`> n-1` for `>= n`, `<= n+1` for `< n`, …)
            if let (Some(op0), Some(v0)) = (r0["requested_predicates"][pkey]["p_type"].as_str(), r0["requested_predicates"][pkey]["p_value"].as_i64()) {
                for op in [">=", ">", "<=", "<"] { for dv in -2i64..=2 {
                    if op == op0 && dv == 0 { continue; }
                    let mut r = r0.clone();
                    r["requested_predicates"][pkey]["p_type"] = json!(op);
                    r["requested_predicates"][pkey]["p_value"] = json!(v0 + dv);
                    variants.push(("pred:grid", r, Some(false)));
                } }
            }
            // same normal form, other spelling: the same attribute — judged by the model only
            let mut r = r0.clone();
            r["requested_attributes"]["a_name"]["name"] = json!(format!(" {} ", vals[0].0.to_uppercase()));
            variants.push(("attr:name-respelled", r, None));
            let mut r = r0.clone();
            r["requested_predicates"][pkey]["name"] = json!(vals[1].0.to_uppercase());
            variants.push(("pred:name-respelled", r, None));

            if let Ok(b) = eng.build_legacy(&plan) {
                for (cls, rj, exp) in &variants {
                    if let Some(req) = req_from(rj) {
                        emit_legacy(eng, out, &mut cases, "c01.legacy", &format!("c01:req:{cls}"), "", *exp, &b.pres, &b.ghosts, &b.agg, &req, &o, "safety");
                    }
                }
                // rewrites of the prover-controlled referent maps (legacy only)
                let edits: Vec<(&str, Box<dyn Fn(&mut Value)>, Option<bool>)> = vec![
                    ("map:revealed-to-unrevealed", Box::new(|p: &mut Value| { let e = p["requested_proof"]["revealed_attrs"].as_object_mut().unwrap().remove("a_name").unwrap(); p["requested_proof"]["unrevealed_attrs"]["a_name"] = json!({"sub_proof_index": e["sub_proof_index"]}); }), None),
                    ("map:unrevealed-to-revealed-forged", Box::new(|p: &mut Value| { if let Some(k) = p["requested_proof"]["unrevealed_attrs"].as_object().and_then(|o| o.keys().next().cloned()) { let e = p["requested_proof"]["unrevealed_attrs"].as_object_mut().unwrap().remove(&k).unwrap(); p["requested_proof"]["revealed_attrs"][k] = json!({"sub_proof_index": e["sub_proof_index"], "raw": "99", "encoded": "99"}); } else { p["requested_proof"]["revealed_attrs"]["a_name"]["encoded"] = json!("1"); } }), Some(false)),
                    ("map:pred-dropped", Box::new(|p: &mut Value| { p["requested_proof"]["predicates"].as_object_mut().unwrap().remove("p_age"); }), Some(false)),
                    ("map:pred-as-unrevealed-attr", Box::new(|p: &mut Value| { let e = p["requested_proof"]["predicates"].as_object_mut().unwrap().remove("p_age").unwrap(); p["requested_proof"]["unrevealed_attrs"]["p_age"] = e; }), Some(false)),
                    ("map:revealed-dropped", Box::new(|p: &mut Value| { p["requested_proof"]["revealed_attrs"].as_object_mut().unwrap().remove("a_name"); }), Some(false)),
                    ("map:revealed-as-self-attested", Box::new(|p: &mut Value| { p["requested_proof"]["revealed_attrs"].as_object_mut().unwrap().remove("a_name"); p["requested_proof"]["self_attested_attrs"]["a_name"] = json!("Mallory"); }), None),
                    ("map:index-out-of-range", Box::new(|p: &mut Value| { p["requested_proof"]["revealed_attrs"]["a_name"]["sub_proof_index"] = json!(7); }), Some(false)),
                    ("map:dup-revealed-unrevealed", Box::new(|p: &mut Value| { p["requested_proof"]["unrevealed_attrs"]["a_name"] = json!({"sub_proof_index": 0}); }), Some(false)),
                ];
                let req0 = req_from(&r0).unwrap();
                for (cls, f, exp) in edits {
                    let mut p = b.pres.clone();
                    f(&mut p);
                    emit_legacy(eng, out, &mut cases, "c01.legacy", &format!("c01:{cls}"), "", exp, &p, &b.ghosts, &b.agg, &req0, &o, "safety");
                }
                // exhaustive single cross-wiring: every referent of every map moved (or copied) into every other map, shape adapted
                for from in MAPS {
                    let keys: Vec<String> = b.pres["requested_proof"][*from].as_object().map(|o| o.keys().cloned().collect()).unwrap_or_default();
                    for k in keys {
                        for to in MAPS {
                            if to == from {
                                continue;
                            }
                            for keep in [false, true] {
                                let mut p = b.pres.clone();
                                let e = p["requested_proof"][*from].as_object_mut().unwrap().remove(&k).unwrap();
                                let idx = e.get("sub_proof_index").and_then(|x| x.as_u64()).unwrap_or(0);
                                p["requested_proof"][*to][k.as_str()] = shape_for(to, idx);
                                if keep {
                                    p["requested_proof"][*from][k.as_str()] = e;
                                }
                                // a requested predicate must be proven: it can never be answered from another map; attributes: judged by the model
                                let exp = if *from == "predicates" && !keep { Some(false) } else { None };
                                emit_legacy(eng, out, &mut cases, "c01.legacy", &format!("c01:xwire:{from}->{to}:{}", if keep { "copy" } else { "move" }), "", exp, &p, &b.ghosts, &b.agg, &req0, &o, "safety");
                            }
                        }
                    }
                }
            }
            if let Ok(b) = eng.build_w3c(&plan) {
                for (cls, rj, exp) in &variants {
                    if let Some(req) = req_from(rj) {
                        // W3C has no referent map: an *added* referent asking for something the presentation already shows is legitimately satisfied
                        // ... and an attribute asked under another name that the same credential holds (here: the predicate's attribute) is "shown to be held"
                        let exp = if cls.ends_with(":added") || *cls == "attr:name-to-names" || *cls == "attr:removed" || *cls == "pred:removed" || *cls == "attr:name-other" { None } else { *exp };
                        emit_w3c(eng, out, &mut cases, "c01.w3c", &format!("c01:req:{cls}"), "", exp, &b.pres, &b.ghosts, &b.agg, true, &req, &o, "safety");
                    }
                }
            }
        }
        // P honestly answers an UNRESTRICTED attribute by self-attestation (request R0); R asks the same referent with a restriction:
        // self-attestation is acceptable only where the request puts no restriction
        if round < 2 || thorough {
            let mut plan = basic_plan(rng, eng, "a_alice", true);
            plan.refs.push(RefPlan { referent: "s_nick".into(), kind: Kind::SelfAttested("nickname".into()), cred: None, revealed: true, restrictions: None, non_revoked: None });
            let r0 = plan.request_json();
            if let Ok(b) = eng.build_legacy(&plan) {
                let cid = eng.cast.w.defs[eng.cast.creds[eng.cast.cred("a_alice")].def].cid.0.clone();
                for (what, q, exp) in [("unrestricted", Value::Null, Some(true)), ("empty-restriction", json!({}), Some(true)), ("restricted-definition", json!({"cred_def_id": cid}), Some(false)),
                    ("restricted-any", json!({"schema_name": {"$neq": "nothing"}}), Some(false)), ("restricted-negation", json!({"$not": {"issuer_id": "did:web:nobody"}}), Some(false))] {
                    let mut r = r0.clone();
                    if !q.is_null() {
                        r["requested_attributes"]["s_nick"]["restrictions"] = q;
                    }
                    let Some(req) = req_from(&r) else { continue };
                    emit_legacy(eng, out, &mut cases, "c01.legacy", &format!("c01:self-attested-answer:{what}"), "", exp, &b.pres, &b.ghosts, &b.agg, &req, &o, "safety");
                }
            }
        }
        // one referent string used for an attribute and for a predicate (the two sections are separate namespaces)
        if round < 2 || thorough {
            let mut plan = basic_plan(rng, eng, "a_alice", true);
            let shared = "shared".to_string();
            plan.refs[0].referent = shared.clone();
            let pi = plan.refs.iter().position(|r| matches!(r.kind, Kind::Pred(..))).unwrap();
            plan.refs[pi].referent = shared.clone();
            let req0 = req_from(&plan.request_json()).unwrap();
            if let Ok(b) = eng.build_legacy(&plan) {
                emit_legacy(eng, out, &mut cases, "c01.legacy", "c01:shared-referent:honest", "", Some(true), &b.pres, &b.ghosts, &b.agg, &req0, &o, "safety");
                let mut p = b.pres.clone();
                p["requested_proof"]["predicates"].as_object_mut().unwrap().remove(&shared);
                emit_legacy(eng, out, &mut cases, "c01.legacy", "c01:shared-referent:predicate-dropped", "", Some(false), &p, &b.ghosts, &b.agg, &req0, &o, "safety");
                let mut p = b.pres.clone();
                p["requested_proof"]["revealed_attrs"].as_object_mut().unwrap().remove(&shared);
                emit_legacy(eng, out, &mut cases, "c01.legacy", "c01:shared-referent:attribute-dropped", "", Some(false), &p, &b.ghosts, &b.agg, &req0, &o, "safety");
            }
            if let Ok(b) = eng.build_w3c(&plan) {
                emit_w3c(eng, out, &mut cases, "c01.w3c", "c01:shared-referent:honest", "", Some(true), &b.pres, &b.ghosts, &b.agg, true, &req0, &o, "safety");
            }
        }
        // several predicates in one presentation (two attributes, two on one attribute, a second credential): R differs from R0 in
        // ONE predicate whose attribute / operator / threshold is replaced — in particular by those of another predicate of R0.
        // Unless the resulting predicate is itself among the ones P proves, P must not verify against R.
        if round < 2 || thorough {
            let ha = eng.cast.cred("a_alice");
            let hc = eng.cast.cred("c_alice");
            let va = eng.cast.creds[ha].values.clone();
            let vc = eng.cast.creds[hc].values.clone();
            let num = |v: &Vec<(String, String)>| -> Vec<(String, i32)> { v.iter().filter_map(|(k, x)| x.parse::<i32>().ok().map(|n| (k.clone(), n))).collect() };
            let (na, nc) = (num(&va), num(&vc));
            let pr = |referent: &str, n: &str, t: &'static str, v: i32, c: usize| RefPlan { referent: referent.into(), kind: Kind::Pred(n.into(), t, v), cred: Some(c), revealed: false, restrictions: None, non_revoked: None };
            let mut refs = vec![
                RefPlan { referent: "a_name".into(), kind: Kind::Single(va[0].0.clone()), cred: Some(0), revealed: true, restrictions: None, non_revoked: None },
                pr("p1", &na[0].0, "GE", na[0].1 - 1 - rng.below(9) as i32, 0),
                pr("p2", &na[1].0, "GE", 1 + rng.below(30) as i32, 0),
            ];
            if rng.chance(1, 2) {
                refs.push(pr("p3", &na[0].0, "LE", na[0].1 + 1 + rng.below(9) as i32, 0));
            }
            let two = round % 2 == 1;
            let mut creds = vec![CredUse { held: ha, state_list: None, ts_only: None }];
            if two {
                creds.push(CredUse { held: hc, state_list: None, ts_only: None });
                refs.push(pr("q1", &nc[0].0, "GE", nc[0].1 - 3, 1));
                refs.push(pr("q2", &nc[1].0, "LT", nc[1].1 + 2, 1));
            }
            let plan = Plan { creds, refs, global_nr: None, nonce: format!("{}", 1000 + rng.below(1_000_000_000)), holder: 0 };
            let r0 = plan.request_json();
            let preds0: Vec<(String, Value)> = r0["requested_predicates"].as_object().unwrap().iter().map(|(k, v)| (k.clone(), v.clone())).collect();
            let triple = |v: &Value| (norm(v["name"].as_str().unwrap_or("")), v["p_type"].as_str().unwrap_or("").to_string(), v["p_value"].as_i64().unwrap_or(0));
            let proven: Vec<(String, String, i64)> = preds0.iter().map(|(_, v)| triple(v)).collect();
            let mut variants: Vec<(String, Value)> = vec![];
            for (ki, vi) in &preds0 {
                for (kj, vj) in &preds0 {
                    if ki == kj {
                        continue;
                    }
                    for (what, fields) in [("op+value", vec!["p_type", "p_value"]), ("name", vec!["name"]), ("value", vec!["p_value"]), ("op", vec!["p_type"])] {
                        let mut r = r0.clone();
                        for f in &fields {
                            r["requested_predicates"][ki.as_str()][*f] = vj[*f].clone();
                        }
                        variants.push((format!("{what}-of-other-predicate"), r));
                    }
                }
                for (what, f) in [("value+1", 1i64), ("value-1", -1)] {
                    let mut r = r0.clone();
                    r["requested_predicates"][ki.as_str()]["p_value"] = json!(vi["p_value"].as_i64().unwrap() + f);
                    variants.push((what.to_string(), r));
                }
                for op in [">=", ">", "<=", "<"] {
                    let mut r = r0.clone();
                    r["requested_predicates"][ki.as_str()]["p_type"] = json!(op);
                    variants.push(("op-other".to_string(), r));
                }
            }
            let bl = eng.build_legacy(&plan).ok();
            let bw = eng.build_w3c(&plan).ok();
            for (what, r) in variants {
                let changed: Vec<(String, String, i64)> = r["requested_predicates"].as_object().unwrap().iter().map(|(_, v)| triple(v)).collect();
                if changed == proven {
                    continue; // the replacement wrote the same predicate
                }
                // every predicate R asks for is among those P proves: the model decides (referent / credential binding); else reject
                let exp = if changed.iter().all(|t| proven.contains(t)) { None } else { Some(false) };
                let Some(req) = req_from(&r) else { continue };
                let cls = format!("c01:multi-pred:{}:{what}:{}", if two { "2cred" } else { "1cred" }, if exp.is_some() { "unproven" } else { "proven-elsewhere" });
                if let Some(b) = &bl {
                    emit_legacy(eng, out, &mut cases, "c01.legacy", &cls, "", exp, &b.pres, &b.ghosts, &b.agg, &req, &o, "safety");
                }
                if let Some(b) = &bw {
                    emit_w3c(eng, out, &mut cases, "c01.w3c", &cls, "", exp, &b.pres, &b.ghosts, &b.agg, true, &req, &o, "safety");
                }
            }
            let req0 = req_from(&r0).unwrap();
            if let Some(b) = &bl {
                emit_legacy(eng, out, &mut cases, "c01.legacy", "c01:multi-pred:honest", "", Some(true), &b.pres, &b.ghosts, &b.agg, &req0, &o, "safety");
            }
            if let Some(b) = &bw {
                emit_w3c(eng, out, &mut cases, "c01.w3c", "c01:multi-pred:honest", "", Some(true), &b.pres, &b.ghosts, &b.agg, true, &req0, &o, "safety");
            }
        }
        // attribute groups: P answers the group R0 asked for (also with one attribute spelled twice: the normal form is not injective);
        // R asks the same referent for a group in which one name is replaced by / extended with another attribute. An attribute R
        // names that P does not answer must make verification fail.
        if round < 2 || thorough {
            let ha = eng.cast.cred("a_alice");
            let va = eng.cast.creds[ha].values.clone();
            let (n0, n1, n2, n3) = (va[0].0.clone(), va[1].0.clone(), va[2].0.clone(), va[3].0.clone());
            let groups0: Vec<Vec<String>> = vec![
                vec![n0.clone(), n0.to_uppercase()],
                vec![n0.clone(), format!(" {} ", n0), n1.clone()],
                vec![n0.clone(), n1.clone()],
                vec![n2.clone(), n2.to_uppercase(), format!("{} ", n2)],
            ];
            for g0 in groups0 {
                for revealed in [true, false] {
                    let plan = Plan {
                        creds: vec![CredUse { held: ha, state_list: None, ts_only: None }],
                        refs: vec![RefPlan { referent: "grp".into(), kind: Kind::Group(g0.clone()), cred: Some(0), revealed, restrictions: None, non_revoked: None }],
                        global_nr: None, nonce: format!("{}", 1000 + rng.below(1_000_000_000)), holder: 0 };
                    let r0 = plan.request_json();
                    let bl = eng.build_legacy(&plan).ok();
                    let bw = eng.build_w3c(&plan).ok();
                    let answered: Vec<String> = g0.iter().map(|n| norm(n)).collect();
                    let mut variants: Vec<(String, Vec<String>)> = vec![("same".into(), g0.clone())];
                    for other in [&n1, &n2, &n3, &"salary".to_string()] {
                        for pos in 0..g0.len() {
                            let mut g = g0.clone();
                            g[pos] = other.clone();
                            variants.push(("name-replaced".into(), g));
                        }
                        let mut g = g0.clone();
                        g.push(other.clone());
                        variants.push(("name-added".into(), g));
                    }
                    for pos in 0..g0.len() {
                        let mut g = g0.clone();
                        g.remove(pos);
                        if !g.is_empty() {
                            variants.push(("name-dropped".into(), g));
                        }
                    }
                    for (what, g) in variants {
                        let mut r = r0.clone();
                        r["requested_attributes"]["grp"]["names"] = json!(g);
                        let Some(req) = req_from(&r) else { continue };
                        let unanswered = g.iter().any(|n| !answered.contains(&norm(n)));
                        // unrevealed: the credential need only *hold* the attributes — every gvt attribute is held; an absent one is not
                        let exp = if what == "same" { Some(true) } else if unanswered && (revealed || g.iter().any(|n| n == "salary")) { Some(false) } else { None };
                        let cls = format!("c01:group:{}:{what}:{}", if revealed { "revealed" } else { "unrevealed" }, if unanswered { "unanswered-name" } else { "answered-names" });
                        if let Some(b) = &bl {
                            emit_legacy(eng, out, &mut cases, "c01.legacy", &cls, "", exp, &b.pres, &b.ghosts, &b.agg, &req, &o, "safety");
                        }
                        if let Some(b) = &bw {
                            // W3C: an unrevealed attribute is "held" whenever the schema has it
                            let expw = if what == "same" { Some(true) } else if g.iter().any(|n| n == "salary") { Some(false) } else { None };
                            emit_w3c(eng, out, &mut cases, "c01.w3c", &cls, "", expw, &b.pres, &b.ghosts, &b.agg, true, &req, &o, "safety");
                        }
                    }
                }
            }
        }
        // two credentials: referents re-pointed at the other credential
        for (first, second) in [("a_alice", "c_alice"), ("a_alice", "b_alice"), ("c_alice", "a2_alice")] {
            if round > 1 && !thorough {
                continue;
            }
            let plan = two_cred_plan(rng, eng, first, second);
            let req0 = req_from(&plan.request_json()).unwrap();
            if let Ok(b) = eng.build_legacy(&plan) {
                let same_schema = first != "c_alice" && second != "c_alice";
                let edits: Vec<(&str, Box<dyn Fn(&mut Value)>, Option<bool>)> = vec![
                    ("honest2", Box::new(|_p: &mut Value| {}), Some(true)),
                    ("map:revealed-reindexed", Box::new(|p: &mut Value| { p["requested_proof"]["revealed_attrs"]["a1"]["sub_proof_index"] = json!(1); }), Some(false)),
                    // F2 class: unrevealed referent pointed at a credential that may lack the attribute
                    ("map:unrevealed-reindexed", Box::new(|p: &mut Value| { p["requested_proof"]["unrevealed_attrs"]["u1"]["sub_proof_index"] = json!(1); }), if same_schema { None } else { Some(false) }),
                    ("map:pred-reindexed", Box::new(|p: &mut Value| { p["requested_proof"]["predicates"]["p2"]["sub_proof_index"] = json!(0); }), Some(false)),
                    ("map:identifiers-swapped", Box::new(|p: &mut Value| { p["identifiers"].as_array_mut().unwrap().swap(0, 1); }), Some(false)),
                ];
                for (cls, f, exp) in edits {
                    let mut p = b.pres.clone();
                    f(&mut p);
                    emit_legacy(eng, out, &mut cases, "c01.legacy", &format!("c01:{cls}"), "", exp, &p, &b.ghosts, &b.agg, &req0, &o, "safety");
                }
            }
        }
    }
    cases
}

// ---------------------------------------------------------------------------------------------
// C02 / C08 (system level): revocation

/// plan for one revocable credential; `placement`: where the non-revocation interval sits
fn rev_plan(rng: &mut Rng, eng: &Engine, held: &str, state_list: Option<usize>, ts_only: Option<u64>, placement: &str, iv: Value) -> Plan {
    let h = eng.cast.cred(held);
    let mut refs = vec![
        RefPlan { referent: "a_name".into(), kind: Kind::Single("name".into()), cred: Some(0), revealed: true, restrictions: None, non_revoked: None },
        RefPlan { referent: "u_dept".into(), kind: Kind::Single("dept".into()), cred: Some(0), revealed: false, restrictions: None, non_revoked: None },
        RefPlan { referent: "p_age".into(), kind: Kind::Pred("age".into(), "GE", 18), cred: Some(0), revealed: false, restrictions: None, non_revoked: None },
    ];
    let mut global_nr = None;
    match placement {
        "global" => global_nr = Some(iv),
        "revealed" => refs[0].non_revoked = Some(iv),
        "unrevealed" => refs[1].non_revoked = Some(iv),
        "predicate" => refs[2].non_revoked = Some(iv),
        "group" => {
            refs[0] = RefPlan { referent: "g_nd".into(), kind: Kind::Group(vec!["name".into(), "dept".into()]), cred: Some(0), revealed: true, restrictions: None, non_revoked: Some(iv) };
            refs.remove(1);
        }
        _ => {}
    }
    Plan { creds: vec![CredUse { held: h, state_list, ts_only }], refs, global_nr, nonce: format!("{}", 1000 + rng.below(1_000_000_000)), holder: 0 }
}

/// signature of "a revoked credential was accepted": format, whether the sub-proof carries a non-revocation part,
/// and how the interval check was passed. Known findings (F3 F4 F5) are the `no-nrp` classes listed in known_findings.json;
/// anything else (in particular any acceptance *with* a non-revocation part, or `plain`) is a new violation.
fn c02_sig(fmt: &str, revoked: bool, ghosts: &[Value], strip_regid: bool, unrevealed_interval: bool, forged_ts: bool) -> String {
    if !revoked {
        return String::new();
    }
    let nrp = if ghosts.first().map(|g| !g["nrp"].is_null()).unwrap_or(false) { "nrp" } else { "no-nrp" };
    let how = if strip_regid { "strip-regid" } else if unrevealed_interval { "unrevealed-interval" } else if forged_ts { "forged-timestamp" } else { "plain" };
    format!("C02:{fmt}:revoked-accepted:{nrp}:{how}")
}

pub fn c02(eng: &mut Engine, rng: &mut Rng, thorough: bool, out: &mut Out) -> Cases {
    let mut cases = vec![];
    let rounds = if thorough { 12 } else { 1 };
    let placements = ["global", "revealed", "unrevealed", "group", "predicate"];
    for _ in 0..rounds {
        for w3c in [false, true] {
            let fmt = if w3c { "w3c" } else { "legacy" };
            let fam = format!("c02.{fmt}");
            for placement in placements {
                // (credential, list of the holder's state, list(s) the verifier supplies, timestamp named, class, revoked at the named list?)
                // registry history: list0 (ts 10) all valid; list1 (ts 20): 2 and 3 revoked; list2 (ts 30): 3 re-issued
                let scen: Vec<(&str, Option<usize>, Option<u64>, Vec<usize>, &str, bool)> = vec![
                    ("r1_alice", Some(1), None, vec![1], "valid:fresh-state", false),
                    ("r1_alice", Some(0), None, vec![0, 1, 2], "valid:older-list-in-window", false),
                    ("r3_alice", Some(2), None, vec![2], "reissued:fresh-state", false),
                    ("r2_alice", Some(1), None, vec![1], "revoked:fresh-state", true),
                    ("r3_alice", Some(1), None, vec![1], "revoked:fresh-state", true),
                    ("r2_alice", Some(0), None, vec![0, 1], "revoked-later:state-of-earlier-list", false),
                    ("r2_alice", None, Some(20), vec![1], "revoked:no-state-forged-timestamp", true),
                    ("r2_alice", None, None, vec![1], "revoked:no-state-no-timestamp", true),
                    ("r1_alice", None, Some(20), vec![1], "valid:no-state-forged-timestamp", false),
                    // the honest prover API with a stale state but the timestamp of a later list (the API takes both, unrelated)
                    ("r2_alice", Some(0), Some(20), vec![0, 1], "revoked:stale-state-named-later-timestamp", true),
                    ("r3_alice", Some(0), Some(20), vec![0, 1, 2], "revoked:stale-state-named-later-timestamp", true),
                    ("r1_alice", Some(0), Some(20), vec![0, 1], "valid:stale-state-named-later-timestamp", false),
                ];
                for (held, state_list, ts_only, lists, cls0, revoked) in scen {
                    let ts = ts_only.or(state_list.map(RegHist::ts)).unwrap_or(20);
                    let iv = match rng.below(3) {
                        0 => json!({"from": 0, "to": ts}),
                        1 => json!({"from": ts, "to": ts}),
                        _ => json!({"to": ts + 5}),
                    };
                    let plan = rev_plan(rng, eng, held, state_list, ts_only, placement, iv);
                    let ri = eng.cast.creds[eng.cast.cred(held)].rev.unwrap().0;
                    let o = VOpts { lists: Some(lists.iter().map(|l| (ri, *l)).collect()), rev_reg_defs: true, ..Default::default() };
                    let cls = format!("c02:{cls0}:{placement}");
                    // known-finding signatures (DESIGN §7 F3 / F5): no non-revocation proof is demanded by the verifier
                    let unrev = placement == "unrevealed";
                    let forged = state_list.is_none() && ts_only.is_some();
                    let expect = if revoked { Some(false) } else if cls0 == "valid:fresh-state" || cls0 == "reissued:fresh-state" { if placement == "unrevealed" && !w3c { None } else { Some(true) } } else { None };
                    if w3c {
                        if let Ok(b) = eng.build_w3c(&plan) {
                            let sig = c02_sig(fmt, revoked, &b.ghosts, false, unrev, forged);
                            emit_w3c(eng, out, &mut cases, &fam, &cls, &sig, expect, &b.pres, &b.ghosts, &b.agg, true, &b.req, &o, "safety");
                            // post-hoc edits of the unauthenticated parts of the proof value
                            for (ecls, strip_id, set_ts) in [("strip-regid", true, None), ("timestamp-of-valid-list", false, Some(10u64)), ("timestamp-unlisted", false, Some(15u64))] {
                                let mut p = b.pres.clone();
                                let mut pv = p.verifiable_credential[0].get_credential_presentation_proof().unwrap().clone();
                                if strip_id {
                                    pv.rev_reg_id = None;
                                    pv.timestamp = None;
                                }
                                if let Some(t) = set_ts {
                                    pv.timestamp = Some(t);
                                }
                                set_w3c_proof(&mut p.verifiable_credential[0], &pv, None, None);
                                let o2 = VOpts { lists: Some(vec![(ri, 0), (ri, 1), (ri, 2)]), rev_reg_defs: true, ..Default::default() };
                                let sig2 = c02_sig(fmt, revoked, &b.ghosts, strip_id, unrev, forged || set_ts.is_some());
                                // a presentation naming the timestamp of a list at which the credential was still valid, with a state for that list, is legitimate
                                let exp2 = if revoked && !(set_ts == Some(10) && state_list == Some(0)) { Some(false) } else { None };
                                let exp2 = if set_ts == Some(10) && state_list.is_some() && state_list != Some(0) { exp2 } else { exp2 };
                                emit_w3c(eng, out, &mut cases, &fam, &format!("{cls}:{ecls}"), &sig2, exp2, &p, &b.ghosts, &b.agg, true, &b.req, &o2, "safety");
                            }
                        }
                    } else if let Ok(b) = eng.build_legacy(&plan) {
                        let sig = c02_sig(fmt, revoked, &b.ghosts, false, unrev, forged);
                        emit_legacy(eng, out, &mut cases, &fam, &cls, &sig, expect, &b.pres, &b.ghosts, &b.agg, &b.req, &o, "safety");
                        for (ecls, strip_id, set_ts) in [("strip-regid", true, None), ("timestamp-of-valid-list", false, Some(10u64)), ("timestamp-unlisted", false, Some(15u64)), ("strip-timestamp", false, None)] {
                            let mut p = b.pres.clone();
                            if strip_id {
                                p["identifiers"][0]["rev_reg_id"] = Value::Null;
                                p["identifiers"][0]["timestamp"] = Value::Null;
                            }
                            match (set_ts, ecls) {
                                (Some(t), _) => p["identifiers"][0]["timestamp"] = json!(t),
                                (None, "strip-timestamp") => p["identifiers"][0]["timestamp"] = Value::Null,
                                _ => {}
                            }
                            let o2 = VOpts { lists: Some(vec![(ri, 0), (ri, 1), (ri, 2)]), rev_reg_defs: true, ..Default::default() };
                            let sig2 = c02_sig(fmt, revoked, &b.ghosts, strip_id, unrev, forged || set_ts.is_some());
                            // naming the timestamp of the list the state was really derived for (valid then) is a legitimate presentation
                            let exp2 = if revoked && !(set_ts == Some(10) && state_list == Some(0)) { Some(false) } else { None };
                            emit_legacy(eng, out, &mut cases, &fam, &format!("{cls}:{ecls}"), &sig2, exp2, &p, &b.ghosts, &b.agg, &b.req, &o2, "safety");
                        }
                        // revealed <-> unrevealed rewrite of the referent that carries the interval
                        if placement == "revealed" {
                            let mut p = b.pres.clone();
                            let e = p["requested_proof"]["revealed_attrs"].as_object_mut().unwrap().remove("a_name").unwrap();
                            p["requested_proof"]["unrevealed_attrs"]["a_name"] = json!({"sub_proof_index": e["sub_proof_index"]});
                            let sig2 = c02_sig(fmt, revoked, &b.ghosts, false, true, forged);
                            emit_legacy(eng, out, &mut cases, &fam, &format!("{cls}:moved-to-unrevealed"), &sig2, if revoked { Some(false) } else { None }, &p, &b.ghosts, &b.agg, &b.req, &o, "safety");
                        }
                    }
                }
            }
            // intervals on two referents of the one credential: the named timestamp must lie in every local interval. The holder of
            // r2 (revoked at list 1, ts 20) presents the state of list 0 (ts 10); one referent's interval admits 10, the other's
            // starts later. Also with the roles exchanged, and with a fresh state of a valid credential inside both intervals.
            for (pa, pb) in [("revealed", "predicate"), ("predicate", "revealed"), ("group", "predicate"), ("predicate", "group"), ("global", "predicate"), ("revealed", "global"),
                ("predicate", "predicate2"), ("predicate2", "predicate"), ("revealed", "revealed2"), ("revealed2", "revealed")] {
                for (held, state_list, lists, cls0, ts) in [("r2_alice", Some(0usize), vec![0usize, 1], "revoked-later:stale-state", 10u64), ("r1_alice", Some(1), vec![0, 1, 2], "valid:fresh-state", 20)] {
                    for (wcls, admits_a, admits_b) in [("first-excludes", false, true), ("second-excludes", true, false), ("both-admit", true, true)] {
                        let iv = |admits: bool| if admits { json!({"from": ts - 5, "to": ts + 40}) } else { json!({"from": ts + 4, "to": ts + 40}) };
                        // second predicate / second revealed attribute of the same credential
                        let second = pa.ends_with('2') || pb.ends_with('2');
                        let base_a = pa.trim_end_matches('2');
                        let mut plan = rev_plan(rng, eng, held, state_list, None, if second { "none" } else { pa }, iv(admits_a));
                        if second {
                            plan.refs.retain(|r| r.referent != "u_dept");
                            plan.refs.push(RefPlan { referent: "p_age2".into(), kind: Kind::Pred("age".into(), "LE", 99), cred: Some(0), revealed: false, restrictions: None, non_revoked: None });
                            plan.refs.push(RefPlan { referent: "a_dept".into(), kind: Kind::Single("dept".into()), cred: Some(0), revealed: true, restrictions: None, non_revoked: None });
                            let (ra, rb) = if base_a == "predicate" { ("p_age", "p_age2") } else { ("a_name", "a_dept") };
                            let (first, other) = if pa.ends_with('2') { (rb, ra) } else { (ra, rb) };
                            for r in plan.refs.iter_mut() {
                                if r.referent == first { r.non_revoked = Some(iv(admits_a)); }
                                if r.referent == other { r.non_revoked = Some(iv(admits_b)); }
                            }
                        }
                        match if second { "done" } else { pb } {
                            "done" => {}
                            "global" => plan.global_nr = Some(iv(admits_b)),
                            "predicate" => { if let Some(r) = plan.refs.iter_mut().find(|r| matches!(r.kind, Kind::Pred(..))) { r.non_revoked = Some(iv(admits_b)); } }
                            "revealed" => { if let Some(r) = plan.refs.iter_mut().find(|r| matches!(r.kind, Kind::Single(_)) && r.revealed) { r.non_revoked = Some(iv(admits_b)); } }
                            _ => {
                                plan.refs[0] = RefPlan { referent: "g_nd".into(), kind: Kind::Group(vec!["name".into(), "dept".into()]), cred: Some(0), revealed: true, restrictions: None, non_revoked: Some(iv(admits_b)) };
                                plan.refs.retain(|r| r.referent != "u_dept");
                            }
                        }
                        let ri = eng.cast.creds[eng.cast.cred(held)].rev.unwrap().0;
                        let o = VOpts { lists: Some(lists.iter().map(|l| (ri, *l)).collect()), rev_reg_defs: true, ..Default::default() };
                        // a local interval takes the place of the request-wide one; two local intervals both apply
                        let both_local = pa != "global" && pb != "global";
                        let expect = if admits_a && admits_b { if cls0.starts_with("valid") { Some(true) } else { None } } else if both_local { Some(false) } else { None };
                        let cls = format!("c02:two-intervals:{cls0}:{pa}+{pb}:{wcls}");
                        if w3c {
                            if let Ok(b) = eng.build_w3c(&plan) {
                                emit_w3c(eng, out, &mut cases, &fam, &cls, "", expect, &b.pres, &b.ghosts, &b.agg, true, &b.req, &o, "safety");
                            }
                        } else if let Ok(b) = eng.build_legacy(&plan) {
                            emit_legacy(eng, out, &mut cases, &fam, &cls, "", expect, &b.pres, &b.ghosts, &b.agg, &b.req, &o, "safety");
                        }
                    }
                }
            }
        }
    }
    cases
}

// ---------------------------------------------------------------------------------------------
// C03: revealed values are the signed ones

fn perturb_decimal(s: &str) -> String {
    // change one decimal digit (keep length, keep it a number)
    let mut cs: Vec<char> = s.chars().collect();
    let pos = cs.len() / 2;
    if let Some(c) = cs.get_mut(pos) {
        if c.is_ascii_digit() {
            *c = if *c == '9' { '8' } else { char::from(*c as u8 + 1) };
        }
    }
    cs.into_iter().collect()
}

pub fn c03(eng: &mut Engine, rng: &mut Rng, thorough: bool, out: &mut Out) -> Cases {
    use anoncreds::data_types::w3c::credential_attributes::CredentialAttributeValue as V;
    let mut cases = vec![];
    let rounds = if thorough { 40 } else { 2 };
    let o = plain_opts();
    for _ in 0..rounds {
        for held in ["a_alice", "l_alice"] {
            let plan = basic_plan(rng, eng, held, true);
            if let Ok(b) = eng.build_legacy(&plan) {
                let other_enc = b.pres["requested_proof"]["revealed_attr_groups"]["g_sh"]["values"]["sex"]["encoded"].clone();
                let edits: Vec<(&str, Box<dyn Fn(&mut Value)>, Option<bool>)> = vec![
                    ("enc-changed", Box::new(|p: &mut Value| p["requested_proof"]["revealed_attrs"]["a_name"]["encoded"] = json!("12345")), Some(false)),
                    ("enc-perturbed", Box::new(|p: &mut Value| { let e = p["requested_proof"]["revealed_attrs"]["a_name"]["encoded"].as_str().unwrap().to_string(); p["requested_proof"]["revealed_attrs"]["a_name"]["encoded"] = json!(perturb_decimal(&e)); }), Some(false)),
                    ("enc-of-other-attribute", Box::new(move |p: &mut Value| p["requested_proof"]["revealed_attrs"]["a_name"]["encoded"] = other_enc.clone()), Some(false)),
                    ("raw-only", Box::new(|p: &mut Value| p["requested_proof"]["revealed_attrs"]["a_name"]["raw"] = json!("Mallory")), None),
                    ("group-enc-zero-padded", Box::new(|p: &mut Value| p["requested_proof"]["revealed_attr_groups"]["g_sh"]["values"]["height"]["encoded"] = json!("000170")), None),
                    ("group-enc-plus-sign", Box::new(|p: &mut Value| p["requested_proof"]["revealed_attr_groups"]["g_sh"]["values"]["height"]["encoded"] = json!("+170")), None),
                    ("group-enc-changed", Box::new(|p: &mut Value| p["requested_proof"]["revealed_attr_groups"]["g_sh"]["values"]["height"]["encoded"] = json!("171")), Some(false)),
                    ("group-enc-swapped", Box::new(|p: &mut Value| { let a = p["requested_proof"]["revealed_attr_groups"]["g_sh"]["values"]["height"]["encoded"].clone(); let b = p["requested_proof"]["revealed_attr_groups"]["g_sh"]["values"]["sex"]["encoded"].clone(); p["requested_proof"]["revealed_attr_groups"]["g_sh"]["values"]["height"]["encoded"] = b; p["requested_proof"]["revealed_attr_groups"]["g_sh"]["values"]["sex"]["encoded"] = a; }), Some(false)),
                    ("group-member-added", Box::new(|p: &mut Value| p["requested_proof"]["revealed_attr_groups"]["g_sh"]["values"]["age"] = json!({"raw": "25", "encoded": "25"})), Some(false)),
                    ("group-member-removed", Box::new(|p: &mut Value| { p["requested_proof"]["revealed_attr_groups"]["g_sh"]["values"].as_object_mut().unwrap().remove("sex"); }), Some(false)),
                    ("group-member-renamed", Box::new(|p: &mut Value| { let v = p["requested_proof"]["revealed_attr_groups"]["g_sh"]["values"].as_object_mut().unwrap().remove("sex").unwrap(); p["requested_proof"]["revealed_attr_groups"]["g_sh"]["values"]["SEX"] = v; }), Some(false)),
                ];
                for (cls, f, exp) in edits {
                    let mut p = b.pres.clone();
                    f(&mut p);
                    emit_legacy(eng, out, &mut cases, "c03.legacy", &format!("c03:{cls}"), "", exp, &p, &b.ghosts, &b.agg, &b.req, &o, "safety");
                }
                // the value inside the cryptographic sub-proof altered as well (consistent forgery): the proof is no longer intact
                let mut p = b.pres.clone();
                p["requested_proof"]["revealed_attr_groups"]["g_sh"]["values"]["height"]["encoded"] = json!("171");
                p["proof"]["proofs"][0]["primary_proof"]["eq_proof"]["revealed_attrs"]["height"] = json!("171");
                let mut g = b.ghosts.clone();
                g[0]["intact"] = json!(false);
                emit_legacy(eng, out, &mut cases, "c03.legacy", "c03:consistent-forgery", "", Some(false), &p, &g, &b.agg, &b.req, &o, "safety");
            }
            if let Ok(b) = eng.build_w3c(&plan) {
                let cid_b = eng.cast.w.def("B").cid.clone();
                let sid_c = eng.cast.w.def("C").sid.clone();
                let edits: Vec<(&str, Box<dyn Fn(&mut anoncreds::data_types::w3c::presentation::W3CPresentation)>, Option<bool>)> = vec![
                    ("subject-changed", Box::new(|p| { p.verifiable_credential[0].credential_subject.0.insert("name".into(), V::String("Mallory".into())); }), Some(false)),
                    ("subject-added", Box::new(|p| { p.verifiable_credential[0].credential_subject.0.insert("age".into(), V::Number(99)); }), Some(false)),
                    ("subject-added-unknown", Box::new(|p| { p.verifiable_credential[0].credential_subject.0.insert("title".into(), V::String("Dr".into())); }), Some(false)),
                    ("subject-number-as-string", Box::new(|p| { p.verifiable_credential[0].credential_subject.0.insert("height".into(), V::String("170".into())); }), None),
                    ("subject-number-zero-padded", Box::new(|p| { p.verifiable_credential[0].credential_subject.0.insert("height".into(), V::String("0170".into())); }), None),
                    ("subject-number-changed", Box::new(|p| { p.verifiable_credential[0].credential_subject.0.insert("height".into(), V::Number(171)); }), Some(false)),
                    ("subject-swapped", Box::new(|p| { let s = &mut p.verifiable_credential[0].credential_subject.0; let a = s["name"].clone(); let b = s["sex"].clone(); s.insert("name".into(), b); s.insert("sex".into(), a); }), Some(false)),
                    ("subject-removed", Box::new(|p| { p.verifiable_credential[0].credential_subject.0.remove("sex"); }), None),
                    ("subject-key-respelled", Box::new(|p| { let s = &mut p.verifiable_credential[0].credential_subject.0; let a = s.remove("name").unwrap(); s.insert("N a m e".into(), a); }), None),
                    ("subject-marker-added", Box::new(|p| { p.verifiable_credential[0].credential_subject.0.insert("sex".into(), V::Bool(true)); }), Some(false)),
                    ("subject-marker-false", Box::new(|p| { p.verifiable_credential[0].credential_subject.0.insert("age".into(), V::Bool(false)); }), None),
                    ("issuer-changed", Box::new(|p| { p.verifiable_credential[0].issuer = anoncreds::data_types::issuer_id::IssuerId::new_unchecked("did:web:mallory"); }), Some(false)),
                    ("method-changed", Box::new(move |p| { let pv = p.verifiable_credential[0].get_credential_presentation_proof().unwrap().clone(); set_w3c_proof(&mut p.verifiable_credential[0], &pv, Some("did:web:mallory/creddef".into()), None); }), Some(false)),
                    ("proof-creddef-changed", Box::new(move |p| { let mut pv = p.verifiable_credential[0].get_credential_presentation_proof().unwrap().clone(); pv.cred_def_id = cid_b.clone(); set_w3c_proof(&mut p.verifiable_credential[0], &pv, None, None); }), Some(false)),
                    ("proof-schema-changed", Box::new(move |p| { let mut pv = p.verifiable_credential[0].get_credential_presentation_proof().unwrap().clone(); pv.schema_id = sid_c.clone(); set_w3c_proof(&mut p.verifiable_credential[0], &pv, None, None); }), Some(false)),
                    ("purpose-changed", Box::new(|p| { let pv = p.verifiable_credential[0].get_credential_presentation_proof().unwrap().clone(); set_w3c_proof(&mut p.verifiable_credential[0], &pv, None, Some(anoncreds::data_types::w3c::proof::ProofPurpose::Authentication)); }), Some(false)),
                ];
                for (cls, f, exp) in edits {
                    let mut p = b.pres.clone();
                    f(&mut p);
                    // legacy-id credentials name their attributes alike; the edits above use gvt attribute names
                    emit_w3c(eng, out, &mut cases, "c03.w3c", &format!("c03:{cls}"), "", exp, &p, &b.ghosts, &b.agg, true, &b.req, &o, "safety");
                }
            }
        }
        // the envelope of the presentation itself: type and contexts (`W3CPresentation::validate`)
        if let Ok(b) = eng.build_w3c(&basic_plan(rng, eng, "a_alice", true)) {
            let pj = serde_json::to_value(&b.pres).unwrap();
            let mut edits: Vec<(&str, Value)> = vec![];
            let mut j = pj.clone();
            j["type"] = json!(["SomethingElse"]);
            edits.push(("presentation-type-missing", j));
            let mut j = pj.clone();
            j["type"] = json!([]);
            edits.push(("presentation-type-empty", j));
            if let Some(ctx) = pj["@context"].as_array() {
                for (i, c) in ctx.iter().enumerate() {
                    if i == 0 {
                        continue; // the first entry selects the data-model version: another class
                    }
                    let mut j = pj.clone();
                    j["@context"].as_array_mut().unwrap().remove(i);
                    edits.push((if c.is_object() { "presentation-context-vocabulary-missing" } else { "presentation-context-entry-missing" }, j));
                }
            }
            for (cls, j) in edits {
                match serde_json::from_value::<anoncreds::data_types::w3c::presentation::W3CPresentation>(j) {
                    Ok(p) => emit_w3c(eng, out, &mut cases, "c03.w3c", &format!("c03:{cls}"), "", Some(false), &p, &b.ghosts, &b.agg, false, &b.req, &o, "safety"),
                    Err(_) => out.count(&format!("c03:{cls}:undeserialisable")),
                }
            }
        }
        // MORE credentials than proofs: a credential the presentation does not prove is appended (or put in front as a decoy) — the
        // holder's raw credential with its issuer signature proof and an edited subject, or a copy of a proven one whose proof cannot be
        // read as a presentation proof. Nothing unproven may ride along in a verified presentation.
        if let Ok(b) = eng.build_w3c(&basic_plan(rng, eng, "a_alice", true)) {
            let pj = serde_json::to_value(&b.pres).unwrap();
            let raw = {
                let mut j = serde_json::to_value(&eng.cast.creds[eng.cast.cred("a_alice")].w3c).unwrap();
                j["credentialSubject"] = json!({"name": "Mallory", "title": "Dr"});
                j
            };
            let mut copy_auth = pj["verifiableCredential"][0].clone();
            copy_auth["proof"]["proofPurpose"] = json!("authentication");
            copy_auth["credentialSubject"] = json!({"name": "Mallory"});
            let mut copy_suite = pj["verifiableCredential"][0].clone();
            copy_suite["proof"]["cryptosuite"] = json!("foreign-suite-2026");
            copy_suite["credentialSubject"] = json!({"sex": "X"});
            for (what, extra) in [("raw-credential-edited", raw), ("copy-purpose-authentication", copy_auth), ("copy-foreign-cryptosuite", copy_suite)] {
                for front in [false, true] {
                    let mut j = pj.clone();
                    let arr = j["verifiableCredential"].as_array_mut().unwrap();
                    if front { arr.insert(0, extra.clone()); } else { arr.push(extra.clone()); }
                    let Ok(p) = serde_json::from_value::<anoncreds::data_types::w3c::presentation::W3CPresentation>(j) else { out.count(&format!("c03:extra-credential:{what}:undeserialisable")); continue };
                    // the model is told about the extra credential: it has no sub-proof (ghost of the first one, nothing revealed)
                    let mut g = b.ghosts.clone();
                    let mut ge = b.ghosts[0].clone();
                    ge["intact"] = json!(false);
                    if front { g.insert(0, ge); } else { g.push(ge); }
                    emit_w3c(eng, out, &mut cases, "c03.w3c", &format!("c03:extra-credential:{what}:{}", if front { "in-front" } else { "appended" }), "", Some(false), &p, &g, &b.agg, true, &b.req, &o, "safety");
                }
            }
        }
        // the same alterations on presentations of random honest shapes (credentials that only hold unrevealed attributes, unused
        // credentials, several credentials, groups, predicates ...): every credential / every revealed entry in turn
        let mut shapes: Vec<(Plan, Plan)> = extreme_plans(rng, &eng.cast).into_iter().map(|p| (p.clone(), p)).collect();
        for k in 0..(if thorough { 30 } else { 6 }) {
            shapes.push((gen_honest_plan(rng, &eng.cast, true, k % 3 == 0), gen_honest_plan(rng, &eng.cast, false, k % 3 == 0)));
        }
        for (plan_w, plan_l) in shapes {
            let plan = plan_w;
            let ov = honest_vopts(&eng.cast, &plan);
            if let Ok(b) = eng.build_w3c(&plan) {
                for ci in 0..b.pres.verifiable_credential.len() {
                    let subj = b.pres.verifiable_credential[ci].credential_subject.0.clone();
                    let pv = b.pres.verifiable_credential[ci].get_credential_presentation_proof().unwrap().clone();
                    let wpool = eng.cast.w.clone();
                    let def = wpool.defs.iter().find(|d| d.cid == pv.cred_def_id).unwrap();
                    // forge a value for a schema attribute the subject does not show
                    if let Some(missing) = def.schema.attr_names.0.iter().find(|a| !subj.keys().any(|k| norm(k) == norm(a))) {
                        let mut p = b.pres.clone();
                        p.verifiable_credential[ci].credential_subject.0.insert(missing.clone(), V::String("Forged Value".into()));
                        let shape = if subj.is_empty() { "empty-subject" } else { "partial-subject" };
                        emit_w3c(eng, out, &mut cases, "c03.w3c", &format!("c03:random-shape:forged-entry:{shape}"), "", Some(false), &p, &b.ghosts, &b.agg, true, &b.req, &ov, "safety");
                    }
                    // who issued it, under which definition: issuer and verification method of every credential, to an outsider and
                    // to the issuer / definition of another credential of the same presentation or of the pool
                    let others: Vec<(String, String)> = wpool.defs.iter().filter(|x| x.cid != pv.cred_def_id).map(|x| (x.issuer.0.clone(), x.cid.0.clone())).collect();
                    let mut issuers: Vec<String> = vec!["did:web:mallory".into()];
                    let mut methods: Vec<String> = vec!["did:web:mallory/creddef".into()];
                    for (i, m) in &others {
                        if *i != def.issuer.0 && !issuers.contains(i) {
                            issuers.push(i.clone());
                        }
                        if !methods.contains(m) {
                            methods.push(m.clone());
                        }
                    }
                    for (n, i) in issuers.iter().enumerate() {
                        if n > 1 && !thorough {
                            break;
                        }
                        let mut p = b.pres.clone();
                        p.verifiable_credential[ci].issuer = anoncreds::data_types::issuer_id::IssuerId::new_unchecked(i.as_str());
                        emit_w3c(eng, out, &mut cases, "c03.w3c", "c03:random-shape:issuer-changed", "", Some(false), &p, &b.ghosts, &b.agg, true, &b.req, &ov, "safety");
                    }
                    for (n, m) in methods.iter().enumerate() {
                        if n > 1 && !thorough {
                            break;
                        }
                        let mut p = b.pres.clone();
                        set_w3c_proof(&mut p.verifiable_credential[ci], &pv, Some(m.clone()), None);
                        emit_w3c(eng, out, &mut cases, "c03.w3c", "c03:random-shape:method-changed", "", Some(false), &p, &b.ghosts, &b.agg, true, &b.req, &ov, "safety");
                    }
                    // alter an existing string / number entry
                    if let Some((k0, v0)) = subj.iter().find(|(_, v)| !matches!(v, V::Bool(_))) {
                        let mut p = b.pres.clone();
                        let nv = match v0 { V::Number(n) => V::Number(n.wrapping_add(1)), _ => V::String("Altered".into()) };
                        p.verifiable_credential[ci].credential_subject.0.insert(k0.clone(), nv);
                        emit_w3c(eng, out, &mut cases, "c03.w3c", "c03:random-shape:altered-entry", "", Some(false), &p, &b.ghosts, &b.agg, true, &b.req, &ov, "safety");
                    }
                }
            }
            let plan = plan_l;
            let ov = honest_vopts(&eng.cast, &plan);
            if let Ok(b) = eng.build_legacy(&plan) {
                let singles: Vec<String> = b.pres["requested_proof"]["revealed_attrs"].as_object().map(|o| o.keys().cloned().collect()).unwrap_or_default();
                for r in singles {
                    let mut p = b.pres.clone();
                    let e = p["requested_proof"]["revealed_attrs"][r.as_str()]["encoded"].as_str().unwrap_or("0").to_string();
                    p["requested_proof"]["revealed_attrs"][r.as_str()]["encoded"] = json!(if e.len() > 12 { perturb_decimal(&e) } else { format!("{}1", e) });
                    emit_legacy(eng, out, &mut cases, "c03.legacy", "c03:random-shape:encoded-altered", "", Some(false), &p, &b.ghosts, &b.agg, &b.req, &ov, "safety");
                }
                let groups: Vec<String> = b.pres["requested_proof"]["revealed_attr_groups"].as_object().map(|o| o.keys().cloned().collect()).unwrap_or_default();
                // a referent re-presented in the other shape with a value nobody signed: group as one single value, single as a group
                for g in &groups {
                    let mut p = b.pres.clone();
                    let e = p["requested_proof"]["revealed_attr_groups"].as_object_mut().unwrap().remove(g).unwrap();
                    p["requested_proof"]["revealed_attrs"][g.as_str()] = json!({"sub_proof_index": e["sub_proof_index"], "raw": "forged", "encoded": "123456789"});
                    emit_legacy(eng, out, &mut cases, "c03.legacy", "c03:random-shape:group-as-forged-single", "", Some(false), &p, &b.ghosts, &b.agg, &b.req, &ov, "safety");
                }
                let singles2: Vec<String> = b.pres["requested_proof"]["revealed_attrs"].as_object().map(|o| o.keys().cloned().collect()).unwrap_or_default();
                for r in &singles2 {
                    let mut p = b.pres.clone();
                    let e = p["requested_proof"]["revealed_attrs"].as_object_mut().unwrap().remove(r).unwrap();
                    let name = b.req.value().requested_attributes.get(r).and_then(|a| a.name.clone()).unwrap_or_else(|| "name".into());
                    p["requested_proof"]["revealed_attr_groups"][r.as_str()] = json!({"sub_proof_index": e["sub_proof_index"], "values": {name: {"raw": "forged", "encoded": "123456789"}}});
                    emit_legacy(eng, out, &mut cases, "c03.legacy", "c03:random-shape:single-as-forged-group", "", Some(false), &p, &b.ghosts, &b.agg, &b.req, &ov, "safety");
                }
                for g in groups {
                    let members: Vec<String> = b.pres["requested_proof"]["revealed_attr_groups"][g.as_str()]["values"].as_object().map(|o| o.keys().cloned().collect()).unwrap_or_default();
                    for m in members {
                        let mut p = b.pres.clone();
                        let e = p["requested_proof"]["revealed_attr_groups"][g.as_str()]["values"][m.as_str()]["encoded"].as_str().unwrap_or("0").to_string();
                        p["requested_proof"]["revealed_attr_groups"][g.as_str()]["values"][m.as_str()]["encoded"] = json!(if e.len() > 12 { perturb_decimal(&e) } else { format!("{}1", e) });
                        emit_legacy(eng, out, &mut cases, "c03.legacy", "c03:random-shape:group-encoded-altered", "", Some(false), &p, &b.ghosts, &b.agg, &b.req, &ov, "safety");
                    }
                }
            }
        }
        // a request whose names group repeats a name: a group member that no requested name covers must not ride along (F20)
        {
            let h = eng.cast.cred("a_alice");
            let plan = Plan { creds: vec![CredUse { held: h, state_list: None, ts_only: None }],
                refs: vec![RefPlan { referent: "g".into(), kind: Kind::Group(vec!["name".into(), "name".into()]), cred: Some(0), revealed: true, restrictions: None, non_revoked: None }],
                global_nr: None, nonce: format!("{}", 1000 + rng.below(1_000_000_000)), holder: 0 };
            if let Ok(b) = eng.build_legacy(&plan) {
                emit_legacy(eng, out, &mut cases, "c03.legacy", "c03:group-duplicate-name:honest", "", None, &b.pres, &b.ghosts, &b.agg, &b.req, &o, "safety");
                let mut p = b.pres.clone();
                p["requested_proof"]["revealed_attr_groups"]["g"]["values"]["age"] = json!({"raw": "99", "encoded": "99"});
                emit_legacy(eng, out, &mut cases, "c03.legacy", "c03:group-duplicate-name:unrequested-member-added", "", Some(false), &p, &b.ghosts, &b.agg, &b.req, &o, "safety");
            }
        }
        // a names group that lists one attribute in several spellings (the sub proof holds one value for all of them): every member of the
        // revealed group, under every spelling, is compared with the signed value
        for names in [vec!["name", "Name", "sex"], vec!["Name", "name"], vec!["sex", "N a m e", "NAME", "name"], vec!["height", " height", "HEIGHT "]] {
            let h = eng.cast.cred("a_alice");
            let plan = Plan { creds: vec![CredUse { held: h, state_list: None, ts_only: None }],
                refs: vec![RefPlan { referent: "g".into(), kind: Kind::Group(names.iter().map(|n| n.to_string()).collect()), cred: Some(0), revealed: true, restrictions: None, non_revoked: None }],
                global_nr: None, nonce: format!("{}", 1000 + rng.below(1_000_000_000)), holder: 0 };
            match eng.build_legacy(&plan) {
                Ok(b) => {
                    emit_legacy(eng, out, &mut cases, "c03.legacy", "c03:group-respelled-name:honest", "", None, &b.pres, &b.ghosts, &b.agg, &b.req, &o, "safety");
                    let members: Vec<String> = b.pres["requested_proof"]["revealed_attr_groups"]["g"]["values"].as_object().map(|o| o.keys().cloned().collect()).unwrap_or_default();
                    for m in members {
                        let mut p = b.pres.clone();
                        let e = p["requested_proof"]["revealed_attr_groups"]["g"]["values"][m.as_str()]["encoded"].as_str().unwrap_or("0").to_string();
                        p["requested_proof"]["revealed_attr_groups"]["g"]["values"][m.as_str()]["encoded"] = json!(if e.len() > 12 { perturb_decimal(&e) } else { format!("{}1", e) });
                        p["requested_proof"]["revealed_attr_groups"]["g"]["values"][m.as_str()]["raw"] = json!("Mallory");
                        emit_legacy(eng, out, &mut cases, "c03.legacy", "c03:group-respelled-name:member-altered", "", Some(false), &p, &b.ghosts, &b.agg, &b.req, &o, "safety");
                    }
                }
                Err(_) => out.count("c03:group-respelled-name:not-presentable"),
            }
        }
        // two credentials: values attributed to the other credential
        let plan = two_cred_plan(rng, eng, "a_alice", "b_alice");
        if let Ok(b) = eng.build_w3c(&plan) {
            let mut p = b.pres.clone();
            let s0 = p.verifiable_credential[0].credential_subject.clone();
            let s1 = p.verifiable_credential[1].credential_subject.clone();
            p.verifiable_credential[0].credential_subject = s1;
            p.verifiable_credential[1].credential_subject = s0;
            emit_w3c(eng, out, &mut cases, "c03.w3c", "c03:subjects-swapped-between-credentials", "", Some(false), &p, &b.ghosts, &b.agg, true, &b.req, &o, "safety");
            let mut p = b.pres.clone();
            p.verifiable_credential.swap(0, 1);
            let mut g = b.ghosts.clone();
            g.swap(0, 1);
            emit_w3c(eng, out, &mut cases, "c03.w3c", "c03:credentials-reordered", "", Some(false), &p, &g, &b.agg, true, &b.req, &o, "safety");
        }
    }
    cases
}

// ---------------------------------------------------------------------------------------------
// C05: nonce, link secret, definitions, integrity of the proof

fn numeric_paths(v: &Value, prefix: Vec<String>, out: &mut Vec<Vec<String>>) {
    match v {
        Value::String(s) if s.len() > 6 && s.chars().all(|c| c.is_ascii_digit()) => out.push(prefix),
        Value::Object(m) => {
            for (k, x) in m {
                let mut p = prefix.clone();
                p.push(k.clone());
                numeric_paths(x, p, out);
            }
        }
        Value::Array(a) => {
            for (i, x) in a.iter().enumerate() {
                let mut p = prefix.clone();
                p.push(i.to_string());
                numeric_paths(x, p, out);
            }
        }
        _ => {}
    }
}
fn at_mut<'a>(v: &'a mut Value, path: &[String]) -> &'a mut Value {
    let mut cur = v;
    for k in path {
        cur = if cur.is_array() { &mut cur[k.parse::<usize>().unwrap()] } else { &mut cur[k.as_str()] };
    }
    cur
}

pub fn c05(eng: &mut Engine, rng: &mut Rng, thorough: bool, out: &mut Out) -> Cases {
    let mut cases = vec![];
    let rounds = if thorough { 25 } else { 2 };
    let o = plain_opts();
    for round in 0..rounds {
        let plan = two_cred_plan(rng, eng, "a_alice", "c_alice");
        let r0 = plan.request_json();
        let b = match eng.build_legacy(&plan) {
            Ok(b) => b,
            Err(_) => continue,
        };
        emit_legacy(eng, out, &mut cases, "c05.legacy", "c05:honest", "", Some(true), &b.pres, &b.ghosts, &b.agg, &b.req, &o, "safety");
        // another nonce in the request
        for (cls, nonce) in [("nonce+1", format!("{}", plan.nonce.parse::<u64>().unwrap() + 1)), ("nonce-other", "424242".to_string()), ("nonce-leading-zero-same-value", format!("0{}", plan.nonce))] {
            let mut r = r0.clone();
            r["nonce"] = json!(nonce);
            if let Some(req) = req_from(&r) {
                let exp = if cls.starts_with("nonce-leading") { None } else { Some(false) };
                emit_legacy(eng, out, &mut cases, "c05.legacy", &format!("c05:{cls}"), "", exp, &b.pres, &b.ghosts, &b.agg, &req, &o, "safety");
            }
        }
        // another credential definition under the same id
        let (ia, ib, ic) = (eng.cast.def_idx("A"), eng.cast.def_idx("B"), eng.cast.def_idx("C"));
        for (cls, sw) in [("def-swapped-same-schema", (ia, ib)), ("def-swapped-other-schema", (ic, ia))] {
            let o2 = VOpts { swap_def: Some(sw), ..Default::default() };
            emit_legacy(eng, out, &mut cases, "c05.legacy", &format!("c05:{cls}"), "", Some(false), &b.pres, &b.ghosts, &b.agg, &b.req, &o2, "safety");
        }
        // sub-proofs reordered (with and without the unauthenticated bookkeeping following)
        {
            let mut p = b.pres.clone();
            p["proof"]["proofs"].as_array_mut().unwrap().swap(0, 1);
            let mut g = b.ghosts.clone();
            g.swap(0, 1);
            emit_legacy(eng, out, &mut cases, "c05.legacy", "c05:subproofs-swapped", "", Some(false), &p, &g, &b.agg, &b.req, &o, "safety");
            p["identifiers"].as_array_mut().unwrap().swap(0, 1);
            for m in ["revealed_attrs", "unrevealed_attrs", "predicates"] {
                if let Some(o) = p["requested_proof"][m].as_object_mut() {
                    for (_, e) in o.iter_mut() {
                        let i = e["sub_proof_index"].as_u64().unwrap();
                        e["sub_proof_index"] = json!(1 - i);
                    }
                }
            }
            emit_legacy(eng, out, &mut cases, "c05.legacy", "c05:subproofs-swapped-consistently", "", Some(false), &p, &g, &b.agg, &b.req, &o, "safety");
        }
        // a sub-proof spliced in from another presentation of the same credential for the same request
        if let Ok(b2) = eng.build_legacy(&plan) {
            let mut p = b.pres.clone();
            p["proof"]["proofs"][1] = b2.pres["proof"]["proofs"][1].clone();
            let mut g = b.ghosts.clone();
            g[1] = b2.ghosts[1].clone();
            emit_legacy(eng, out, &mut cases, "c05.legacy", "c05:subproof-spliced", "", Some(false), &p, &g, &b.agg, &b.req, &o, "safety");
            let mut p = b.pres.clone();
            p["proof"]["aggregated_proof"] = b2.pres["proof"]["aggregated_proof"].clone();
            emit_legacy(eng, out, &mut cases, "c05.legacy", "c05:aggregate-spliced", "", Some(false), &p, &b.ghosts, &b2.agg, &b.req, &o, "safety");
        }
        // one decimal digit changed in a numeric field of a sub-proof / of the aggregated proof
        let mut paths = vec![];
        numeric_paths(&b.pres["proof"], vec!["proof".to_string()], &mut paths);
        let n_pert = if thorough { paths.len() } else { 10.min(paths.len()) };
        rng.shuffle(&mut paths);
        for path in paths.iter().take(n_pert) {
            let mut p = b.pres.clone();
            let cur = at_mut(&mut p, path);
            let old = cur.as_str().unwrap().to_string();
            *cur = json!(perturb_decimal(&old));
            let mut g = b.ghosts.clone();
            let mut agg = b.agg.clone();
            if path.get(1).map(|s| s == "proofs").unwrap_or(false) {
                let i: usize = path[2].parse().unwrap();
                g[i]["intact"] = json!(false);
            } else {
                agg["intact"] = json!(false);
            }
            let field = path.iter().filter(|s| s.parse::<usize>().is_err()).cloned().collect::<Vec<_>>().join(".");
            // a changed *revealed value* inside the sub-proof also changes what the sub-proof visibly reveals
            emit_legacy(eng, out, &mut cases, "c05.legacy", &format!("c05:perturbed:{field}"), "", Some(false), &p, &g, &agg, &b.req, &o, "safety");
        }
        {
            // a byte of the aggregated proof's c_list
            let mut p = b.pres.clone();
            if let Some(x) = p["proof"]["aggregated_proof"]["c_list"][0][3].as_u64() {
                p["proof"]["aggregated_proof"]["c_list"][0][3] = json!((x + 1) % 256);
                let mut agg = b.agg.clone();
                agg["intact"] = json!(false);
                emit_legacy(eng, out, &mut cases, "c05.legacy", "c05:perturbed:c_list", "", Some(false), &p, &b.ghosts, &agg, &b.req, &o, "safety");
            }
        }
        // nonce and aggregated proof on other shapes: no credential at all (self-attested only), one credential, boundary shapes
        {
            let sa = |r: &str, n: &str| RefPlan { referent: r.into(), kind: Kind::SelfAttested(n.into()), cred: None, revealed: true, restrictions: None, non_revoked: None };
            let mut shapes: Vec<(&str, Plan)> = vec![
                ("self-attested-only", Plan { creds: vec![], refs: vec![sa("s0", "nickname"), sa("s1", "motto")], global_nr: None, nonce: format!("{}", 1000 + rng.below(1_000_000_000)), holder: 0 }),
                ("one-credential", basic_plan(rng, eng, "a_alice", round % 2 == 0)),
            ];
            let mut ex = extreme_plans(rng, &eng.cast);
            let i = rng.below(ex.len() as u64) as usize;
            shapes.push(("boundary-shape", ex.swap_remove(i)));
            for (shape, pl) in shapes {
                let Ok(bs) = eng.build_legacy(&pl) else { out.count(&format!("c05:{shape}:prover-refused")); continue };
                emit_legacy(eng, out, &mut cases, "c05.legacy", &format!("c05:{shape}:honest"), "", Some(true), &bs.pres, &bs.ghosts, &bs.agg, &bs.req, &o, "safety");
                let rj = pl.request_json();
                for (cls, nonce) in [("nonce+1", format!("{}", pl.nonce.parse::<u64>().unwrap() + 1)), ("nonce-other", "424242".to_string())] {
                    let mut r = rj.clone();
                    r["nonce"] = json!(nonce);
                    if let Some(req) = req_from(&r) {
                        emit_legacy(eng, out, &mut cases, "c05.legacy", &format!("c05:{shape}:{cls}"), "", Some(false), &bs.pres, &bs.ghosts, &bs.agg, &req, &o, "safety");
                    }
                }
                let mut p = bs.pres.clone();
                let old = p["proof"]["aggregated_proof"]["c_hash"].as_str().unwrap_or("0").to_string();
                p["proof"]["aggregated_proof"]["c_hash"] = json!(perturb_decimal(&old));
                let mut agg = bs.agg.clone();
                agg["intact"] = json!(false);
                emit_legacy(eng, out, &mut cases, "c05.legacy", &format!("c05:{shape}:perturbed:c_hash"), "", Some(false), &p, &bs.ghosts, &agg, &bs.req, &o, "safety");
                // an aggregated proof taken from another presentation of the same shape (other nonce)
                let mut pl2 = pl.clone();
                pl2.nonce = format!("{}", 1000 + rng.below(1_000_000_000));
                if let Ok(b2) = eng.build_legacy(&pl2) {
                    let mut p = bs.pres.clone();
                    p["proof"]["aggregated_proof"] = b2.pres["proof"]["aggregated_proof"].clone();
                    emit_legacy(eng, out, &mut cases, "c05.legacy", &format!("c05:{shape}:aggregate-of-other-session"), "", Some(false), &p, &bs.ghosts, &b2.agg, &bs.req, &o, "safety");
                    // the whole other presentation against this request (replay under a fresh nonce)
                    emit_legacy(eng, out, &mut cases, "c05.legacy", &format!("c05:{shape}:replayed-under-fresh-nonce"), "", Some(false), &b2.pres, &b2.ghosts, &b2.agg, &bs.req, &o, "safety");
                }
                if let Ok(bw) = eng.build_w3c(&pl) {
                    emit_w3c(eng, out, &mut cases, "c05.w3c", &format!("c05:{shape}:honest"), "", Some(true), &bw.pres, &bw.ghosts, &bw.agg, true, &bw.req, &o, "safety");
                    let mut r = rj.clone();
                    r["nonce"] = json!("424242");
                    emit_w3c(eng, out, &mut cases, "c05.w3c", &format!("c05:{shape}:nonce-other"), "", Some(false), &bw.pres, &bw.ghosts, &bw.agg, true, &req_from(&r).unwrap(), &o, "safety");
                }
            }
        }
        // a revocable credential with its non-revocation proof: the definition the presentation names (not the one the registry
        // definition points back to, not one merely known to the verifier) must be the one whose keys verify the proof
        {
            let hr = eng.cast.cred("r1_alice");
            let ri = eng.cast.creds[hr].rev.unwrap().0;
            let ir = eng.cast.creds[hr].def;
            let plan = rev_plan(rng, eng, "r1_alice", Some(1), None, if round % 2 == 0 { "global" } else { "revealed" }, json!({"from": 0, "to": 100}));
            let orev = VOpts { lists: Some(vec![(ri, 1)]), rev_reg_defs: true, ..Default::default() };
            let wpool = eng.cast.w.clone();
            let others: Vec<&crate::world::Def> = wpool.defs.iter().enumerate().filter(|(i, _)| *i != ir).map(|(_, d)| d).collect();
            if let Ok(b) = eng.build_legacy(&plan) {
                emit_legacy(eng, out, &mut cases, "c05.legacy", "c05:revocable:honest", "", Some(true), &b.pres, &b.ghosts, &b.agg, &b.req, &orev, "safety");
                for (n, od) in others.iter().enumerate() {
                    if n > 1 && !thorough {
                        break;
                    }
                    let mut p = b.pres.clone();
                    p["identifiers"][0]["cred_def_id"] = json!(od.cid.0);
                    emit_legacy(eng, out, &mut cases, "c05.legacy", "c05:revocable:relabelled-definition", "", Some(false), &p, &b.ghosts, &b.agg, &b.req, &orev, "safety");
                    p["identifiers"][0]["schema_id"] = json!(od.sid.0);
                    emit_legacy(eng, out, &mut cases, "c05.legacy", "c05:revocable:relabelled-definition-and-schema", "", Some(false), &p, &b.ghosts, &b.agg, &b.req, &orev, "safety");
                }
                for other in [ia, ic] {
                    let o2 = VOpts { swap_def: Some((ir, other)), ..orev.clone() };
                    emit_legacy(eng, out, &mut cases, "c05.legacy", "c05:revocable:def-swapped", "", Some(false), &b.pres, &b.ghosts, &b.agg, &b.req, &o2, "safety");
                }
            }
            if let Ok(bw) = eng.build_w3c(&plan) {
                emit_w3c(eng, out, &mut cases, "c05.w3c", "c05:revocable:honest", "", Some(true), &bw.pres, &bw.ghosts, &bw.agg, true, &bw.req, &orev, "safety");
                for (n, od) in others.iter().enumerate() {
                    if n > 1 && !thorough {
                        break;
                    }
                    let mut p = bw.pres.clone();
                    let mut pv = p.verifiable_credential[0].get_credential_presentation_proof().unwrap().clone();
                    pv.cred_def_id = od.cid.clone();
                    set_w3c_proof(&mut p.verifiable_credential[0], &pv, None, None);
                    emit_w3c(eng, out, &mut cases, "c05.w3c", "c05:revocable:relabelled-definition", "", Some(false), &p, &bw.ghosts, &bw.agg, true, &bw.req, &orev, "safety");
                    pv.schema_id = od.sid.clone();
                    set_w3c_proof(&mut p.verifiable_credential[0], &pv, None, None);
                    p.verifiable_credential[0].issuer = od.issuer.clone();
                    emit_w3c(eng, out, &mut cases, "c05.w3c", "c05:revocable:relabelled-definition-schema-issuer", "", Some(false), &p, &bw.ghosts, &bw.agg, true, &bw.req, &orev, "safety");
                }
                let o2 = VOpts { swap_def: Some((ir, ia)), ..orev.clone() };
                emit_w3c(eng, out, &mut cases, "c05.w3c", "c05:revocable:def-swapped", "", Some(false), &bw.pres, &bw.ghosts, &bw.agg, true, &bw.req, &o2, "safety");
            }
        }
        // another link secret for all credentials: the honest prover API with the wrong secret
        {
            let mut plan2 = plan.clone();
            plan2.holder = 1;
            if let Ok(mut b3) = eng.build_legacy(&plan2) {
                for g in b3.ghosts.iter_mut() {
                    g["intact"] = json!(false); // not a proof of knowledge of a signature over this secret
                }
                emit_legacy(eng, out, &mut cases, "c05.legacy", "c05:wrong-link-secret-all", "", Some(false), &b3.pres, &b3.ghosts, &b3.agg, &b3.req, &o, "safety");
            } else {
                out.count("c05:wrong-link-secret-all:prover-refused");
            }
        }
        // credentials of two holders combined by an adversarial prover built on the CL builder
        if round < 3 || thorough {
            for common in [false, true] {
                if let Some((pj, ghosts, agg, req)) = crate::adv::mix_two_holders(eng, rng, common) {
                    emit_legacy(eng, out, &mut cases, "c05.legacy", &format!("c05:two-holders:{}", if common { "common-attr" } else { "no-common-attr" }), "", Some(false), &pj, &ghosts, &agg, &req, &o, "safety");
                    // ... and for a verifier that resolves exactly the one definition both credentials were issued under
                    let narrow = VOpts { only_defs: Some(vec![ia]), ..Default::default() };
                    emit_legacy(eng, out, &mut cases, "c05.legacy", &format!("c05:two-holders:{}:single-definition-context", if common { "common-attr" } else { "no-common-attr" }), "", Some(false), &pj, &ghosts, &agg, &req, &narrow, "safety");
                }
            }
        }
        // W3C
        if let Ok(bw) = eng.build_w3c(&plan) {
            emit_w3c(eng, out, &mut cases, "c05.w3c", "c05:honest", "", Some(true), &bw.pres, &bw.ghosts, &bw.agg, true, &bw.req, &o, "safety");
            let mut r = r0.clone();
            r["nonce"] = json!("424242");
            emit_w3c(eng, out, &mut cases, "c05.w3c", "c05:nonce-other", "", Some(false), &bw.pres, &bw.ghosts, &bw.agg, true, &req_from(&r).unwrap(), &o, "safety");
            let o2 = VOpts { swap_def: Some((ia, ib)), ..Default::default() };
            emit_w3c(eng, out, &mut cases, "c05.w3c", "c05:def-swapped-same-schema", "", Some(false), &bw.pres, &bw.ghosts, &bw.agg, true, &bw.req, &o2, "safety");
            // the presentation's own proof envelope: purpose, kind of value, challenge
            {
                let pj = serde_json::to_value(&bw.pres).unwrap();
                let mut edits: Vec<(&str, Value, Option<bool>)> = vec![];
                let mut j = pj.clone();
                j["proof"]["proofPurpose"] = json!("assertionMethod");
                edits.push(("presentation-proof-purpose-assertion", j, Some(false)));
                let mut j = pj.clone();
                j["proof"]["proofValue"] = pj["verifiableCredential"][0]["proof"]["proofValue"].clone();
                edits.push(("presentation-proof-is-a-credential-proof", j, Some(false)));
                let mut j = pj.clone();
                j["proof"]["challenge"] = json!("424242");
                edits.push(("presentation-proof-challenge-changed", j, None));
                let mut j = pj.clone();
                j["verifiableCredential"][0]["proof"]["proofPurpose"] = json!("authentication");
                edits.push(("credential-proof-purpose-authentication", j, Some(false)));
                let mut j = pj.clone();
                j["verifiableCredential"][0]["proof"]["proofValue"] = pj["proof"]["proofValue"].clone();
                edits.push(("credential-proof-is-a-presentation-proof", j, Some(false)));
                for (cls, j, exp) in edits {
                    match serde_json::from_value::<anoncreds::data_types::w3c::presentation::W3CPresentation>(j) {
                        Ok(p) => emit_w3c(eng, out, &mut cases, "c05.w3c", &format!("c05:{cls}"), "", exp, &p, &bw.ghosts, &bw.agg, true, &bw.req, &o, "safety"),
                        Err(_) => out.count(&format!("c05:{cls}:undeserialisable")),
                    }
                }
            }
            // perturb a number inside the first credential's sub-proof
            let pv = bw.pres.verifiable_credential[0].get_credential_presentation_proof().unwrap().clone();
            let sj = serde_json::to_value(&pv.sub_proof).unwrap();
            let mut paths = vec![];
            numeric_paths(&sj, vec![], &mut paths);
            rng.shuffle(&mut paths);
            for path in paths.iter().take(if thorough { 12 } else { 3 }) {
                let mut sj2 = sj.clone();
                let cur = at_mut(&mut sj2, path);
                let old = cur.as_str().unwrap().to_string();
                *cur = json!(perturb_decimal(&old));
                if let Ok(sp) = serde_json::from_value(sj2) {
                    let mut pv2 = pv.clone();
                    pv2.sub_proof = sp;
                    let mut p = bw.pres.clone();
                    set_w3c_proof(&mut p.verifiable_credential[0], &pv2, None, None);
                    let mut g = bw.ghosts.clone();
                    g[0]["intact"] = json!(false);
                    let field = path.iter().filter(|s| s.parse::<usize>().is_err()).cloned().collect::<Vec<_>>().join(".");
                    emit_w3c(eng, out, &mut cases, "c05.w3c", &format!("c05:perturbed:{field}"), "", Some(false), &p, &g, &bw.agg, true, &bw.req, &o, "safety");
                }
            }
        }
    }
    cases
}

// ---------------------------------------------------------------------------------------------
// C06: restrictions (system level): one fixed valid presentation per round, only the request's restrictions vary

pub fn c06(eng: &mut Engine, rng: &mut Rng, thorough: bool, out: &mut Out) -> Cases {
    let mut cases = vec![];
    let rounds = if thorough { 20 } else { 2 };
    let o = plain_opts();
    for round in 0..rounds {
        let single = round % 2 == 0;
        let which = *rng.pick(&["a_alice", "l_alice", "c_alice"]);
        let plan = if single { basic_plan(rng, eng, which, true) } else { two_cred_plan(rng, eng, "a_alice", "b_alice") };
        let r0 = plan.request_json();
        let bl = eng.build_legacy(&plan).ok();
        let bw = eng.build_w3c(&plan).ok();
        let n_var = if thorough { 60 } else { 24 };
        for _ in 0..n_var {
            // choose a referent and a restriction that is true / false of the credential serving it
            let rp = rng.pick(&plan.refs).clone();
            let held = plan.creds[rp.cred.unwrap()].held;
            let truth = rng.chance(1, 2);
            let revealed_pairs: Vec<(String, String)> = match (&rp.kind, rp.revealed) {
                (Kind::Single(n), true) => vec![(n.clone(), eng.cast.creds[held].values.iter().find(|(k, _)| norm(k) == norm(n)).map(|(_, v)| v.clone()).unwrap_or_default())],
                _ => vec![],
            };
            let q = if truth { true_restrictions(rng, &eng.cast, held, &revealed_pairs) } else { false_restrictions(rng, &eng.cast, held) };
            let mut r = r0.clone();
            let is_pred = matches!(rp.kind, Kind::Pred(..));
            let section = if is_pred { "requested_predicates" } else { "requested_attributes" };
            r[section][rp.referent.as_str()]["restrictions"] = q.clone();
            let Some(req) = req_from(&r) else { continue };
            let kind = match rp.kind { Kind::Single(_) => if rp.revealed { "single" } else { "unrevealed" }, Kind::Group(_) => "group", Kind::Pred(..) => "pred", Kind::SelfAttested(_) => "self" };
            let cls = format!("c06:{}:{}:{}", if single { "1cred" } else { "2cred" }, kind, if truth { "true" } else { "false" });
            // in a two-credential W3C presentation of one schema another credential may legitimately serve the referent
            if let Some(b) = &bl {
                emit_legacy(eng, out, &mut cases, "c06.legacy", &cls, "", Some(truth), &b.pres, &b.ghosts, &b.agg, &req, &o, "safety");
            }
            if let Some(b) = &bw {
                let exp = if truth { Some(true) } else if single { Some(false) } else { None };
                emit_w3c(eng, out, &mut cases, "c06.w3c", &cls, "", exp, &b.pres, &b.ghosts, &b.agg, true, &req, &o, "safety");
            }
        }
        // restriction true of credential 1 placed on the referent served by credential 2 (legacy: the mapped credential decides)
        if !single {
            if let Some(b) = &bl {
                let d1 = &eng.cast.w.defs[eng.cast.creds[plan.creds[0].held].def];
                let mut r = r0.clone();
                r["requested_attributes"]["a2"]["restrictions"] = json!({"cred_def_id": d1.cid.0});
                let req = req_from(&r).unwrap();
                emit_legacy(eng, out, &mut cases, "c06.legacy", "c06:2cred:restriction-of-other-credential", "", Some(false), &b.pres, &b.ghosts, &b.agg, &req, &o, "safety");
                // F10 class: additionally list the referent as unrevealed for the credential that meets the restriction
                let mut p = b.pres.clone();
                p["requested_proof"]["unrevealed_attrs"]["a2"] = json!({"sub_proof_index": 0});
                emit_legacy(eng, out, &mut cases, "c06.legacy", "c06:2cred:duplicate-referent", "", Some(false), &p, &b.ghosts, &b.agg, &req, &o, "safety");
            }
        }
        // sibling credentials: two credentials of ONE definition (same schema, definition, issuer: nothing but the sub-proof tells
        // them apart). A value restriction on a referent served by one of them must not be met by what the other one reveals.
        if round < 2 || thorough {
            for (pi, (ca, cb)) in [("a_alice", "a2_alice"), ("a2_alice", "a_alice"), ("a_alice", "b_alice"), ("a_alice", "a2_alice"), ("b_alice", "a_alice")].into_iter().enumerate() {
                // the value the first credential shows: under a single referent, or (last two pairs) inside a revealed group
                let own_in_group = pi >= 3;
                let ha = eng.cast.cred(ca);
                let hb = eng.cast.cred(cb);
                let va = eng.cast.creds[ha].values.clone();
                let vb = eng.cast.creds[hb].values.clone();
                let (pn, pv) = vb.iter().find(|(_, v)| v.parse::<i32>().is_ok()).map(|(k, v)| (k.clone(), v.parse::<i32>().unwrap())).unwrap();
                let mk = |referent: &str, kind: Kind, cred: usize, revealed: bool| RefPlan { referent: referent.into(), kind, cred: Some(cred), revealed, restrictions: None, non_revoked: None };
                let plan = Plan {
                    creds: vec![CredUse { held: ha, state_list: None, ts_only: None }, CredUse { held: hb, state_list: None, ts_only: None }],
                    refs: vec![
                        if own_in_group { mk("own", Kind::Group(vec![va[0].0.clone(), va[2].0.clone()]), 0, true) } else { mk("own", Kind::Single(va[0].0.clone()), 0, true) },
                        mk("sib_pred", Kind::Pred(pn.clone(), "GE", pv - 1), 1, false),
                        mk("sib_unrev", Kind::Single(vb[3].0.clone()), 1, false),
                        mk("sib_group", Kind::Group(vec![vb[2].0.clone(), vb[3].0.clone()]), 1, true),
                        mk("own_pred", Kind::Pred(va[1].0.clone(), "GE", 1), 0, false),
                    ],
                    global_nr: None,
                    nonce: format!("{}", 1000 + rng.below(1_000_000_000)),
                    holder: 0,
                };
                let r0 = plan.request_json();
                let bl = eng.build_legacy(&plan).ok();
                let bw = eng.build_w3c(&plan).ok();
                let same_def = eng.cast.creds[ha].def == eng.cast.creds[hb].def;
                // the value credential 0 reveals under `own`; credential 1 holds another value for that attribute and does not reveal it
                let q = json!({ format!("attr::{}::value", va[0].0): va[0].1 });
                for (referent, section) in [("own", "requested_attributes"), ("own_pred", "requested_predicates"), ("sib_pred", "requested_predicates"), ("sib_unrev", "requested_attributes"), ("sib_group", "requested_attributes")] {
                    let mut r = r0.clone();
                    r[section][referent]["restrictions"] = q.clone();
                    let Some(req) = req_from(&r) else { continue };
                    let expect = referent == "own" || referent == "own_pred";
                    let cls = format!("c06:sibling:{}{}:{}:{}", if same_def { "same-definition" } else { "other-definition" }, if own_in_group { ":value-in-group" } else { "" }, referent, expect);
                    if let Some(b) = &bl {
                        emit_legacy(eng, out, &mut cases, "c06.legacy", &cls, "", Some(expect), &b.pres, &b.ghosts, &b.agg, &req, &o, "safety");
                    }
                    // the same leaf demanding a value the credential does NOT show: false on the referents of the credential that reveals
                    // the attribute (its own attribute referent and its own predicate: the revealed value is there to compare)
                    if expect {
                        let mut r = r0.clone();
                        r[section][referent]["restrictions"] = json!({ format!("attr::{}::value", va[0].0): "Somebody Else" });
                        if let Some(req) = req_from(&r) {
                            let cls2 = format!("{cls}:wrong-value");
                            if let Some(b) = &bl {
                                emit_legacy(eng, out, &mut cases, "c06.legacy", &cls2, "", Some(false), &b.pres, &b.ghosts, &b.agg, &req, &o, "safety");
                            }
                            if let Some(b) = &bw {
                                emit_w3c(eng, out, &mut cases, "c06.w3c", &cls2, "", None, &b.pres, &b.ghosts, &b.agg, true, &req, &o, "safety");
                            }
                        }
                    }
                    if let Some(b) = &bw {
                        // a W3C presentation carries no referent-to-credential mapping: an attribute referent may be answered as
                        // "held, unrevealed" by the sibling that does meet the restriction (judged by the model); a predicate needs
                        // the predicate proof, which only the mapped credential has
                        let exp = if expect { Some(true) } else if referent == "sib_pred" { Some(false) } else { None };
                        emit_w3c(eng, out, &mut cases, "c06.w3c", &cls, "", exp, &b.pres, &b.ghosts, &b.agg, true, &req, &o, "safety");
                    }
                }
            }
        }
        // a value restriction that names the revealed attribute in another spelling and demands a value the credential does not
        // have is not satisfied (alone, under $or with another false leaf, under $and with a true one; also as marker on a wrong name)
        {
            let rp = plan.refs.iter().find(|x| matches!(x.kind, Kind::Single(_)) && x.revealed).unwrap().clone();
            let n = match &rp.kind { Kind::Single(n) => n.clone(), _ => String::new() };
            let held = plan.creds[rp.cred.unwrap()].held;
            let cid = eng.cast.w.defs[eng.cast.creds[held].def].cid.0.clone();
            for sp in [n.to_uppercase(), format!(" {n}"), { let mut c = n.clone(); c.insert(1, ' '); c }, n.clone()] {
                for (shape, q) in [
                    ("leaf", json!({ format!("attr::{sp}::value"): "Somebody Else" })),
                    ("or-false", json!({"$or": [{ format!("attr::{sp}::value"): "Somebody Else" }, {"cred_def_id": "did:web:nobody/cd"}]})),
                    ("and-true", json!({"$and": [{ format!("attr::{sp}::value"): "Somebody Else" }, {"cred_def_id": cid}]})),
                    ("in", json!({ format!("attr::{sp}::value"): {"$in": ["Somebody Else", "Nobody"]} })),
                ] {
                    let mut r = r0.clone();
                    r["requested_attributes"][rp.referent.as_str()]["restrictions"] = q;
                    let Some(req) = req_from(&r) else { continue };
                    let cls = format!("c06:value-restriction-wrong-value:{}:{shape}", if sp == n { "same-spelling" } else { "other-spelling" });
                    if let Some(b) = &bl {
                        emit_legacy(eng, out, &mut cases, "c06.legacy", &cls, "", Some(false), &b.pres, &b.ghosts, &b.agg, &req, &o, "safety");
                    }
                    if let Some(b) = &bw {
                        let exp = if single { Some(false) } else { None };
                        emit_w3c(eng, out, &mut cases, "c06.w3c", &cls, "", exp, &b.pres, &b.ghosts, &b.agg, true, &req, &o, "safety");
                    }
                }
            }
        }
        // value restrictions on NUMERIC revealed values (a JSON number in a W3C subject), right and wrong, single and inside a group
        {
            let mut done = 0;
            for rp in plan.refs.iter().filter(|x| x.revealed) {
                let held = plan.creds[rp.cred.unwrap()].held;
                let names: Vec<String> = match &rp.kind { Kind::Single(n) => vec![n.clone()], Kind::Group(ns) => ns.clone(), _ => vec![] };
                for n in names {
                    let Some((cn, raw)) = eng.cast.creds[held].values.iter().find(|(k, v)| norm(k) == norm(&n) && v.parse::<i32>().is_ok()).cloned() else { continue };
                    for (right, val) in [(true, raw.clone()), (false, format!("{}", raw.parse::<i32>().unwrap() + 1))] {
                        // legacy keys the value map by the requested spelling, W3C by the credential's (F19): use each format's own
                        for w3c in [false, true] {
                            let key = if w3c { cn.clone() } else { n.clone() };
                            let mut r = r0.clone();
                            r["requested_attributes"][rp.referent.as_str()]["restrictions"] = json!({ format!("attr::{key}::value"): val });
                            let Some(req) = req_from(&r) else { continue };
                            let cls = format!("c06:value-restriction-numeric:{}:{}", if matches!(rp.kind, Kind::Group(_)) { "in-group" } else { "single" }, if right { "right" } else { "wrong" });
                            if w3c {
                                if let Some(b) = &bw {
                                    let exp = if right { Some(true) } else if single { Some(false) } else { None };
                                    emit_w3c(eng, out, &mut cases, "c06.w3c", &cls, "", exp, &b.pres, &b.ghosts, &b.agg, true, &req, &o, "safety");
                                }
                            } else if let Some(b) = &bl {
                                emit_legacy(eng, out, &mut cases, "c06.legacy", &cls, "", Some(right), &b.pres, &b.ghosts, &b.agg, &req, &o, "safety");
                            }
                        }
                    }
                    done += 1;
                }
            }
            if done == 0 {
                out.count("c06:value-restriction-numeric:no-numeric-revealed-in-this-plan");
            }
        }
        // ONE key used for an attribute referent and for a predicate referent (the two sections are separate key spaces), answered
        // from two different credentials: a restriction on the attribute is judged on the attribute's credential, one on the predicate
        // on the predicate's
        if round < 2 || thorough {
            let (ha, hc) = (eng.cast.cred("a_alice"), eng.cast.cred("c_alice"));
            let (va, vc) = (eng.cast.creds[ha].values.clone(), eng.cast.creds[hc].values.clone());
            let (cida, cidc) = (eng.cast.w.defs[eng.cast.creds[ha].def].cid.0.clone(), eng.cast.w.defs[eng.cast.creds[hc].def].cid.0.clone());
            let (pn, pv) = vc.iter().find(|(_, v)| v.parse::<i32>().is_ok()).map(|(k, v)| (k.clone(), v.parse::<i32>().unwrap())).unwrap();
            for attr_revealed in [true, false] {
                let plan = Plan {
                    creds: vec![CredUse { held: ha, state_list: None, ts_only: None }, CredUse { held: hc, state_list: None, ts_only: None }],
                    refs: vec![
                        RefPlan { referent: "k".into(), kind: Kind::Single(va[0].0.clone()), cred: Some(0), revealed: attr_revealed, restrictions: None, non_revoked: None },
                        RefPlan { referent: "k".into(), kind: Kind::Pred(pn.clone(), "GE", pv - 1), cred: Some(1), revealed: false, restrictions: None, non_revoked: None },
                    ],
                    global_nr: None, nonce: format!("{}", 1000 + rng.below(1_000_000_000)), holder: 0 };
                let r0 = plan.request_json();
                let bl = eng.build_legacy(&plan).ok();
                let bw = eng.build_w3c(&plan).ok();
                for (section, q, expect, what) in [
                    ("requested_attributes", json!({"cred_def_id": cida}), true, "attribute:own-definition"),
                    ("requested_attributes", json!({"cred_def_id": cidc}), false, "attribute:definition-of-the-predicate's-credential"),
                    ("requested_predicates", json!({"cred_def_id": cidc}), true, "predicate:own-definition"),
                    ("requested_predicates", json!({"cred_def_id": cida}), false, "predicate:definition-of-the-attribute's-credential"),
                    ("requested_attributes", json!({"$not": {"cred_def_id": cidc}}), true, "attribute:not-the-other-definition"),
                ] {
                    let mut r = r0.clone();
                    r[section]["k"]["restrictions"] = q;
                    let Some(req) = req_from(&r) else { continue };
                    let cls = format!("c06:shared-key:{}:{what}", if attr_revealed { "revealed" } else { "unrevealed" });
                    if let Some(b) = &bl {
                        emit_legacy(eng, out, &mut cases, "c06.legacy", &cls, "", Some(expect), &b.pres, &b.ghosts, &b.agg, &req, &o, "safety");
                    }
                    if let Some(b) = &bw {
                        // W3C: the two credentials have different schemas, so neither can answer for the other
                        emit_w3c(eng, out, &mut cases, "c06.w3c", &cls, "", Some(expect), &b.pres, &b.ghosts, &b.agg, true, &req, &o, "safety");
                    }
                }
            }
        }
        // a restricted referent cannot be met by self-attestation
        if let Some(b) = &bl {
            let mut r = r0.clone();
            let first_attr = plan.refs.iter().find(|x| matches!(x.kind, Kind::Single(_)) && x.revealed).unwrap().referent.clone();
            r["requested_attributes"][first_attr.as_str()]["restrictions"] = json!({"cred_def_id": "whatever"});
            let req = req_from(&r).unwrap();
            let mut p = b.pres.clone();
            p["requested_proof"]["revealed_attrs"].as_object_mut().unwrap().remove(&first_attr);
            p["requested_proof"]["self_attested_attrs"][first_attr.as_str()] = json!("I say so");
            emit_legacy(eng, out, &mut cases, "c06.legacy", "c06:restricted-self-attested", "", Some(false), &p, &b.ghosts, &b.agg, &req, &o, "safety");
            // F15 (known finding): the restriction on a revealed value is evaluated on the unauthenticated raw string
            let mut r = r0.clone();
            let n = match &plan.refs.iter().find(|x| x.referent == first_attr).unwrap().kind { Kind::Single(n) => n.clone(), _ => String::new() };
            r["requested_attributes"][first_attr.as_str()]["restrictions"] = json!({ format!("attr::{n}::value"): "Somebody Else" });
            let req = req_from(&r).unwrap();
            let mut p = b.pres.clone();
            p["requested_proof"]["revealed_attrs"][first_attr.as_str()]["raw"] = json!("Somebody Else");
            emit_legacy(eng, out, &mut cases, "c06.legacy", "c06:value-restriction-met-by-forged-raw", "C06:legacy:value-restriction-on-unauthenticated-raw", Some(false), &p, &b.ghosts, &b.agg, &req, &o, "safety");
        }
    }
    cases
}

// ---------------------------------------------------------------------------------------------
// C12: structure-aware mutations of valid presentations; never panic, never loop

fn rand_key(rng: &mut Rng, m: &Value) -> Option<String> {
    let o = m.as_object()?;
    if o.is_empty() {
        return None;
    }
    let ks: Vec<&String> = o.keys().collect();
    Some((*rng.pick(&ks)).clone())
}

const MAPS: &[&str] = &["revealed_attrs", "revealed_attr_groups", "unrevealed_attrs", "predicates", "self_attested_attrs"];

fn shape_for(map: &str, idx: u64) -> Value {
    match map {
        "revealed_attrs" => json!({"sub_proof_index": idx, "raw": "x", "encoded": "1"}),
        "revealed_attr_groups" => json!({"sub_proof_index": idx, "values": {"name": {"raw": "x", "encoded": "1"}}}),
        "self_attested_attrs" => json!("self"),
        _ => json!({"sub_proof_index": idx}),
    }
}

/// one random structural mutation of a legacy presentation (and of the ghost vector when sub-proofs move)
fn mutate_legacy(rng: &mut Rng, p: &mut Value, ghosts: &mut Vec<Value>, referents: &[String]) -> &'static str {
    let n = p["identifiers"].as_array().map(|a| a.len()).unwrap_or(0) as u64;
    match rng.below(13) {
        0 => {
            let m = *rng.pick(MAPS);
            if let Some(k) = rand_key(rng, &p["requested_proof"][m]) {
                p["requested_proof"][m].as_object_mut().unwrap().remove(&k);
            }
            "delete-referent"
        }
        1 => {
            let m = *rng.pick(MAPS);
            if let Some(k) = rand_key(rng, &p["requested_proof"][m]) {
                let e = p["requested_proof"][m][k.as_str()].clone();
                let target = if rng.chance(1, 2) && !referents.is_empty() { rng.pick(referents).clone() } else { "ghost_ref".to_string() };
                p["requested_proof"][m][target.as_str()] = e;
            }
            "duplicate-referent"
        }
        2 => {
            let m = *rng.pick(&["revealed_attrs", "revealed_attr_groups", "unrevealed_attrs", "predicates"]);
            if let Some(k) = rand_key(rng, &p["requested_proof"][m]) {
                p["requested_proof"][m][k.as_str()]["sub_proof_index"] = json!(rng.below(n + 2));
            }
            "re-index"
        }
        3 | 4 => {
            let from = *rng.pick(MAPS);
            let to = *rng.pick(MAPS);
            if let Some(k) = rand_key(rng, &p["requested_proof"][from]) {
                let e = p["requested_proof"][from].as_object_mut().unwrap().remove(&k).unwrap();
                let idx = e.get("sub_proof_index").and_then(|x| x.as_u64()).unwrap_or(0);
                let keep = rng.chance(1, 2);
                p["requested_proof"][to][k.as_str()] = shape_for(to, idx);
                if keep {
                    p["requested_proof"][from][k.as_str()] = e;
                }
            }
            "cross-wire"
        }
        5 => {
            if let Some(first) = p["identifiers"].get(0).cloned() {
                p["identifiers"].as_array_mut().unwrap().push(first);
            }
            "lengthen-identifiers"
        }
        6 => {
            p["identifiers"].as_array_mut().map(|a| a.pop());
            "shorten-identifiers"
        }
        7 => {
            if let Some(first) = p["proof"]["proofs"].get(0).cloned() {
                p["proof"]["proofs"].as_array_mut().unwrap().push(first);
                let g = ghosts[0].clone();
                ghosts.push(g);
            }
            "lengthen-proofs"
        }
        8 => {
            if p["proof"]["proofs"].as_array().map(|a| !a.is_empty()).unwrap_or(false) {
                p["proof"]["proofs"].as_array_mut().unwrap().pop();
                ghosts.pop();
            }
            "shorten-proofs"
        }
        9 => {
            if n >= 1 {
                let i = rng.below(n) as usize;
                let f = *rng.pick(&["schema_id", "cred_def_id"]);
                p["identifiers"][i][f] = json!(*rng.pick(&["did:web:unknown/x", "did:web:alpha/schema/gvt", "did:web:beta/creddef/gvt", "did:web:gamma/creddef/degree", "did:web:gamma/schema/degree"]));
            }
            "edit-identifier"
        }
        10 => {
            if let Some(k) = rand_key(rng, &p["requested_proof"]["revealed_attr_groups"]) {
                let vals = &mut p["requested_proof"]["revealed_attr_groups"][k.as_str()]["values"];
                match rng.below(3) {
                    0 => {
                        vals["extra"] = json!({"raw": "x", "encoded": "1"});
                    }
                    1 => {
                        if let Some(kk) = rand_key(rng, vals) {
                            vals.as_object_mut().unwrap().remove(&kk);
                        }
                    }
                    _ => {
                        *vals = json!({});
                    }
                }
            }
            "edit-group-values"
        }
        11 => {
            if n >= 1 {
                let i = rng.below(n) as usize;
                match rng.below(3) {
                    0 => p["identifiers"][i]["timestamp"] = json!(rng.below(40)),
                    1 => p["identifiers"][i]["rev_reg_id"] = json!("did:web:rho/revreg/emp/1"),
                    _ => p["identifiers"][i]["rev_reg_id"] = json!("did:web:nowhere"),
                }
            }
            "edit-revocation-fields"
        }
        _ => {
            // a sub-proof with foreign visible content: take another credential's position
            let a = p["proof"]["proofs"].as_array().map(|a| a.len()).unwrap_or(0);
            if a >= 2 {
                p["proof"]["proofs"].as_array_mut().unwrap().swap(0, a - 1);
                ghosts.swap(0, a - 1);
            }
            "swap-proofs"
        }
    }
}

/// request-side mutations that steer the verifier into its less travelled branches
fn mutate_request(rng: &mut Rng, r: &mut Value, eng: &Engine) {
    let d = &eng.cast.w.defs[0];
    match rng.below(8) {
        0 => {
            if let Some(k) = rand_key(rng, &r["requested_attributes"]) {
                r["requested_attributes"][k.as_str()]["restrictions"] = json!({"cred_def_id": d.cid.0});
            }
        }
        1 => {
            if let Some(k) = rand_key(rng, &r["requested_predicates"]) {
                r["requested_predicates"][k.as_str()]["restrictions"] = json!({"$or": [{"cred_def_id": d.cid.0}, {"attr::name::value": "x"}]});
            }
        }
        2 => {
            if let Some(k) = rand_key(rng, &r["requested_attributes"]) {
                let o = r["requested_attributes"][k.as_str()].as_object_mut().unwrap();
                o.remove("name");
                o.remove("names");
            }
        }
        3 => {
            if let Some(k) = rand_key(rng, &r["requested_attributes"]) {
                r["requested_attributes"][k.as_str()]["names"] = json!(["name", "age"]);
            }
        }
        4 => {
            r["non_revoked"] = json!({"from": rng.below(30), "to": 10 + rng.below(30)});
        }
        5 => {
            if let Some(k) = rand_key(rng, &r["requested_attributes"]) {
                r["requested_attributes"][k.as_str()]["non_revoked"] = json!({"from": rng.below(30)});
            }
        }
        6 => {
            r["requested_attributes"]["added"] = json!({"name": "name", "restrictions": {}});
        }
        _ => {}
    }
}

pub fn c12(eng: &mut Engine, rng: &mut Rng, thorough: bool, out: &mut Out) -> Cases {
    let mut cases = vec![];
    let bases = if thorough { 60 } else { 8 };
    let per_base = if thorough { 120 } else { 40 };
    for bi in 0..bases {
        let with_rev = bi % 4 == 3;
        let plan = gen_honest_plan(rng, &eng.cast, false, with_rev);
        let r0 = plan.request_json();
        let o = honest_vopts(&eng.cast, &plan);
        let referents: Vec<String> = plan.refs.iter().map(|r| r.referent.clone()).collect();
        let Ok(b) = eng.build_legacy(&plan) else { continue };
        for _ in 0..per_base {
            let mut p = b.pres.clone();
            let mut g = b.ghosts.clone();
            let k = 1 + rng.below(3);
            let mut names = vec![];
            for _ in 0..k {
                names.push(mutate_legacy(rng, &mut p, &mut g, &referents));
            }
            let mut r = r0.clone();
            if rng.chance(1, 2) {
                mutate_request(rng, &mut r, eng);
            }
            let Some(req) = req_from(&r) else { continue };
            let o2 = if rng.chance(1, 6) { VOpts { lists: Some(vec![(0, 0), (0, 1)]), rev_reg_defs: true, ..Default::default() } } else { o.clone() };
            names.sort();
            names.dedup();
            emit_legacy(eng, out, &mut cases, "c12.legacy", &format!("c12:{}", names.join("+")), "", None, &p, &g, &b.agg, &req, &o2, "safety");
        }
        // W3C: drop / duplicate / reorder credentials, wrong purposes, foreign proof values
        let planw = gen_honest_plan(rng, &eng.cast, true, with_rev);
        let ow = honest_vopts(&eng.cast, &planw);
        let Ok(bw) = eng.build_w3c(&planw) else { continue };
        for _ in 0..(per_base / 3) {
            let mut p = bw.pres.clone();
            let mut g = bw.ghosts.clone();
            let n = p.verifiable_credential.len();
            let cls = match rng.below(7) {
                0 => {
                    p.verifiable_credential.pop();
                    g.pop();
                    "drop-credential"
                }
                1 => {
                    let c = p.verifiable_credential[0].clone();
                    p.verifiable_credential.push(c);
                    let gg = g[0].clone();
                    g.push(gg);
                    "duplicate-credential"
                }
                2 if n >= 2 => {
                    let a = p.verifiable_credential[0].proof.clone();
                    let bb = p.verifiable_credential[n - 1].proof.clone();
                    p.verifiable_credential[0].proof = bb;
                    p.verifiable_credential[n - 1].proof = a;
                    g.swap(0, n - 1);
                    "swap-proof-values"
                }
                3 => {
                    let pv = p.verifiable_credential[0].get_credential_presentation_proof().unwrap().clone();
                    set_w3c_proof(&mut p.verifiable_credential[0], &pv, None, Some(anoncreds::data_types::w3c::proof::ProofPurpose::Authentication));
                    "wrong-purpose"
                }
                4 => {
                    // the credential's own signature proof instead of a presentation proof
                    let held = planw.creds.iter().find(|c| planw.refs.iter().any(|r| r.cred.map(|i| planw.creds[i].held) == Some(c.held))).map(|c| c.held).unwrap_or(0);
                    p.verifiable_credential[0].proof = eng.cast.creds[held].w3c.proof.clone();
                    "signature-proof-instead"
                }
                5 => {
                    p.verifiable_credential[0].credential_subject.0.clear();
                    "empty-subject"
                }
                _ => {
                    p.verifiable_credential.clear();
                    g.clear();
                    "no-credentials"
                }
            };
            let mut r = planw.request_json();
            if rng.chance(1, 2) {
                mutate_request(rng, &mut r, eng);
            }
            let Some(req) = req_from(&r) else { continue };
            emit_w3c(eng, out, &mut cases, "c12.w3c", &format!("c12:{cls}"), "", None, &p, &g, &bw.agg, true, &req, &ow, "safety");
        }
    }
    // byte-level: mutated and random bytes into every from-JSON entry point (test, not theorem: DESIGN §6 C12)
    crate::fuzz::parse_fuzz(eng, rng, if thorough { 400_000 } else { 20_000 }, out);
    cases
}

/// make a selection the prover must (or may) refuse
fn break_plan(rng: &mut Rng, plan: &mut Plan, eng: &Engine) {
    let ci = 0usize;
    let held = plan.creds[ci].held;
    let vals = eng.cast.creds[held].values.clone();
    let k = plan.refs.len();
    match rng.below(10) {
        9 => {
            // one referent answered from two credentials
            if plan.creds.len() < 2 {
                let extra = eng.cast.cred(if eng.cast.creds[held].name == "a2_alice" { "a_alice" } else { "a2_alice" });
                plan.creds.push(CredUse { held: extra, state_list: None, ts_only: None });
            }
            if let Some(r0) = plan.refs.iter().find(|r| r.cred == Some(0)).cloned() {
                let mut dup = r0;
                dup.cred = Some(1);
                plan.refs.push(dup);
            }
        }
        7 => {
            // nothing selected at all: no credential entry (the request still asks for its referents)
            plan.creds.clear();
            for r in plan.refs.iter_mut() {
                if !matches!(r.kind, Kind::SelfAttested(_)) {
                    r.cred = None;
                }
            }
            plan.refs.retain(|r| matches!(r.kind, Kind::SelfAttested(_)) || true);
        }
        8 => {
            // every credential passed along but none mapped to a referent
            for r in plan.refs.iter_mut() {
                r.cred = None;
            }
        }
        0 => {
            // predicate that does not hold
            if let Some((n, v)) = vals.iter().find(|(_, v)| v.parse::<i32>().is_ok()) {
                let v: i32 = v.parse().unwrap();
                plan.refs.push(RefPlan { referent: format!("bad{k}"), kind: Kind::Pred(n.clone(), "GT", v), cred: Some(ci), revealed: false, restrictions: None, non_revoked: None });
            }
        }
        1 => plan.refs.push(RefPlan { referent: format!("bad{k}"), kind: Kind::Single("no such attribute".into()), cred: Some(ci), revealed: true, restrictions: None, non_revoked: None }),
        2 => plan.refs.push(RefPlan { referent: format!("bad{k}"), kind: Kind::Single("no such attribute".into()), cred: Some(ci), revealed: false, restrictions: None, non_revoked: None }),
        3 => {
            // predicate on a non-numeric attribute
            if let Some((n, _)) = vals.iter().find(|(_, v)| v.parse::<i32>().is_err()) {
                plan.refs.push(RefPlan { referent: format!("bad{k}"), kind: Kind::Pred(n.clone(), "GE", 0), cred: Some(ci), revealed: false, restrictions: None, non_revoked: None });
            }
        }
        4 => {
            // an attribute revealed and under a predicate in the same credential
            if let Some((n, v)) = vals.iter().find(|(_, v)| v.parse::<i32>().is_ok()) {
                let v: i32 = v.parse().unwrap();
                plan.refs.push(RefPlan { referent: format!("bad{k}a"), kind: Kind::Single(n.clone()), cred: Some(ci), revealed: true, restrictions: None, non_revoked: None });
                plan.refs.push(RefPlan { referent: format!("bad{k}b"), kind: Kind::Pred(n.clone(), "GE", v), cred: Some(ci), revealed: false, restrictions: None, non_revoked: None });
            }
        }
        5 => {
            // a group with a member the credential lacks
            plan.refs.push(RefPlan { referent: format!("bad{k}"), kind: Kind::Group(vec![vals[0].0.clone(), "missing".into()]), cred: Some(ci), revealed: rng.chance(1, 2), restrictions: None, non_revoked: None });
        }
        _ => {
            // timestamp without revocation state
            plan.creds[ci].state_list = None;
            plan.creds[ci].ts_only = Some(20);
        }
    }
}

// ---------------------------------------------------------------------------------------------
// C17: material for the native-vs-C-ABI cross check (tools/ffi_check.py drives the exported symbols)

/// a set of verifications (honest and attack scenarios, both formats) with everything needed to repeat them through the C ABI:
/// request, presentation, schemas, credential definitions, registry definitions, status lists — as JSON — and the native verdict
pub fn ffi_flows(eng: &mut Engine, rng: &mut Rng, thorough: bool, out: &mut Out) -> Cases {
    let n = if thorough { 120 } else { 24 };
    let mut flows: Vec<Value> = vec![];
    for i in 0..n {
        let w3c = i % 2 == 1;
        let with_rev = i % 3 == 0;
        let plan = gen_honest_plan(rng, &eng.cast, w3c, with_rev);
        let o = honest_vopts(&eng.cast, &plan);
        let (rc, _) = build_ctx(&eng.cast, &o, &mut eng.accs);
        let ctxj = json!({
            "schemas": rc.schemas.iter().map(|(k, v)| json!([k.0, v])).collect::<Vec<_>>(),
            "cred_defs": rc.cred_defs.iter().map(|(k, v)| json!([k.0, v])).collect::<Vec<_>>(),
            "rev_reg_defs": rc.rev_reg_defs.as_ref().map(|m| m.iter().map(|(k, v)| json!([k.0, v])).collect::<Vec<_>>()),
            "lists": rc.lists.as_ref().map(|l| l.iter().map(|x| serde_json::to_value(x).unwrap()).collect::<Vec<_>>()),
        });
        if w3c {
            let Ok(b) = eng.build_w3c(&plan) else { continue };
            let reqj = serde_json::to_value(&b.req).unwrap();
            let pj = serde_json::to_value(&b.pres).unwrap();
            let (v, _) = eng.verify_w3c(&b.pres, &b.req, &o);
            flows.push(json!({"format":"w3c","cls":"honest","request":reqj,"presentation":pj,"ctx":ctxj,"native":v}));
            // an attack variant: another nonce
            let mut r2 = reqj.clone();
            r2["nonce"] = json!("31337");
            let req2: anoncreds::types::PresentationRequest = serde_json::from_value(r2.clone()).unwrap();
            let (v2, _) = eng.verify_w3c(&b.pres, &req2, &o);
            flows.push(json!({"format":"w3c","cls":"other-nonce","request":r2,"presentation":pj,"ctx":ctxj,"native":v2}));
        } else {
            let Ok(b) = eng.build_legacy(&plan) else { continue };
            let reqj = serde_json::to_value(&b.req).unwrap();
            if let Some((v, _)) = eng.verify_legacy(&b.pres, &b.req, &o) {
                flows.push(json!({"format":"legacy","cls":"honest","request":reqj,"presentation":b.pres,"ctx":ctxj,"native":v}));
            }
            // attack variants: a revealed value altered; one identifier too many; a predicate threshold raised in the request
            let mut p2 = b.pres.clone();
            if let Some(k) = p2["requested_proof"]["revealed_attrs"].as_object().and_then(|o| o.keys().next().cloned()) {
                p2["requested_proof"]["revealed_attrs"][k.as_str()]["encoded"] = json!("424242");
                if let Some((v, _)) = eng.verify_legacy(&p2, &b.req, &o) {
                    flows.push(json!({"format":"legacy","cls":"encoded-altered","request":reqj,"presentation":p2,"ctx":ctxj,"native":v}));
                }
            }
            let mut p3 = b.pres.clone();
            let first = p3["identifiers"][0].clone();
            p3["identifiers"].as_array_mut().unwrap().push(first);
            if let Some((v, _)) = eng.verify_legacy(&p3, &b.req, &o) {
                flows.push(json!({"format":"legacy","cls":"extra-identifier","request":reqj,"presentation":p3,"ctx":ctxj,"native":v}));
            }
            let mut r4 = reqj.clone();
            if let Some(k) = r4["requested_predicates"].as_object().and_then(|o| o.keys().next().cloned()) {
                r4["requested_predicates"][k.as_str()]["p_value"] = json!(100000);
                let req4: anoncreds::types::PresentationRequest = serde_json::from_value(r4.clone()).unwrap();
                if let Some((v, _)) = eng.verify_legacy(&b.pres, &req4, &o) {
                    flows.push(json!({"format":"legacy","cls":"predicate-raised","request":r4,"presentation":b.pres,"ctx":ctxj,"native":v}));
                }
            }
        }
    }
    // the verifier's override table (flat list over the C ABI, nested map natively): several entries per registry, any order
    {
        let ri = eng.cast.creds[eng.cast.cred("r1_alice")].rev.unwrap().0;
        let reg_id = eng.cast.w.defs[eng.cast.regs[ri].def].regs[eng.cast.regs[ri].reg].rid.0.clone();
        let other = format!("{reg_id}-other");
        let tables: Vec<(&str, Vec<(String, u64, u64)>)> = vec![
            ("one", vec![(reg_id.clone(), 25, 10)]),
            ("needed-first", vec![(reg_id.clone(), 25, 10), (reg_id.clone(), 30, 10)]),
            ("needed-last", vec![(reg_id.clone(), 30, 10), (reg_id.clone(), 25, 10)]),
            ("needed-middle", vec![(reg_id.clone(), 30, 10), (reg_id.clone(), 25, 10), (reg_id.clone(), 40, 10)]),
            ("not-there", vec![(reg_id.clone(), 30, 10)]),
            ("other-registry-first", vec![(other.clone(), 25, 10), (reg_id.clone(), 25, 10)]),
            ("other-registry-last", vec![(reg_id.clone(), 25, 10), (other.clone(), 25, 10), (other.clone(), 26, 10)]),
            ("override-after-timestamp", vec![(reg_id.clone(), 25, 22)]),
            ("empty", vec![]),
        ];
        for w3c in [false, true] {
            // the holder's state is for list 1 (timestamp 20); the request demands from = 25
            let plan = rev_plan(rng, eng, "r1_alice", Some(1), None, "global", json!({"from": 25}));
            let built_l = if w3c { None } else { eng.build_legacy(&plan).ok() };
            let built_w = if w3c { eng.build_w3c(&plan).ok() } else { None };
            for (tcls, table) in &tables {
                let mut nested: Vec<(String, Vec<(u64, u64)>)> = vec![];
                for (id, f, t) in table {
                    match nested.iter_mut().find(|(i, _)| i == id) {
                        Some((_, v)) => v.push((*f, *t)),
                        None => nested.push((id.clone(), vec![(*f, *t)])),
                    }
                }
                let o = VOpts { lists: Some(vec![(ri, 0), (ri, 1), (ri, 2)]), rev_reg_defs: true, override_: if table.is_empty() { None } else { Some(nested) }, ..Default::default() };
                let (rc, _) = build_ctx(&eng.cast, &o, &mut eng.accs);
                let ctxj = json!({
                    "schemas": rc.schemas.iter().map(|(k, v)| json!([k.0, v])).collect::<Vec<_>>(),
                    "cred_defs": rc.cred_defs.iter().map(|(k, v)| json!([k.0, v])).collect::<Vec<_>>(),
                    "rev_reg_defs": rc.rev_reg_defs.as_ref().map(|m| m.iter().map(|(k, v)| json!([k.0, v])).collect::<Vec<_>>()),
                    "lists": rc.lists.as_ref().map(|l| l.iter().map(|x| serde_json::to_value(x).unwrap()).collect::<Vec<_>>()),
                    "override": table.iter().map(|(i, f, t)| json!([i, f, t])).collect::<Vec<_>>(),
                });
                if let Some(b) = &built_w {
                    let (v, _) = eng.verify_w3c(&b.pres, &b.req, &o);
                    flows.push(json!({"format":"w3c","cls":format!("override:{tcls}"),"request":serde_json::to_value(&b.req).unwrap(),"presentation":serde_json::to_value(&b.pres).unwrap(),"ctx":ctxj,"native":v}));
                }
                if let Some(b) = &built_l {
                    if let Some((v, _)) = eng.verify_legacy(&b.pres, &b.req, &o) {
                        flows.push(json!({"format":"legacy","cls":format!("override:{tcls}"),"request":serde_json::to_value(&b.req).unwrap(),"presentation":b.pres,"ctx":ctxj,"native":v}));
                    }
                }
            }
        }
    }
    // deterministic operations whose output must be byte-identical through both APIs
    let d = eng.cast.w.def("A");
    let schema_native = serde_json::to_string(&anoncreds::issuer::create_schema("gvt", "1.0", d.issuer.clone(), ["name", "age"][..].into()).unwrap()).unwrap();
    let roundtrips: Vec<Value> = vec![
        json!(["schema", serde_json::to_string(&d.schema).unwrap()]),
        json!(["credential_definition", serde_json::to_string(&d.cd).unwrap()]),
        json!(["key_correctness_proof", serde_json::to_string(&d.kcp).unwrap()]),
        json!(["credential", serde_json::to_string(&eng.cast.creds[0].cred).unwrap()]),
        json!(["w3c_credential", serde_json::to_string(&eng.cast.creds[0].w3c).unwrap()]),
        json!(["revocation_registry_definition", serde_json::to_string(&eng.cast.w.def("R").regs[0].def).unwrap()]),
        json!(["revocation_status_list", serde_json::to_string(&eng.cast.regs[0].lists[1]).unwrap()]),
    ];
    let link_secret: String = eng.cast.holders[0].try_clone().unwrap().try_into().unwrap();
    // a revocation-capable definition with its private parts (key generation is too slow to repeat through the C ABI on every run)
    let dr = eng.cast.w.def("R");
    let rev_material = json!({"schema": dr.schema, "schema_id": dr.sid.0, "cred_def": dr.cd, "cred_def_id": dr.cid.0, "cred_def_private": dr.cdp, "key_correctness_proof": dr.kcp,
        "issuer_id": dr.issuer.0, "attr_names": dr.schema.attr_names.0});
    let path = format!("/verif/.cache/ffi_flows-{}.json", std::process::id());
    std::fs::write(&path, serde_json::to_string(&json!({"flows": flows, "schema_native": schema_native, "roundtrips": roundtrips,
        "link_secret": link_secret, "rev_material": rev_material})).unwrap()).unwrap();
    out.count_n("c17:flows", flows.len() as u64);
    println!("FFI_FLOWS_FILE {path}");
    vec![]
}

// ---------------------------------------------------------------------------------------------
// C08 (system level): the presentation timestamp against the demanded window, for unrevoked credentials

pub fn c08s(eng: &mut Engine, rng: &mut Rng, thorough: bool, out: &mut Out) -> Cases {
    let mut cases = vec![];
    let rounds = if thorough { 10 } else { 1 };
    let ri = eng.cast.creds[eng.cast.cred("r1_alice")].rev.unwrap().0;
    let reg_id = eng.cast.w.defs[eng.cast.regs[ri].def].regs[eng.cast.regs[ri].reg].rid.0.clone();
    for _ in 0..rounds {
        for w3c in [false, true] {
            let fmt = if w3c { "w3c" } else { "legacy" };
            let fam = format!("c08s.{fmt}");
            // holder's state is for list1 (timestamp 20); the credential (index 1) is valid in every list
            for placement in ["global", "revealed", "unrevealed", "group", "predicate"] {
                for (wcls, iv, inside) in [("inside", json!({"from": 15, "to": 25}), true), ("inside-open-upper", json!({"from": 20}), true), ("inside-open-lower", json!({"to": 20}), true),
                    ("before", json!({"from": 21, "to": 30}), false), ("after", json!({"from": 5, "to": 19}), false), ("before-open-upper", json!({"from": 25}), false)] {
                    let plan = rev_plan(rng, eng, "r1_alice", Some(1), None, placement, iv.clone());
                    let o = VOpts { lists: Some(vec![(ri, 0), (ri, 1), (ri, 2)]), rev_reg_defs: true, ..Default::default() };
                    // the verifier's override replaces the requested lower bound (when there is one) by an earlier accepted one
                    let ovr_from = iv.get("from").and_then(|x| x.as_u64());
                    let o_ovr = VOpts { override_: ovr_from.map(|f| vec![(reg_id.clone(), vec![(f, 10u64)])]), ..o.clone() };
                    let cls = format!("c08s:{wcls}:{placement}");
                    // known finding F5: the legacy verifier ignores an interval that sits only on an unrevealed referent
                    let unrev_legacy = placement == "unrevealed" && !w3c;
                    let sig = if !inside && unrev_legacy { "C08:legacy:unrevealed-interval-ignored".to_string() } else { String::new() };
                    let expect = if inside { Some(true) } else { Some(false) };
                    let built_l = if w3c { None } else { eng.build_legacy(&plan).ok() };
                    let built_w = if w3c { eng.build_w3c(&plan).ok() } else { None };
                    if let Some(b) = &built_l {
                        emit_legacy(eng, out, &mut cases, &fam, &cls, &sig, expect, &b.pres, &b.ghosts, &b.agg, &b.req, &o, "safety");
                        if ovr_from.is_some() && wcls.starts_with("before") {
                            // with the override the lower bound becomes 10: 20 is inside unless the upper bound excludes it
                            emit_legacy(eng, out, &mut cases, &fam, &format!("{cls}:override"), "", Some(true), &b.pres, &b.ghosts, &b.agg, &b.req, &o_ovr, "safety");
                        }
                        // the presentation names no timestamp although an interval applies
                        let mut p = b.pres.clone();
                        p["identifiers"][0]["timestamp"] = Value::Null;
                        emit_legacy(eng, out, &mut cases, &fam, &format!("{cls}:no-timestamp"), &(if unrev_legacy { "C08:legacy:unrevealed-interval-ignored".to_string() } else { String::new() }), Some(false), &p, &b.ghosts, &b.agg, &b.req, &o, "safety");
                        // no status list for the named timestamp
                        let mut p = b.pres.clone();
                        p["identifiers"][0]["timestamp"] = json!(17);
                        emit_legacy(eng, out, &mut cases, &fam, &format!("{cls}:unlisted-timestamp"), "", Some(false), &p, &b.ghosts, &b.agg, &b.req, &o, "safety");
                    }
                    if let Some(b) = &built_w {
                        emit_w3c(eng, out, &mut cases, &fam, &cls, &sig, expect, &b.pres, &b.ghosts, &b.agg, true, &b.req, &o, "safety");
                        if ovr_from.is_some() && wcls.starts_with("before") {
                            emit_w3c(eng, out, &mut cases, &fam, &format!("{cls}:override"), "", Some(true), &b.pres, &b.ghosts, &b.agg, true, &b.req, &o_ovr, "safety");
                        }
                        let mut p = b.pres.clone();
                        let mut pv = p.verifiable_credential[0].get_credential_presentation_proof().unwrap().clone();
                        pv.timestamp = None;
                        set_w3c_proof(&mut p.verifiable_credential[0], &pv, None, None);
                        emit_w3c(eng, out, &mut cases, &fam, &format!("{cls}:no-timestamp"), "", Some(false), &p, &b.ghosts, &b.agg, true, &b.req, &o, "safety");
                        let mut p = b.pres.clone();
                        let mut pv = p.verifiable_credential[0].get_credential_presentation_proof().unwrap().clone();
                        pv.timestamp = Some(17);
                        set_w3c_proof(&mut p.verifiable_credential[0], &pv, None, None);
                        emit_w3c(eng, out, &mut cases, &fam, &format!("{cls}:unlisted-timestamp"), "", Some(false), &p, &b.ghosts, &b.agg, true, &b.req, &o, "safety");
                    }
                }
            }
            // credentials from a non-revocable definition ignore intervals
            let mut plan = basic_plan(rng, eng, "a_alice", true);
            plan.global_nr = Some(json!({"from": 5, "to": 6}));
            plan.refs[0].non_revoked = Some(json!({"from": 100}));
            let o = plain_opts();
            if w3c {
                if let Ok(b) = eng.build_w3c(&plan) {
                    emit_w3c(eng, out, &mut cases, &fam, "c08s:non-revocable-ignores-intervals", "", Some(true), &b.pres, &b.ghosts, &b.agg, true, &b.req, &o, "safety");
                }
            } else if let Ok(b) = eng.build_legacy(&plan) {
                emit_legacy(eng, out, &mut cases, &fam, "c08s:non-revocable-ignores-intervals", "", Some(true), &b.pres, &b.ghosts, &b.agg, &b.req, &o, "safety");
            }
        }
    }
    cases
}

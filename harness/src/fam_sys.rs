//! System-level scenario families (real crypto): honest flows (C04) and the attack / alteration
//! classes of C01 C02 C03 C05 C06 C08 C12.
#![allow(dead_code)]
use crate::abs::*;
use crate::cast::*;
use crate::out::Out;
use crate::rng::Rng;
use crate::scen::*;
use serde_json::{json, Value};

pub type Cases = Vec<(Value, Value)>;

/// C04: honest issue-hold-present-verify flows, both formats
pub fn c04(eng: &mut Engine, rng: &mut Rng, thorough: bool, out: &mut Out) -> Cases {
    let mut cases = vec![];
    let n = if thorough { 3000 } else { 140 };
    for i in 0..n {
        let w3c = i % 2 == 1;
        let with_rev = i % 3 == 0;
        let plan = gen_honest_plan(rng, &eng.cast, w3c, with_rev);
        let o = honest_vopts(&eng.cast, &plan);
        let cls = format!("honest:{}:{}", if w3c { "w3c" } else { "legacy" }, if with_rev { "rev" } else { "plain" });
        if w3c {
            match eng.build_w3c(&plan) {
                Ok(b) => emit_w3c(eng, out, &mut cases, "c04.w3c", &cls, "", Some(true), &b.pres, &b.ghosts, &b.agg, true, &b.req, &o, "verdict"),
                Err(e) => out.oracle_fail("honest W3C presentation could not be built", &json!({"fam":"c04.w3c","cls":cls,"plan": format!("{plan:?}")}), &json!({"err": e})),
            }
        } else {
            match eng.build_legacy(&plan) {
                Ok(b) => emit_legacy(eng, out, &mut cases, "c04.legacy", &cls, "", Some(true), &b.pres, &b.ghosts, &b.agg, &b.req, &o, "verdict"),
                Err(e) => out.oracle_fail("honest legacy presentation could not be built", &json!({"fam":"c04.legacy","cls":cls,"plan": format!("{plan:?}")}), &json!({"err": e})),
            }
        }
    }
    cases
}

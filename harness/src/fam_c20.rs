//! C20: identifier grammar, schema and credential-request validation — exact correspondence.
use crate::out::Out;
use crate::rng::Rng;
use anoncreds::data_types::cred_def::CredentialDefinitionId;
use anoncreds::data_types::issuer_id::IssuerId;
use anoncreds::data_types::rev_reg_def::RevocationRegistryDefinitionId;
use anoncreds::data_types::schema::SchemaId;
use serde_json::{json, Value};
use std::collections::BTreeSet;

const B58: &str = "123456789ABCDEFGHJKLMNPQRSTUVWXYZabcdefghijkmnopqrstuvwxyz";
const SPECIAL: &[&str] = &[":", "\n", "0", "O", "I", "l", " ", "é", ".", "2", "3", "4", "C", "L", "_", "+", "-", "/", "#", "😀", "\r", "\u{0}", "a", "Z", "9"];

fn b58(rng: &mut Rng, len: usize) -> String {
    let cs: Vec<char> = B58.chars().collect();
    (0..len).map(|_| *rng.pick(&cs)).collect()
}
fn alnum(rng: &mut Rng, len: usize) -> String {
    let cs: Vec<char> = "0123456789ABCDEFGHIJKLMNOPQRSTUVWXYZabcdefghijklmnopqrstuvwxyz".chars().collect();
    (0..len).map(|_| *rng.pick(&cs)).collect()
}
fn did_len(rng: &mut Rng) -> usize {
    *rng.pick(&[21usize, 22, 21, 22, 20, 23, 0, 1])
}
fn name(rng: &mut Rng) -> String {
    (*rng.pick(&["gvt", "a", "", "x y", "n\nm", "é", "a:b", "tag", "1.0", "CL", "default"])).to_string()
}
fn version(rng: &mut Rng) -> String {
    (*rng.pick(&["1.0", "1", "", "..", "1.0.0", "1.a", "0", "1,0", "1.0\n", "١"])).to_string()
}
fn schema_id(rng: &mut Rng, strict: bool) -> String {
    let n = did_len(rng);
    let did = if strict { b58(rng, n) } else { alnum(rng, n) };
    format!("{did}:{}:{}:{}", rng.pick(&["2", "2", "2", "3", ""]), name(rng), version(rng))
}
fn cred_def_id(rng: &mut Rng) -> String {
    let n = did_len(rng);
    let did = b58(rng, n);
    let schema_ref = match rng.below(5) {
        0 => (*rng.pick(&["1", "98153", "0", "01", "", "12a"])).to_string(),
        1 | 2 => schema_id(rng, false),
        3 => schema_id(rng, true),
        _ => format!("{}", rng.below(100000)),
    };
    let tag = if rng.chance(1, 4) { String::new() } else { name(rng) };
    format!("{did}:{}:{}:{schema_ref}:{tag}", rng.pick(&["3", "3", "3", "2", "4"]), rng.pick(&["CL", "CL", "CL", "cl", ""]))
}
fn rev_reg_id(rng: &mut Rng) -> String {
    let n = did_len(rng);
    let did = b58(rng, n);
    let tag = if rng.chance(1, 4) { String::new() } else { name(rng) };
    format!("{did}:{}:{}:{}:{tag}", rng.pick(&["4", "4", "4", "3"]), cred_def_id(rng), rng.pick(&["CL_ACCUM", "CL_ACCUM", "CL", ""]))
}
fn uri(rng: &mut Rng) -> String {
    let scheme = *rng.pick(&["did", "a", "A1+.-", "", "1a", "+a", "a b", "é", "http", "a\n", "did:web"]);
    let rest = *rng.pick(&["x", "", "web:example.com#c", "\n", "a\n", "\nb", "a\nb", ":", "::", "😀", " ", "indy:sovrin:7Tqg6BwSSWapxgUDm9KKgg"]);
    format!("{scheme}:{rest}")
}
fn v_did(rng: &mut Rng) -> String {
    let n = *rng.pick(&[21usize, 22]);
    b58(rng, n)
}
fn v_name(rng: &mut Rng) -> String {
    (*rng.pick(&["gvt", "a", "x y", "n\nm", "é", "tag", "1.0", "CL", "default", "😀"])).to_string()
}
fn v_version(rng: &mut Rng) -> String {
    (*rng.pick(&["1.0", "1", "..", "1.0.0", "0", "."])).to_string()
}
fn v_schema(rng: &mut Rng, strict: bool) -> String {
    let did = if strict { v_did(rng) } else { let n = *rng.pick(&[21usize, 22]); alnum(rng, n) };
    format!("{did}:2:{}:{}", v_name(rng), v_version(rng))
}
fn v_cred_def(rng: &mut Rng) -> String {
    let sref = match rng.below(3) {
        0 => format!("{}", 1 + rng.below(99999)),
        1 => v_schema(rng, false),
        _ => v_schema(rng, true),
    };
    let tag = if rng.chance(1, 5) { String::new() } else { v_name(rng) };
    format!("{}:3:CL:{sref}:{tag}", v_did(rng))
}
fn v_rev_reg(rng: &mut Rng) -> String {
    let sref = match rng.below(3) {
        0 => format!("{}", 1 + rng.below(99999)),
        1 => v_schema(rng, false),
        _ => v_schema(rng, true),
    };
    let tag = if rng.chance(1, 5) { String::new() } else { v_name(rng) };
    format!("{}:4:{}:3:CL:{sref}:{}:CL_ACCUM:{tag}", v_did(rng), v_did(rng), v_name(rng))
}
fn mutate(rng: &mut Rng, s: &str) -> String {
    let mut cs: Vec<char> = s.chars().collect();
    let pos = rng.below(cs.len() as u64 + 1) as usize;
    let ins: Vec<char> = rng.pick(SPECIAL).chars().collect();
    match rng.below(3) {
        0 => {
            for (i, c) in ins.iter().enumerate() {
                cs.insert(pos + i, *c);
            }
        }
        1 => {
            if pos < cs.len() {
                cs.remove(pos);
            }
        }
        _ => {
            if pos < cs.len() {
                cs[pos] = ins[0];
            } else {
                cs.push(ins[0]);
            }
        }
    }
    cs.into_iter().collect()
}

pub const RE_NAMES: &[&str] = &["uri", "legacy_did", "legacy_schema", "legacy_cred_def", "legacy_rev_reg"];
pub const ID_KINDS: &[&str] = &["issuer", "schema", "cred_def", "rev_reg_def"];

pub fn gen(rng: &mut Rng, thorough: bool, out: &mut Out) -> Vec<Value> {
    let n = if thorough { 120_000 } else { 8_000 };
    let mut strings: BTreeSet<String> = BTreeSet::new();
    for s in ["", ":", "::::", "a:b", "a:", ":b", "did:web:x", "NcYxiDXkpYi6ov5FcYDi1e", "DXoTtQJNtXtiwWaZAK3rB1:2:example:1.0",
        "DXoTtQJNtXtiwWaZAK3rB1:3:CL:98153:default", "DXoTtQJNtXtiwWaZAK3rB1:3:CL:98153:",
        "DXoTtQJNtXtiwWaZAK3rB1:4:DXoTtQJNtXtiwWaZAK3rB1:3:CL:98153:default:CL_ACCUM:default",
        "0000000000000000000000", "OOOOOOOOOOOOOOOOOOOOOO", "IIIIIIIIIIIIIIIIIIIIII", "llllllllllllllllllllll", "abc"] {
        strings.insert(s.to_string());
    }
    for _ in 0..n {
        let base = match rng.below(10) {
            6 => v_schema(rng, true),
            7 => v_cred_def(rng),
            8 => v_rev_reg(rng),
            9 => v_did(rng),
            0 => { let k = did_len(rng); b58(rng, k) }
            1 => schema_id(rng, true),
            2 => cred_def_id(rng),
            3 => rev_reg_id(rng),
            4 => uri(rng),
            _ => { let k = did_len(rng); alnum(rng, k) }
        };
        strings.insert(base.clone());
        if rng.chance(1, 2) {
            let m = mutate(rng, &base);
            if rng.chance(1, 4) {
                let m2 = mutate(rng, &m);
                strings.insert(m2);
            }
            strings.insert(m);
        }
    }
    // every grammar position against the whole ASCII range (and two non-ASCII characters): one valid exemplar per form, each
    // character in turn replaced by / preceded by every other character — class boundaries (`,` between `+` and `-`, `0`/`O`/`I`/`l`
    // of base 58, `/` and `:` next to the digits) are all in here
    {
        let exemplars = ["did:web:x", "a+b-c.d:rest", "NcYxiDXkpYi6ov5FcYDi1e", "DXoTtQJNtXtiwWaZAK3rB1:2:na.me:1.0", "DXoTtQJNtXtiwWaZAK3rB1:3:CL:98153:tag",
            "DXoTtQJNtXtiwWaZAK3rB1:3:CL:DXoTtQJNtXtiwWaZAK3rB1:2:na.me:1.0:tag",
            "DXoTtQJNtXtiwWaZAK3rB1:4:DXoTtQJNtXtiwWaZAK3rB1:3:CL:98153:tag:CL_ACCUM:rtag"];
        let mut alphabet: Vec<char> = (0u8..128).map(char::from).collect();
        alphabet.push('é');
        alphabet.push('\u{2028}');
        for (ei, e) in exemplars.iter().enumerate() {
            let cs: Vec<char> = e.chars().collect();
            // the long forms repeat their prefix: vary every position of the short ones, every third of the long ones in quick
            let stride = if thorough || cs.len() < 40 { 1 } else { 3 };
            for pos in (0..cs.len()).step_by(stride) {
                for a in &alphabet {
                    let mut r = cs.clone();
                    r[pos] = *a;
                    strings.insert(r.iter().collect());
                    if ei < 3 || thorough {
                        let mut r = cs.clone();
                        r.insert(pos, *a);
                        strings.insert(r.iter().collect());
                    }
                }
            }
        }
    }
    let mut cases = vec![];
    for s in &strings {
        #[cfg(feature = "unit_hooks")]
        for name in RE_NAMES {
            cases.push(json!({"op":"re","fam":"c20.re","name":name,"s":s,"nt":true}));
        }
        for kind in ID_KINDS {
            cases.push(json!({"op":"id","fam":"c20.id","kind":kind,"s":s,"nt":true}));
        }
        #[cfg(feature = "unit_hooks")]
        if s.len() % 3 == 0 {
            for name in RE_NAMES {
                cases.push(json!({"op":"re","fam":"c20.method","site":"method","name":name,"s":s,"nt":true}));
            }
        }
    }
    out.count_n("c20:strings", strings.len() as u64);
    // schemas: attribute-name lists around the bounds, duplicates, odd issuer ids
    let issuers = ["did:web:x", "NcYxiDXkpYi6ov5FcYDi1e", "", "x", "::::", "a:\n"];
    for &n_attrs in &[0usize, 1, 2, 3, 124, 125, 126, 127, 200] {
        for dup in [false, true] {
            for iss in issuers {
                let mut names: Vec<String> = (0..n_attrs).map(|i| format!("attr{i}")).collect();
                if dup && n_attrs >= 2 {
                    let k = rng.below(n_attrs as u64 - 1) as usize;
                    names[n_attrs - 1] = names[k].clone();
                }
                cases.push(json!({"op":"schema_valid","fam":"c20.schema","issuer_id":iss,"attr_names":names,"nt":true}));
            }
        }
    }
    for _ in 0..(if thorough { 3000 } else { 300 }) {
        let k = rng.below(6) as usize;
        let pool = ["a", "A", "a ", "b", "", "é", "name", "Name"];
        let names: Vec<String> = (0..k).map(|_| rng.pick(&pool).to_string()).collect();
        let iss = *rng.pick(&issuers);
        cases.push(json!({"op":"schema_valid","fam":"c20.schema","issuer_id":iss,"attr_names":names,"nt":true}));
    }
    // credential requests: entropy / prover DID / id-kind combinations
    let cds = ["did:web:x/cd", "DXoTtQJNtXtiwWaZAK3rB1:3:CL:98153:default", "DXoTtQJNtXtiwWaZAK3rB1:3:CL:98153:", "bad", "", "a:b:3:CL:1:t",
        "NcYxiDXkpYi6ov5FcYDi1e:3:CL:NcYxiDXkpYi6ov5FcYDi1e:2:gvt:1.0:tag"];
    let ents: [Option<&str>; 3] = [None, Some("e"), Some("")];
    let dids: [Option<&str>; 7] = [None, Some("NcYxiDXkpYi6ov5FcYDi1e"), Some("did:web:x"), Some("bad"), Some(""), Some("OOOOOOOOOOOOOOOOOOOOOO"), Some("a:\n")];
    for cd in cds {
        for e in ents {
            for d in dids {
                cases.push(json!({"op":"credreq_valid","fam":"c20.credreq","entropy":e,"prover_did":d,"cred_def_id":cd,"nt":true}));
            }
        }
    }
    cases
}

const CREDREQ_TEMPLATE: &str = r#"{"blinded_ms":{"u":"1","ur":null,"hidden_attributes":["master_secret"],"committed_attributes":{}},"blinded_ms_correctness_proof":{"c":"1","v_dash_cap":"1","m_caps":{"master_secret":"1"},"r_caps":{}},"nonce":"1"}"#;

pub fn eval(case: &Value) -> Value {
    let s = case["s"].as_str().unwrap_or("");
    match case["op"].as_str().unwrap_or("") {
        #[cfg(feature = "unit_hooks")]
        "re" => {
            use anoncreds::verif_hooks as h;
            let re = match case["name"].as_str().unwrap_or("") {
                "uri" => &h::URI_IDENTIFIER,
                "legacy_did" => &h::LEGACY_DID_IDENTIFIER,
                "legacy_schema" => &h::LEGACY_SCHEMA_IDENTIFIER,
                "legacy_cred_def" => &h::LEGACY_CRED_DEF_IDENTIFIER,
                "legacy_rev_reg" => &h::LEGACY_REV_REG_DEF_IDENTIFIER,
                _ => return json!({"unknown_re": true}),
            };
            // site "method": the public classification methods of the identifier types apply the same patterns
            if case["site"] == "method" {
                let i = IssuerId::new_unchecked(s);
                return json!(match case["name"].as_str().unwrap_or("") {
                    "uri" => i.is_uri() && SchemaId::new_unchecked(s).is_uri() && CredentialDefinitionId::new_unchecked(s).is_uri() && RevocationRegistryDefinitionId::new_unchecked(s).is_uri(),
                    "legacy_did" => i.is_legacy_did_identifier(),
                    "legacy_schema" => SchemaId::new_unchecked(s).is_legacy_schema_identifier(),
                    "legacy_cred_def" => CredentialDefinitionId::new_unchecked(s).is_legacy_cred_def_identifier(),
                    _ => RevocationRegistryDefinitionId::new_unchecked(s).is_legacy_rev_reg_def_identifier(),
                });
            }
            json!(re.captures(s).is_some())
        }
        "id" => json!(match case["kind"].as_str().unwrap_or("") {
            "issuer" => IssuerId::new(s).is_ok(),
            "schema" => SchemaId::new(s).is_ok(),
            "cred_def" => CredentialDefinitionId::new(s).is_ok(),
            "rev_reg_def" => RevocationRegistryDefinitionId::new(s).is_ok(),
            _ => return json!({"unknown_kind": true}),
        }),
        "schema_valid" => {
            let names: Vec<String> = case["attr_names"].as_array().map(|a| a.iter().map(|x| x.as_str().unwrap_or("").to_string()).collect()).unwrap_or_default();
            let iss = IssuerId::new_unchecked(case["issuer_id"].as_str().unwrap_or(""));
            json!(anoncreds::issuer::create_schema("n", "1.0", iss, names.into()).is_ok())
        }
        "credreq_valid" => {
            // CredentialRequest::new through its only public route that takes arbitrary field values: deserialise, then validate
            let mut j: Value = serde_json::from_str(CREDREQ_TEMPLATE).unwrap();
            if let Some(e) = case["entropy"].as_str() {
                j["entropy"] = json!(e);
            }
            if let Some(d) = case["prover_did"].as_str() {
                j["prover_did"] = json!(d);
            }
            j["cred_def_id"] = case["cred_def_id"].clone();
            match serde_json::from_value::<anoncreds::types::CredentialRequest>(j) {
                Ok(req) => {
                    #[cfg(feature = "unit_hooks")]
                    {
                        use anoncreds::verif_hooks::Validatable;
                        json!(req.validate().is_ok())
                    }
                    #[cfg(not(feature = "unit_hooks"))]
                    {
                        let _ = req;
                        json!({"needs_hooks": true})
                    }
                }
                Err(e) => json!({"deser_err": e.to_string()}),
            }
        }
        _ => json!({"unknown_op": true}),
    }
}

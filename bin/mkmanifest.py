#!/usr/bin/env python3
"""Regenerates MANIFEST.json from bin/props.py (claimed properties) — keeps the manifest valid at all times."""
import json, os, sys, subprocess
sys.path.insert(0, os.path.dirname(os.path.abspath(__file__)))
import props as P
V = os.path.dirname(os.path.dirname(os.path.abspath(__file__)))
allp = [json.loads(l)['id'] for l in open(os.path.join(V, 'properties.jsonl'))]
hooks_commits = subprocess.run("git -C /repo log --format=%H --grep='^verif hooks'", shell=True, capture_output=True, text=True).stdout.split()
checks = []
for pid in allp:
    if pid not in P.PROPS: continue
    c = P.PROPS[pid]
    checks.append(dict(
        property_id=pid,
        quick_cmd=f"bin/check {pid} --tier quick",
        thorough_cmd=f"bin/check {pid} --tier thorough",
        evidence_file=f"evidence/{pid}.json",
        replay_cmd_template=f"bin/check {pid} --replay {{path}}",
        engine="lean4-model+correspondence",
        level_claimed=dict(category="proof", text=c.get('level_text', ''), design_ref=c.get('design_ref', f'DESIGN.md §6 {pid}')),
        level_note=c.get('level_note', 'Lean kernel; axioms propext/Classical.choice/Quot.sound only; hand-written model tied to /repo by differential correspondence on every run; see DESIGN.md §4'),
        technique=c.get('technique', 'Lean 4 theorems over an executable model + differential correspondence check against the implementation'),
    ))
na = [dict(property_id=pid, reason=P.NOT_CLAIMED.get(pid, 'check not built yet in this round; planned (DESIGN.md §11)')) for pid in allp if pid not in P.PROPS]
m = dict(
    version=1,
    setup_cmd="bin/setup",
    hooks=dict(guard="--cfg anoncreds_verif", enable='RUSTFLAGS="--cfg anoncreds_verif" (set in harness/.cargo/config.toml; the harness depends on /repo by path)',
               baseline_off_cmd="cd /repo && cargo test --workspace --no-fail-fast --offline", source_commits=hooks_commits, add_only=True),
    engines=[dict(name="lean4-model+correspondence", path="bin/check", serves_properties=[c['property_id'] for c in checks],
                  kind_free_text="Lean 4 theorems about a hand-written executable model (lean/), tables regenerated from source (tools/extract.py), Rust harness (harness/) running the real code in-process, line-protocol Lean driver, Python comparator")],
    checks=checks,
    notes="See DESIGN.md. known findings: known_findings.json. Seeded changes and which checks catch them: seeded/ and DESIGN.md appendix.",
    not_applicable=na,
)
json.dump(m, open(os.path.join(V, 'MANIFEST.json'), 'w'), indent=1)
print('claimed', len(checks), 'not claimed', len(na))

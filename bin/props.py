"""Per-property configuration of bin/check (what to build, what to run, how to compare)."""

TRUSTED_COMMON = [
    "Lean 4.33.0 kernel (leanchecker re-check in the thorough tier); axioms allowed: propext, Classical.choice, Quot.sound",
    "hand-written Lean model of the service code (lean/AnonModel/Model); tied to /repo by the differential correspondence run of this check",
    "Rust harness (generators, canonicalisation, oracles) and bin/check comparison logic",
]
ASSUMPTIONS_COMMON = [
    "no theorem is about Rust text: every theorem is about the Lean model; the correspondence run samples the model/code relation",
    "external crates (anoncreds-clsignatures, serde, serde_json, regex, sha2, bs58, rmp-serde, bitvec) behave as documented",
]

PROPS = {}

PROPS['C13'] = dict(
    lean_targets=['AnonModel.Props.C13'],
    required_theorems=['C13_parseI32_spec', 'C13_encode_int', 'C13_encode_sha', 'C13_canonical',
                       'C13_encode_idem_on_ints', 'C13_natRepr_injective', 'C13_intToDec_injective',
                       'C13_normalize_encode', 'C13_normalize_idem'],
    families=[dict(name='c13')],
    default_dir='exact',
    spec_is_model=['c13'],
    fam_theorem={'c13': 'C13_encode_int / C13_encode_sha (encode = spec) via C13_parseI32_spec'},
    rule="strings: exhaustive [+-]?0{0,3}digits within +-3 (quick) / +-40 (thorough) of 0, +-2^31, +-2^31*10, 2^32, 2^63, u64::MAX; all strings of length <= 2 over a 40-symbol alphabet (signs, ASCII and non-ASCII digits, whitespace, controls); decorated numbers; random digit runs; random unicode; long strings. Each string is encoded at every call site (function hook, MakeCredentialValues::add_raw, RawCredentialValues::encode, CredentialSubject::encode as string and as number, C ABI helper) and compared exactly with the Lean model. distinct = distinct (site,string); all are non-trivial (each exercises the parse/hash decision)",
    trusted_base=TRUSTED_COMMON + [
        "SHA-256 is a Lean definition (Model/Sha256.lean); that the sha2 crate computes it is established by this correspondence run only",
        "Rust str::parse::<i32> is modelled by hand from core::num (sign handling, checked mul/add/sub digit loop)",
    ],
    assumptions=["W3C issuance and the W3C verifier's re-encoding reach encode_credential_attribute through CredentialSubject::encode / the function itself, which are the sites exercised; they are additionally exercised end-to-end by the C04/C03 flows"],
)

NOT_CLAIMED = {}

"""Per-property configuration of bin/check (what to build, what to run, how to compare)."""

TRUSTED_COMMON = [
    "Lean 4.33.0 kernel (leanchecker re-check in the thorough tier); axioms allowed: propext, Classical.choice, Quot.sound",
    "hand-written Lean model of the service code (lean/AnonModel/Model); tied to /repo by the differential correspondence run of this check",
    "Rust harness (generators, canonicalisation, oracles) and bin/check comparison logic",
]
ASSUMPTIONS_COMMON = [
    "no theorem is about Rust text: every theorem is about the Lean model; the correspondence run samples the model/code relation",
    "external crates (anoncreds-clsignatures, serde, serde_json, regex, sha2, bs58, rmp-serde, bitvec) behave as documented",
]

PROPS = {}

PROPS['C13'] = dict(
    lean_targets=['AnonModel.Props.C13'],
    required_theorems=['C13_parseI32_spec', 'C13_encode_int', 'C13_encode_sha', 'C13_canonical',
                       'C13_encode_idem_on_ints', 'C13_natRepr_injective', 'C13_intToDec_injective',
                       'C13_normalize_encode', 'C13_normalize_idem'],
    families=[dict(name='c13'), dict(name='c13f')],
    default_dir='exact',
    spec_is_model=['c13'],
    fam_theorem={'c13': 'C13_encode_int / C13_encode_sha (encode = spec) via C13_parseI32_spec'},
    rule="strings: exhaustive [+-]?0{0,3}digits within +-3 (quick) / +-40 (thorough) of 0, +-2^31, +-2^31*10, 2^32, 2^63, u64::MAX; all strings of length <= 2 over a 40-symbol alphabet (signs, ASCII and non-ASCII digits, whitespace, controls); decorated numbers; random digit runs; random unicode; long strings. Each string is encoded at every call site (function hook, MakeCredentialValues::add_raw, RawCredentialValues::encode, CredentialSubject::encode as string and as number, C ABI helper) and compared exactly with the Lean model. Flow sites (family c13f): credentials whose values sit on the boundaries of the integer branch (2^31-1, 2^31, -2^31, -2^31-1, 13-digit and 19/20-digit runs, signed / zero-padded / blank-padded forms, empty string, non-ASCII digits) are issued in legacy form, in W3C form with string-typed and with number-typed subject values, converted both ways, processed by the holder, presented in both formats revealing every value and verified (must be true); the encoded value each object carries is compared with the model. distinct = distinct (site,string); all are non-trivial (each exercises the parse/hash decision)",
    trusted_base=TRUSTED_COMMON + [
        "SHA-256 is a Lean definition (Model/Sha256.lean); that the sha2 crate computes it is established by this correspondence run only",
        "Rust str::parse::<i32> is modelled by hand from core::num (sign handling, checked mul/add/sub digit loop)",
    ],
    assumptions=["W3C issuance and the W3C verifier's re-encoding reach encode_credential_attribute through CredentialSubject::encode / the function itself, which are the sites exercised; they are additionally exercised end-to-end by the C04/C03 flows"],
)

NOT_CLAIMED = {}

PROPS['C20'] = dict(
    lean_targets=['AnonModel.Props.C20', 'AnonModel.Props.GenConstsC20'],
    required_theorems=['C20_regex_literals_unchanged', 'C20_max_attributes_unchanged', 'C20_uri_iff', 'C20_legacyDid_iff', 'C20_legacySchema_iff', 'C20_legacyCredDef_iff', 'C20_legacyRevReg_iff',
                       'C20_id_valid_iff', 'C20_schema_valid_iff', 'C20_credreq_valid_iff'],
    families=[dict(name='c20')],
    default_dir='exact',
    spec_is_model=['c20'],
    fam_theorem={'c20': 'C20_*_iff (recogniser = declarative grammar), C20_id_valid_iff, C20_schema_valid_iff, C20_credreq_valid_iff'},
    rule="strings generated from each of the five grammars (URI, legacy DID / schema / cred-def / rev-reg id) with valid-biased and free components, boundary lengths 20-23, forbidden base58 letters, wrong type markers, empty components, embedded/trailing newlines, non-ASCII; single and double mutations of each; every string is fed to the five regexes (hook) and to the four validating constructors *Id::new. Schemas: 0,1,2,3,124,125,126,127,200 names, duplicates, odd issuer ids, random short lists. Credential requests: all entropy x prover-DID x cred-def-id kind combinations (deserialise + validate). distinct = distinct inputs; all non-trivial (every case decides membership)",
    trusted_base=TRUSTED_COMMON + ["Rust regex crate semantics (anchors, '.', negated classes) as transcribed in Model/Ident.lean; validated by the exact correspondence on ~10^5 strings per run"],
    assumptions=["'every object the issuer API returns carries identifiers that pass validation' is claimed for ids that entered through validating constructors (new/try_from/C ABI); new_unchecked, the pub tuple field and Deserialize bypass validation by design of the Rust API and are outside the claim (DESIGN §6 C20)"],
)

PROPS['C08'] = dict(
    lean_targets=['AnonModel.Props.C08'],
    required_theorems=['C08_merge_comm', 'C08_merge_assoc', 'C08_valid_merge', 'C08_valid_foldMerge', 'C08_fold_perm', 'C08_open_bounds',
                       'C08_override_only_from', 'C08_override_keyed', 'C08_legacy_exact', 'C08_w3c_exact', 'C08_accept_legacy_partial',
                       'C08_reject_legacy_partial', 'C08_accept_w3c', 'C08_nonrevocable_ignores'],
    families=[dict(name='c08')],
    default_dir='exact',
    spec_is_model=['c08'],
    fam_theorem={'c08': 'C08_legacy_exact / C08_w3c_exact / C08_demand_spec / C08_override_keyed'},
    rule="exhaustive grid {absent,10,20,30}^2 for every interval: merge (256), is_valid at 14 timestamps incl. 0 and 2^64-1, override maps (5), folds of up to three optional locals through get_requested_attributes (HashSet order), get_requested_non_revoked_interval over registry id x local x global x 7 override maps; check_non_revoked_interval and the prover-side get_non_revoked_interval over revocable x attrs x preds x global x registry id x override x 13 timestamps (sampled 40k in quick, exhaustive in thorough); compared exactly with the Lean model",
    trusted_base=TRUSTED_COMMON,
    assumptions=["full 'accept'/'reject'/'needs timestamp' statements are false of the code for intervals on unrevealed referents (F5) and for identifiers without rev_reg_id (F4): delivered as _partial + _refuted theorems and recorded as known findings under C02/C08 (DESIGN §7)"],
)

PROPS['C16'] = dict(
    lean_targets=['AnonModel.Props.C16', 'AnonModel.Props.GenConstsC16'],
    required_theorems=['C16_internal_tag_literal_unchanged', 'C16_qualifiable_tags_unchanged', 'C16_parse_print_parse', 'C16_parse_ok_iff_wellformed', 'C16_legacy_array', 'C16_legacy_meaning', 'C16_empty_forms',
                       'C16_empty_is_unrestricted', 'C16_validate_v1', 'C16_validate_v2', 'C16_reject_multikey_object', 'C16_reject_unknown_operator'],
    families=[dict(name='c16')],
    default_dir='exact',
    spec_is_model=['c16'],
    fam_theorem={'c16': 'C16_parse_print_parse, C16_parse_ok_iff_wellformed, C16_legacy_array, C16_validate_v1/v2 (model = spec); c06.eval: C06_eval_iff_sat'},
    rule="JSON values built from the WQL operator vocabulary, 28 tag names (metadata, attr::..::value/marker variants, junk, $-prefixed), mistyped operands (null, number, bool, arrays, nested arrays, objects), multi-key operator objects, legacy list-of-filters with null entries and empty objects, random nesting depth 0-3: parsed by serde (alone and inside a PresentationRequest), compared with the model's parse; random ASTs (incl. ones outside the parser's image) printed, their tag names collected, validated for request versions 1 and 2, whole-request structural validation; is_self_attested; evaluation of random ASTs against 5 filters x value maps (c06.eval). Independent oracle on every parsed value: parse(print(parse j)) = parse j on the implementation. distinct = distinct inputs",
    trusted_base=TRUSTED_COMMON + ["serde_json presents objects as sorted unique-key maps (no preserve_order feature in Cargo.lock): the model parses association lists in the order given, the driver sorts keys"],
)

SL_BASE = ["IdealCL accumulator abstraction (DESIGN §4 iv): an accumulator / witness is its exponent-multiplicity vector over registry indices; distinct vectors are distinct group elements; a non-revocation proof for index k with witness w verifies against A iff A_k = 1 and w = A off k. Validated on every run against the real crate: accumulators compared as equivalence patterns of affine bytes, witness validity by building and verifying real presentations"]

PROPS['C09'] = dict(
    lean_targets=['AnonModel.Props.C09'],
    required_theorems=['C09_bits_spec', 'C09_acc_invariant', 'C09_acc_path_independent', 'C09_update_never_errs', 'C09_noop_requests_ignored',
                       'C09_timestamp_only_if_supplied', 'C09_ts_only_keeps_bits_acc', 'C09_issued_credential_embeds', 'C09_length_preserved'],
    families=[dict(name='c09')],
    default_dir='exact',
    spec_is_model=['c09'],
    fam_theorem={'c09': 'C09_bits_spec (bits = fold of the declarative per-index rule), C09_acc_invariant / C09_acc_path_independent (accumulator pattern)'},
    rule="update histories on real registries of size 1-6 (real CL accumulators): 0-4 updates (every tenth run 5-24), issued/revoked sets drawn with nulls, empty sets, overlaps, repetitions, out-of-range indices (L, L+1.., 1000), timestamp supplied or not, timestamp-only updates, both initial modes, a JSON round trip of the list on every other step; compared exactly: bits and timestamp of every state, and the equivalence pattern of the accumulators (first state with an equal accumulator, affine bytes, infinity canonicalised). Independent oracles: update never modifies the list it starts from; an issued credential embeds the accumulator of the matching issue update (c10 family). distinct = distinct runs; non-trivial: all (each has at least the created list)",
    trusted_base=TRUSTED_COMMON + SL_BASE,
)

PROPS['C10'] = dict(
    lean_targets=['AnonModel.Props.C10'],
    required_theorems=['C10_issuer_witness_valid', 'C10_update_preserves', 'C10_valid_unique', 'C10_revoked_no_witness', 'C10_earlier_lists_keep_verifying',
                       'C10_scratch_valid_partial', 'C10_scratch_refuted_on_demand', 'C10_scratch_refuted_pos0', 'C10_issuer_witness_updated_valid'],
    families=[dict(name='c10')],
    default_dir='exact',
    spec_is_model=['c10'],
    fam_theorem={'c10': 'C10_issuer_witness_valid, C10_update_preserves, C10_revoked_no_witness, C10_scratch_valid_iff_by_default (model = spec for each derivation)'},
    rule="registry runs (size 2-6, both modes, 1-4 updates) with 3-6 derivation queries each: from scratch at a state, incrementally from an earlier derived state (older->newer and newer->older), issuer witness of a credential issued against a state and its incremental update; indices incl. 0, L, L+1 (error paths). For each query: did the derivation succeed, does a real presentation built with the derived state verify against the list it is for (real prover + verifier), equivalence pattern of the witnesses (affine bytes), which state's accumulator the issued credential embeds; compared exactly with the model. Independent oracles: non-revoked index + successful derivation => verifies; revoked index => never verifies",
    trusted_base=TRUSTED_COMMON + SL_BASE,
    assumptions=["the property is false of the code for from-scratch states on issuance-on-demand registries and while position 0 is revoked (F12): C10_scratch_* _partial/_refuted theorems; recorded in known_findings.json (F12a, F12b) and reported as KNOWN-FINDING when reproduced"],
)

PROPS['C19'] = dict(
    lean_targets=['AnonModel.Props.C19', 'AnonModel.Props.GenConstsC19', 'AnonModel.Props.C19B58'],
    required_theorems=['C19_version_tag_unchanged', 'C19_content_layout', 'C19_read_back', 'C19_name_is_hash', 'C19_final_atomic', 'C19_temp_is_prefix',
                       'C19_no_temp_after_error', 'C19_success_publishes', 'C19_temp_ne_final', 'C19_base58_injective_any', 'C19_base58_injective', 'C19_base58_digits_value', 'C19_name_injective'],
    families=[dict(name='c19')],
    default_dir='exact',
    spec_is_model=['c19'],
    fam_theorem={'c19': 'C19_content_layout / C19_read_back / C19_name_is_hash (layout, naming), C19_final_atomic / C19_no_temp_after_error (writer machine)'},
    rule="registries of size 1,2,3,5,8,33 (thorough: up to 64) written by the real TailsFileWriter while a wrapper records the generated tails: file name, returned hash, size and SHA-256 compared with the model's own SHA-256/base58/layout; every tail (sampled for large files) and three out-of-range indices read back through TailsFileReader::access_tail; base58 of 1500 random / zero-prefixed byte strings against the bs58 crate; fault injection below libc (LD_PRELOAD shim): the writer runs in a child process and the N-th open/write/lseek/rename that concerns the *.tmp file fails with EIO or the process is SIGKILLed there, for every N reached in a clean run and two file sizes (one with several write calls); afterwards directory listing and file bytes are compared with the model's reachable state at the corresponding step. Independent oracles: bytes = tag ++ tails in generation order; name = tails_hash = base58(sha256(bytes)); final name complete or absent; no *.tmp after an error return",
    trusted_base=TRUSTED_COMMON + ["atomicity of rename(2) and the directory semantics of the OS are assumptions of the writer model", "BufWriter buffering is abstracted to 'the temporary file holds a prefix of the bytes handed over so far'"],
    not_exhibited_by_model=["durability across power loss (the writer never calls fsync)", "a failing remove_file inside the TempFile guard (only logged by the code)"],
)

PROPS['C18'] = dict(
    lean_targets=['AnonModel.Props.C18', 'AnonModel.Props.GenConstsC18'],
    required_theorems=['C18_store_sources_unchanged', 'C18_inv', 'C18_handles_unique_never_reused', 'C18_linearizable', 'C18_resolves_until_freed', 'C18_wrong_type_errors',
                       'C18_snapshot_survives_free', 'C18_checker_sound'],
    families=[dict(name='c18')],
    default_dir='exact',
    fam_theorem={'c18': 'C18_checker_sound (every history of the model machine is accepted by checkHistory) + C18_linearizable'},
    rule="mixed create/json/type-name/use-as/free workloads from 2,3,4,8,16 threads over 2-11 shared handle slots (three object types, unique object ids embedded in the JSON payload, immortal and freeable slots, bogus handles) through the exported C functions; each call stamped with invocation/response tickets from one SeqCst counter; the recorded history is judged by the model's per-handle linearizability checker (must be accepted). 120 workloads x ~100 calls in quick, 1500 x ~1000 in thorough. Independent oracle: create never returns 0 or a duplicate handle. distinct = distinct histories (all non-trivial: several threads, frees racing gets)",
    trusted_base=TRUSTED_COMMON + ["the step machine takes the locked section of each FFI call as one atomic micro-step (std::sync::Mutex gives mutual exclusion; AtomicUsize::fetch_add(SeqCst) is atomic)",
                                   "failure kinds of wrong-typed vs invalid-handle uses are determined by construction of the workload (the library's error slot is process-global and cannot be read back reliably under concurrency)"],
    not_exhibited_by_model=["Arc reference counting and deallocation (a snapshot is a plain value in the model)", "the mutex implementation and lock poisoning after a panic inside the lock", "weak-memory effects below SeqCst, counter wrap-around"],
)


def ext_ffi_check(workdir, tier, seed, sh, vh):
    """C17: build the cdylib from /repo's working tree, let the native harness prepare verifications, drive the C ABI through ctypes"""
    import json, os, sys
    harness = os.path.dirname(os.path.dirname(os.path.dirname(vh)))
    if os.environ.get('VH_NOHOOKS') == '1':
        # the tree does not compile with the hook modules (see vcheck.harness_build): same fallback for the cdylib
        tdir = os.path.join(harness, 'target-nohooks')
        rc, out, _ = sh(['cargo', 'build', '--offline', '-p', 'anoncreds', '--target-dir', tdir], cwd=harness, timeout=3600, env={'RUSTFLAGS': '--cfg anoncreds_verif_off'})
        so = os.path.join(tdir, 'debug', 'libanoncreds.so')
    else:
        rc, out, _ = sh(['cargo', 'build', '--offline', '-p', 'anoncreds'], cwd=harness, timeout=3600)
        so = os.path.join(harness, 'target', 'debug', 'libanoncreds.so')
    if rc != 0 or not os.path.exists(so):
        raise RuntimeError('cdylib build failed: ' + out[-800:])
    rc, out, _ = sh([vh, 'ffi_flows', '--seed', str(seed), '--tier', tier, '--out', '/dev/null'], cwd=harness, timeout=3600)
    flows = [l.split(' ', 1)[1] for l in out.split('\n') if l.startswith('FFI_FLOWS_FILE ')]
    if not flows:
        raise RuntimeError('ffi_flows failed: ' + out[-800:])
    table = os.path.join(os.path.dirname(harness), 'lean', 'AnonModel', 'Gen', 'ffi_table.json')
    tool = os.path.join(os.path.dirname(harness), 'tools', 'ffi_check.py')
    rc, out, _ = sh([sys.executable, tool, so, table, flows[0], vh] + (['--thorough'] if tier == 'thorough' else []), cwd=harness, timeout=3600)
    try:
        os.remove(flows[0])
    except OSError:
        pass
    s = json.loads(out.strip().split('\n')[-1])
    s['samples'] = [dict(kind='c17', dist_keys=sorted(s.get('dist', {}))[:6])]
    return s


PROPS['C17'] = dict(
    lean_targets=['AnonModel.Props.C17', 'AnonModel.Props.GenConstsC17', 'AnonModel.Props.C17Glue'],
    required_theorems=['C17_override_lookup', 'C17_override_row_findable', 'C17_override_distinct', 'C17_override_order_irrelevant', 'C17_prove_list_order_irrelevant', 'C17_present_fails_iff', 'C17_handle_resolution_sources_unchanged', 'C17_optional_stale_rejected', 'C17_optional_absent_iff', 'C17_optional_live_resolves', 'C17_all_wrapped', 'C17_all_out_pointers_guarded', 'C17_all_result_params_checked', 'C17_no_result_functions', 'C17_from_json_template_guarded'],
    families=[dict(name='c17', external='ext_ffi_check')],
    default_dir='exact',
    rule="table of all exported entry points regenerated from src/ffi/** (51 today): theorems by decide. Dynamic: for every error-code entry point, each result pointer null in turn and 9 malformed argument modes (all-empty, unknown / freed / wrong-typed handles incl. handle lists, non-UTF-8 / null strings, null list members, garbage byte buffers, huge counts), each call in a forked child (abort = signal); error slot semantics; ~70 verifications (honest and attack scenarios, both formats, with revocation) decided by the native API and repeated through the C ABI; a complete issue-present-verify flow made through the C ABI and verified by both APIs (incl. a tampered copy); create_schema and seven from_json->get_json round trips byte/JSON-identical",
    trusted_base=TRUSTED_COMMON + ["tools/extract.py (regex/brace scanner) finds every #[no_mangle] extern fn and macro-generated entry point of src/ffi/**", "Python ctypes calling convention for by-value structs {usize,ptr} / {i64,ptr} matches the C ABI of the exported functions"],
    not_exhibited_by_model=["'decisions equal to the native ones' is established by the cross runs only, not by a theorem", "unwinding across the boundary is excluded by catch_error (C17_all_wrapped) assuming std::panic::catch_unwind catches every panic (no abort-on-panic profile, no foreign exceptions)"],
)


def search_C17(lean, workdir, vh):
    """a guard or wrapper disappeared from the table: call every entry point with each result pointer null (the dynamic matrix does exactly that)"""
    s = ext_ffi_check(workdir, 'quick', 1, __import__('vcheck').sh, vh)
    for of in s.get('oracle_failures', []):
        if 'crash' in of.get('what', '') or 'accepted' in of.get('what', ''):
            return of
    return None

def search_C18(lean, workdir, vh):
    """a store function changed: besides the concurrent histories of the c18 family, probe every handle position (required and optional) of real calls with freed / unknown / wrong-typed handles"""
    s = ext_ffi_check(workdir, 'quick', 1, __import__('vcheck').sh, vh)
    for of in s.get('oracle_failures', []):
        if 'handle' in of.get('what', ''):
            return of
    return None

# ops whose cases are self-contained (can be re-evaluated from a replay file by `vh replay`)
UNIT_OPS = {'enc', 'norm_enc', 're', 'id', 'schema_valid', 'credreq_valid', 'q_parse', 'q_print', 'q_names', 'q_validate', 'req_validate', 'q_eval',
            'q_selfattest_ok', 'ivl_merge', 'ivl_override', 'ivl_valid', 'ivl_fold', 'ivl_requested', 'ivl_prover', 'ivl_check_legacy', 'sl_run'}

IDEALCL = ["IdealCL (Model/IdealCL.lean) stands in for anoncreds-clsignatures: a sub-proof verifies only if intact, made from a credential signed by the key of the supplied definition over exactly the schema's attributes, revealing signed values and predicates true of them; the aggregated proof binds nonce, sub-proofs, their order and the presence of each non-revocation part; link-secret responses are equal iff same secret and same blinding; non-revocation parts are silently skipped unless proof part, revocation key, registry and registry key are all present (DESIGN §4, Appendix A). Assumed, not proved; compared with the real crate on every generated scenario, tampered ones included",
           "ghost data of sub-proofs (which credential, intact or not, link-secret session) is filled in by the scenario engine from its knowledge of how each object was built or altered"]
SYS_RULE = " Every scenario is built by the real prover from freshly issued real credentials (6 pooled credential definitions incl. legacy-id and revocable ones, 2 holders, 12 credentials, 2 registry histories), altered as the class says, verified by the real verifier under catch_unwind, abstracted (request, verifier context, presentation + ghost data) and decided by the Lean verifier model; compared in the safety direction (implementation accepts => model accepts; exact agreement is reported as drift=0). Independent oracle per class: must-verify / must-not-verify / no panic. distinct = distinct abstract scenarios; all non-trivial (each reaches the CL verification or a specific check)."

PROPS['C01'] = dict(
    lean_targets=['AnonModel.Props.C01Legacy', 'AnonModel.Props.C01W3C'],
    required_theorems=['C01_legacy_predicates', 'C01_legacy_attributes', 'C01_legacy_cross_request', 'C01_w3c_predicates', 'C01_w3c_attributes', 'C01_w3c_cross_request'],
    families=[dict(name='c01')], default_dir='safety',
    fam_theorem={'c01': 'C01_legacy_predicates / C01_legacy_attributes / C01_w3c_predicates / C01_w3c_attributes over verifyLegacy / verifyW3C'},
    rule="an honest presentation for R0 verified against 19 single-field variations R of R0 (predicate value +1/-1/far/true-but-other, the three other operators, other/absent attribute, removed/added predicate, other/absent attribute name, name->names, added/removed referent, respelled names) for three credential kinds, both formats; 8 rewrites of the prover-controlled referent maps (revealed<->unrevealed, forged revealed entry, dropped / re-typed predicate referent, self-attested instead of revealed, index out of range, duplicate across maps); two-credential presentations with referents re-pointed at the other credential and identifiers swapped." + SYS_RULE,
    trusted_base=TRUSTED_COMMON + IDEALCL,
)
PROPS['C02'] = dict(
    lean_targets=['AnonModel.Props.C02Legacy', 'AnonModel.Props.C02W3C'],
    required_theorems=['C02_legacy_partial', 'C02_full_claim_refuted', 'C02_refuted_no_nrp', 'C02_refuted_strip_regid', 'C02_refuted_unrevealed_interval',
                       'C02_w3c_partial', 'C02_w3c_refuted_no_nrp', 'C02_w3c_refuted_strip_regid', 'C02_w3c_window'],
    families=[dict(name='c02')], default_dir='safety',
    fam_theorem={'c02': 'C02_legacy_partial / C02_w3c_partial (+ _refuted witnesses for F3 F4 F5)'},
    rule="registry history (list0 all valid, list1 two indices revoked, list2 one re-issued) x interval placement (global; local on revealed / unrevealed / group / predicate referent) x holder behaviour (fresh state at a list where valid / revoked / re-issued, state of an earlier list, no state) x post-hoc edits (rev_reg_id and timestamp stripped, timestamp of a list at which the credential was valid, unlisted timestamp, timestamp stripped, revealed->unrevealed), both formats." + SYS_RULE + " Oracle: a credential revoked at the list the presentation names (or naming none) must not be accepted; acceptances are classified by (format, non-revocation part present?, how the interval check was passed) and matched against known_findings.json (F3 F4 F5 = the three no-nrp classes per format); any other class is a violation",
    trusted_base=TRUSTED_COMMON + IDEALCL + SL_BASE,
    assumptions=["the full property is false of the code (F3 F4 F5: the verifier never demands the non-revocation part): _partial + _refuted theorems, known findings"],
)
PROPS['C03'] = dict(
    lean_targets=['AnonModel.Props.C03Legacy', 'AnonModel.Props.C03W3C', 'AnonModel.Props.C03Env'],
    required_theorems=['C03_legacy_revealed', 'C03_legacy_group', 'C03_legacy_altered_rejected', 'C03_w3c_issuer', 'C03_w3c_subject', 'C03_w3c_altered_rejected', 'C03_w3c_added_rejected',
                       'C03_w3c_envelope_refused', 'C03_w3c_accepted_envelope', 'C03_w3c_envelope_only_validity'],
    families=[dict(name='c03')], default_dir='safety',
    fam_theorem={'c03': 'C03_legacy_revealed / C03_legacy_group / C03_w3c_subject / C03_w3c_issuer'},
    rule="honest presentation + post-hoc edits: legacy — encoded changed / perturbed / taken from another attribute, raw only (not claimed: judged by the model), zero-padded and signed respellings of a numeric encoding, group member changed / swapped / added / removed / renamed, duplicate requested name with an uncovered member added (F20), consistent forgery incl. the sub-proof's own revealed value; W3C — subject value changed / added (known and unknown attribute) / number as string / zero-padded / swapped / removed / key respelled / boolean marker added, issuer, verificationMethod, proof-value cred_def_id and schema_id, proof purpose; two-credential: subjects swapped between credentials, credentials reordered." + SYS_RULE,
    trusted_base=TRUSTED_COMMON + IDEALCL,
)
PROPS['C05'] = dict(
    lean_targets=['AnonModel.Props.C05Legacy', 'AnonModel.Props.C05W3C'],
    required_theorems=['C05_legacy', 'C05_other_nonce_rejected', 'C05_two_link_secrets_rejected', 'C05_altered_subproof_rejected', 'C05_altered_aggregate_rejected',
                       'C05_wrong_definition_rejected', 'C05_spliced_rejected', 'C05_w3c', 'C05_w3c_two_link_secrets_rejected'],
    families=[dict(name='c05')], default_dir='safety',
    fam_theorem={'c05': 'C05_legacy / C05_w3c and their rejection corollaries'},
    rule="two-credential honest presentation x {other nonce (+1, unrelated, same value with leading zero), another credential definition under the same id (same and other schema), sub-proofs swapped (alone and with identifiers/indices following), sub-proof / aggregated proof spliced in from a second presentation of the same credentials, one decimal digit changed in a numeric field of a sub-proof or of the aggregated proof (10 random fields in quick, all in thorough) and a byte of c_list, the honest prover API with another link secret, an adversarial prover built on the public CL proof builder combining credentials of two holders with and without registering the common attribute}; W3C: nonce, swapped definition, perturbed sub-proof numbers inside the proof value." + SYS_RULE,
    trusted_base=TRUSTED_COMMON + IDEALCL,
)
PROPS['C06'] = dict(
    lean_targets=['AnonModel.Props.C06Eval', 'AnonModel.Props.C06Legacy', 'AnonModel.Props.C06W3C'],
    required_theorems=['C06_eval_iff_sat', 'C06_leaf_spec', 'C06_unsupported_false', 'C06_legacy_attr_binding', 'C06_legacy_pred_binding', 'C06_legacy_no_self_attest',
                       'C06_legacy_tags_mixed_rejected', 'C06_raw_unbound_refuted', 'C06_w3c_attr', 'C06_w3c_pred', 'C06_w3c_values_authenticated'],
    families=[dict(name='c06u'), dict(name='c06')], default_dir='safety', fam_dir={'c06': 'safety', 'c06.eval': 'exact'},
    spec_is_model=['c06.eval'],
    fam_theorem={'c06.eval': 'C06_eval_iff_sat / C06_leaf_spec (eval = declarative Boolean semantics)', 'c06': 'C06_legacy_attr_binding / C06_legacy_pred_binding / C06_w3c_attr / C06_w3c_pred'},
    rule="unit level (hook on process_operator): random restriction ASTs to depth 3 over 28 tag names (8 metadata tags, attr::..::value/marker for present / unrevealed / absent attributes and malformed variants, junk and $-prefixed tags) x 14 values hitting and missing every metadata field, all operators incl. the unsupported ones, against 5 credential filters (legacy / URI issuers, wrong-length DIDs) x value maps — compared exactly. System level: one fixed valid presentation per round (one- and two-credential, both formats) while only the restriction of one referent (single, unrevealed, group, predicate) varies over 12 templates true and 12 templates false of the serving credential; restriction of the other credential; duplicate referent (F10); restricted self-attested; value restriction met by a forged raw (F15, known finding)." + SYS_RULE,
    trusted_base=TRUSTED_COMMON + IDEALCL,
    assumptions=["interpretation fixed in DESIGN §6 C06: a value/marker leaf on an attribute the holder left unrevealed is satisfied; a marker on a revealed attribute compares the value (code behaviour, part of C06_leaf_spec)", "F15 (legacy value restrictions are evaluated on the unauthenticated raw) is a known finding: C06_raw_unbound_refuted"],
)
PROPS['C12'] = dict(
    lean_targets=['AnonModel.Props.C12Legacy', 'AnonModel.Props.C12W3C', 'AnonModel.Props.C12Sites'],
    required_theorems=['C12_legacy_no_panic', 'C12_w3c_no_panic', 'C12_all_sites_registered', 'C12_no_stale_registration'],
    families=[dict(name='c12')], default_dir='safety',
    fam_theorem={'c12': 'C12_legacy_no_panic / C12_w3c_no_panic (the models never produce panic) + C12_all_sites_registered (regenerated table of panicking expressions)'},
    rule="structure-aware mutations (1-3 per case, 13 kinds: delete / duplicate / re-index / cross-wire referents between the five maps, lengthen / shorten identifiers and proofs, edit identifiers and revocation fields, edit group values, swap proofs) of honest legacy presentations from random request shapes, optionally with a request mutation that steers into restriction / interval branches; W3C: drop / duplicate credentials, swap proof values, wrong purpose, signature proof instead of presentation proof, empty subject, no credentials; each verified under catch_unwind and decided by the model (safety direction; any panic is a violation). Byte level (test, not theorem — the serde/CL parsers are external code): 20 000 (quick) / 400 000 (thorough) mutated and random byte strings derived from one valid document per object type (16 types) fed to serde_json::from_slice of that type and of one other type; a panic is a violation unless its location is the known finding F18 (amcl big-number parser)",
    trusted_base=TRUSTED_COMMON + IDEALCL + ["tools/extract.py finds every unwrap / expect / unreachable! / panic! / index expression in the non-test code of the anchored files"],
    not_exhibited_by_model=["the byte-level parsers (serde derive, serde_json, rmp-serde, CL big-number and curve-point parsers) are external code and not modelled: fuzz stream only", "non-termination: the models are total by Lean's termination check; the Rust loops they mirror are bounded iterations over finite collections (by reading)"],
)


def search_C12(lean, workdir, vh):
    """a panicking expression appeared that is not registered: hammer the verifier with the mutation stream (thorough budget)"""
    import json, vcheck
    rc, out, _ = vcheck.sh([vh, 'c12', '--seed', '7', '--tier', 'thorough', '--out', '/dev/null'], timeout=3000)
    try:
        s = json.loads(out.strip().split('\n')[-1])
    except Exception:
        return None
    for of in s.get('oracle_failures', []):
        if 'panick' in of.get('what', '') and 'amcl' not in json.dumps(of.get('case', {}).get('sig', '')):
            return of
    return None

PROPS['C08']['families'] = [dict(name='c08'), dict(name='c08s')]
PROPS['C08']['fam_dir'] = {'c08': 'exact', 'c08s': 'safety'}
PROPS['C08']['rule'] += ". System level (c08s): an unrevoked credential with a holder state for the list of timestamp 20, interval placed globally / on a revealed, unrevealed, group or predicate referent, six windows (inside, inside with an open bound, before, after, before with open upper bound) x {as built, verifier override of the requested lower bound, timestamp stripped, timestamp of no supplied list}, both formats; non-revocable credential with intervals everywhere; real prover + verifier, model in the safety direction; oracle: inside => accepted, outside / no timestamp / no list => rejected (F5 class known)"
PROPS['C08']['trusted_base'] = TRUSTED_COMMON + IDEALCL

PROPS['C04'] = dict(
    lean_targets=['AnonModel.Props.C04'],
    required_theorems=['C04_legacy', 'C04_w3c', 'C04_check_revealedValuesOk', 'C04_check_restrictions', 'C04_check_subCtxs', 'C04_check_cl', 'C04_check_w3c_attrs', 'C04_check_w3c_subjects'],
    families=[dict(name='c04')], default_dir='verdict', fam_dir={'c04': 'verdict'},
    spec_is_model=[],
    fam_theorem={'c04': 'C04_legacy / C04_w3c : meetsDemands -> createPresentation = some p -> verify = ok true (prover model exact vs real prover; meetsDemands evaluated on every generated honest flow)'},
    rule="random worlds over the cast (6 definitions incl. case/space-variant attribute names, legacy ids, revocable ones; 12 credentials; registry histories): 1-3 credentials per presentation, each attribute in a random role (revealed / unrevealed single with respelled names, group revealed or not, one of eight satisfied predicates, unused), satisfied restrictions from 16 templates (incl. legacy list form, $in, $neq, $not, value/marker leaves), global and local intervals with holder states for a list at which the credential is valid, self-attested referents (legacy), unused credentials in random positions; legacy and W3C; every third selection is broken in one of seven ways the prover must refuse. Compared: (a) real prover output vs prover model output, exactly (requested_proof maps, identifiers, every sub-proof's revealed values / predicates / non-revocation part presence, subject of derived W3C credentials); (b) real verifier verdict vs verifier model verdict; (c) the hypotheses of the theorem (meetsDemands / meetsDemandsW3C) evaluated by the model on every honest flow must be true; oracle: honest flow verifies",
    trusted_base=TRUSTED_COMMON + IDEALCL,
    assumptions=["F19 (W3C value restriction spelled as the request spells the attribute) is a known finding; the honest generator uses the spelling each format understands and a dedicated class reproduces the finding"],
)
PROPS['C07'] = dict(
    lean_targets=['AnonModel.Props.C07'],
    required_theorems=['C07_legacy', 'C07_legacy_unrevealed_hidden', 'C07_legacy_predicate_hidden', 'C07_legacy_unrequested_hidden', 'C07_w3c', 'C07_w3c_unrevealed_group_hidden'],
    families=[dict(name='c07'), dict(name='c04')], default_dir='exact', fam_dir={'c04': 'verdict', 'c07': 'exact'},
    fam_theorem={'c07': 'C07_legacy / C07_w3c over createPresentation / createPresentationW3C', 'c04': 'prover model = real prover (exact)'},
    rule="scan (model independent): a credential with long sentinel values; 80 (quick) / 1500 (thorough) random selections over its four attributes (revealed single, unrevealed single, member of a revealed or unrevealed group, predicate, not requested; respelled names), both formats; the serialised presentation — JSON text plus every base64url-msgpack proof value decoded — is searched for the raw and the encoded string of every attribute not marked revealed, for the link secret (decimal), for every number of the credential signature, and (revocable flow) for the holder's and the issuer's witness; revealed values must be present. Plus the prover-model correspondence of the c04 family (exact outputs)",
    trusted_base=TRUSTED_COMMON + IDEALCL + ["'the proof leaks nothing' at the level of the numbers of the CL proof is an assumption about the zero-knowledge property of the CL scheme; the scan only finds verbatim occurrences"],
)
PROPS['C18']['spec_is_model'] = ['c18']

PROPS['C11'] = dict(
    lean_targets=['AnonModel.Props.C11', 'AnonModel.Props.C11W3C', 'AnonModel.Props.C11Doc'],
    required_theorems=['C11_w3c_process_stored', 'C11_w3c_process_stored_refused', 'C11_w3c_issue_ok_iff', 'C11_w3c_issue_boolean_refused', 'C11_w3c_process_ok_iff', 'C11_w3c_process_boolean_rejected', 'C11_w3c_honest_roundtrip',
                       'C11_w3c_tamper_rejected_other_holder', 'C11_issue_ok_iff', 'C11_issue_replayed_request_refused', 'C11_issue_foreign_request_refused', 'C11_issue_wrong_attributes_refused',
                       'C11_issue_case_variants_accepted', 'C11_request_ok_iff', 'C11_process_ok_iff', 'C11_honest_roundtrip', 'C11_tamper_rejected_changed_value',
                       'C11_tamper_rejected_other_holder', 'C11_processed_is_presentable'],
    families=[dict(name='c11')], default_dir='exact', spec_is_model=['c11'],
    fam_theorem={'c11': 'C11_issue_ok_iff / C11_process_ok_iff / C11_w3c_issue_ok_iff / C11_w3c_process_ok_iff over the issuance model'},
    rule="for three definitions (URI ids, case/space-variant attribute names, legacy ids with prover DID) and two holders: issuer side — honest (offer, request) pairing, a request replayed under a fresh offer, a request made for another definition, blinded secret altered, attribute set missing / extra / renamed / respelled; holder side — honest processing, other link secret, metadata of another request, other definition, encoded value changed, raw only changed, two values swapped, key respelled, value removed, six perturbed numbers of signature and correctness proof, cred_def_id string changed; real issuer/prover decisions compared exactly with the model (ghost: which key / holder / blinding / nonce each object was really built with); oracle: tampered or foreign => refused, honest => accepted. The same in W3C form (w3c::issuer::create_credential / w3c::prover::process_credential): subjects mixing strings and numbers, extra entries of every JSON type incl. boolean true / false, a schema attribute given as boolean, entries added / removed / changed / replaced by true / swapped / respelled / number given as string after issuance",
    trusted_base=TRUSTED_COMMON + ["IdealCL issuance (DESIGN §4 v): blinded-secret and signature correctness proofs verify iff built for that key / nonce / values / blinding — assumed, validated on every generated pairing and alteration"],
)
PROPS['C14'] = dict(
    lean_targets=['AnonModel.Props.C14', 'AnonModel.Props.C14Doc', 'AnonModel.Props.C14Env'],
    required_theorems=['C14_to_from', 'C14_to_from_raw', 'C14_from_to', 'C14_from_to_from', 'C14_to_refuses_iff', 'C14_from_refuses_iff', 'C14_refuses_boolean_entry',
                       'C14_doc_reserialise', 'C14_doc_find', 'C14_doc_signature_iff', 'C14_doc_spellings', 'C14_doc_new_credential_survives', 'C14_doc_derived_credential_survives',
                       'C14_doc_first_only', 'C14_doc_foreign_only', 'C14_doc_conversion_of_stored', 'C14_doc_conversion_refused',
                       'C14_env_library_version', 'C14_env_library_valid', 'C14_env_library_presentation_valid', 'C14_env_valid_iff', 'C14_env_unknown_first_refused', 'C14_env_first_decides_version',
                       'C14_env_tail_order_irrelevant', 'C14_env_meta_valid', 'C14_env_conversion_refused_iff', 'C14_env_stored_library_credential'],
    families=[dict(name='c14')], default_dir='exact', spec_is_model=['c14'],
    fam_theorem={'c14': 'C14_to_from_computed / C14_from_to (conversion functions) and the refusal characterisations',
                 'c14.envelope': 'C14_env_valid_iff / C14_env_conversion_refused_iff / C14_env_library_valid (which @context / type / issuanceDate make a well-formed document; version read from the first context)',
                 'c14.proof_doc': 'C14_doc_find / C14_doc_signature_iff / C14_doc_reserialise (which proof of the stored document the getters find, in every spelling of the proof member)'},
    rule="the envelope of the stored document (op w3c_envelope, Model/Envelope): ~550 (quick) / ~3,250 (thorough) credential and presentation documents whose @context list, type set and issuanceDate are edited: the two library forms, every permutation, each member dropped, each member replaced by 8 near-miss URIs (trailing slash, http, case, fragment, other version) and 9 non-URI values (vocabulary without '#', with an extra key, {}, string, number, null, nested array, true, space-prefixed), type sets (missing, case, trailing space, empty, repeated), and a mostly-valid random stream (library form with shuffled tail and up to two inserted entries; one in three from scratch): validity (credential_from_w3c / W3C verify_presentation of an honest presentation: true or error, never false or crash) and the version read; the proof member of the stored document (op proof_doc, Model/ProofDoc): ~400 (quick) / ~3,100 (thorough) documents whose proof member is a single value or an array of 0-4 entries drawn from real AnonCreds proofs of the three kinds (credential signature, credential presentation, presentation) under both purposes, 15 other values (foreign proof, {}, number, string, null, true, and nine near misses of an AnonCreds proof: other / missing cryptosuite, missing or mistyped method, bad base64, unknown msgpack tag, missing multibase header, other type, unknown purpose) and nested arrays: the signature / presentation proof found (identified by value), the document written back (canonical), and conversion possible iff a signature proof is found; every converted credential also as the document a holder stores, in four spellings of the proof member (as emitted, array of one, single object, beside a foreign proof), converted back and compared field by field (curve-point excess counters stripped); a W3C-issued credential presented in both formats as live object and as stored document; real credentials (revocable or not, data model 1.1 and 2.0) with value pools: text, numbers, zero-padded and signed numbers, both 32-bit boundaries and their out-of-range neighbours, unicode digits, empty string, space-prefixed, exponent form, emoji, random padded numbers: legacy -> W3C -> legacy -> W3C; subject and returned values compared exactly with the model; oracles on the real objects: schema / definition / registry ids, signature, correctness proof, rev_reg, witness identical after the round trip, every encoded value identical, second trip identical; W3C-side subjects (number as string, boundaries, boolean marker, empty string); refusals: missing AnonCreds context, missing W3C type, v1.1 without issuanceDate, presentation proof instead of signature proof, registry id without witness, empty values, invalid schema id; a credential issued in W3C form, converted, presented in legacy form and verified",
    trusted_base=TRUSTED_COMMON + ["identifiers, signature material and revocation data are copied field by field by the Rust code and are outside the model: compared on real objects by the harness oracles only",
                                   "which strings are URIs (URI pattern) and which context strings equal the three named ones is decided by the Rust code: Model/Envelope takes the classification as given and the correspondence checks it on 8 near-miss URIs and 9 other values",
                                   "which JSON objects deserialise as an AnonCreds data-integrity proof is decided by serde-derived code: Model/ProofDoc takes the classification as given (Scalar.anon / Scalar.other) and the correspondence checks it on real proofs and nine near misses"],
)
PROPS['C15'] = dict(
    lean_targets=['AnonModel.Props.C15', 'AnonModel.Props.C15Req', 'AnonModel.Props.C15Bn', 'AnonModel.Props.C15B64', 'AnonModel.Props.C15Pv', 'AnonModel.Props.C15Mp', 'AnonModel.Props.GenConstsC15'],
    required_theorems=['C15_base_header_unchanged', 'C15_codec_sources_unchanged', 'C15_mp_decode_encode', 'C15_mp_prefix_free', 'C15_mp_injective', 'C15_mp_sequence', 'C15_mp_trailing_ignored', 'C15_mp_reader_accepts_wide_forms', 'C15_mp_struct_members', 'C15_mp_reader_output_wf', 'C15_mp_reread', 'C15_mp_bound_irrelevant', 'C15_mp_decode_complete', 'C15_mp_reads_prefix', 'C15_mp_count_bounded', 'C15_pv_typed', 'C15_pv_typed_text', 'C15_pv_chain', 'C15_pv_chain_injective', 'C15_pv_untag_shape', 'C15_pv_de_ser', 'C15_pv_ser_de', 'C15_pv_extra_refused', 'C15_pv_kind_mismatch_refused', 'C15_b64_decode_encode', 'C15_b64_encode_decode', 'C15_b64_decode_injective', 'C15_b64_rejects_foreign_symbol', 'C15_b64_length', 'C15_envelope_decode_encode', 'C15_envelope_encode_decode', 'C15_envelope_header_required', 'C15_bn_binary_hop', 'C15_bn_binary_hop_partial', 'C15_bn_binary_full_claim_refuted', 'C15_req_de_ser', 'C15_req_ser_de', 'C15_req_ser_de_any', 'C15_req_empty_interval_kept', 'C15_req_restrictions_kept', 'C15_req_missing_vs_null', 'C15_req_ver',
                       'C15_nonce_ser_de', 'C15_nonce_string_kept', 'C15_nonce_rejects', 'C15_revlist_de_ser', 'C15_revlist_ser_de', 'C15_ver_roundtrip',
                       'C15_missing_ver_is_v1', 'C15_attrval_de_ser', 'C15_attrval_ser_de', 'C15_attrval_rejects'],
    families=[dict(name='c15')], default_dir='exact', spec_is_model=['c15'],
    fam_theorem={'c15': 'C15_nonce_* / C15_revlist_* / C15_ver_* / C15_attrval_* / C15_req_* (hand-written codecs = model; reqDe / reqSer is the whole presentation-request codec)',
                 'c15.mp': 'C15_mp_decode_encode (what the msgpack writer writes is read back, any nesting, trailing bytes ignored), C15_mp_prefix_free / C15_mp_injective, C15_pv_chain (text -> base64url -> msgpack -> tagged sequence returns the kind and payload written)',
                 'c15.b64': 'C15_b64_decode_encode / C15_b64_encode_decode (base64url without padding: lossless, one accepted text per byte string), C15_envelope_* (multibase header), C15_pv_de_ser / C15_pv_ser_de (tagged proof value: only the written form is read)'},
    rule="the msgpack layer (Model/Msgpack = rmp / rmp-serde as driven by utils::msg_pack through the guarded hooks msgpack_encode / msgpack_decode and a self-describing value type; ops mp_encode, mp_decode, mp_struct, pv_read, pv_typed): every assembled tagged sequence of the codec_pv stream also as a text through all four layers of the model (pv_typed: elements classified from the bytes — integer within i32, map with the required members of payload structure k, anything else — then the visitor model), compared exactly with the kind the library accepts or its refusal, every class; derived structures (a probe structure with text, unsigned / signed numbers, Option members kept and skipped, a list, a three-shape enum, a newtype, a tuple; 40 quick / 200 thorough instances) written by the library and as `structMV` of their member list by the model, every member looked up again after the trip; ~500 (quick) / ~4,100 (thorough) trees written by the library and by the model (34 integer boundaries of every format, string / byte-string / sequence / map lengths 0 1 2 15 16 17 31 32 33 255 256 257 65535 65536, atoms, nesting to depth 60, random trees of depth <= 4 with text keys and now and then other keys) compared byte for byte; ~7,500 (quick) byte strings read by the library's reader and by the model compared as trees: everything written, every value in every longer form the reader accepts (integers in all wider formats, lengths in wider headers), truncations, trailing bytes, one byte replaced (mostly markers and lengths), each of the 256 leading bytes alone / followed by 7 fills / inside a sequence (floats, extension types and 0xc1 refused by both), invalid UTF-8 behind string headers (handed over as bytes), 2,000 random short strings; the bytes of every real proof value of the cast and of honest presentations: read by model and library as the same tree, and that tree written back is the same bytes (real payloads lie in the modelled fragment, in the writer's form: oracle on the real code and op mp_encode); whole proof-value texts (op pv_read: header, base64url, msgpack, tagged sequence): real ones and the ~440 assembled sequences of the codec_pv stream, exact whenever the library accepts (kind and payload tree) or refuses for a reason visible below the typed layer; the base64url layer of every proof value (ops b64_encode / b64_decode through the guarded hooks, Model/Base64): byte strings of every length 0..48 (3 / 12 each), constant runs, 30 / 300 longer ones; texts: every string of length <= 2 over the 64 symbols plus 18 intruders (= + / space . newline tab , : ; @ [ ` { NUL DEL and two non-ASCII characters), the last symbol of valid texts replaced by each of the 64 symbols (unused low bits), padding appended, an intruder inserted, one symbol more / less, proof values of real credentials: ~14,000 (quick) texts compared exactly with the model, plus the two oracles on the real code (read back what was written; an accepted text is the text written for its bytes); the tagged proof value (op codec_pv, Model/WirePv: the hand-written visitor of DataIntegrityProofValue): ~440 (quick) msgpack sequences assembled from the real payloads of the three kinds, 12 tags (-2..5, 127, 128, i32 bounds) in narrow and wide integer formats, 9 other values (nil, string, true, 64-bit integers, float, empty map / array, u32 beyond i32), with extra elements, wrong order, missing members and a mostly-valid random stream: the kind accepted; the multibase layer (op pv_decode): real proof objects with the proofValue text respelled so that the bytes stay the same whenever the text is acceptable (header missing / other, padding or white space appended, every setting of the unused low bits of the last symbol); revealed encodings of five value pairs (negative, zero, boundaries, byte-boundary magnitudes) read from a W3C presentation before and after a hop against the model of the binary big-number codec (op bn_hop: the magnitude survives, the sign does not — F22; legacy control verifies); the whole PresentationRequest codec (op codec_req: de then ser, as documents) on 1,200 (quick) / 20,000 (thorough) documents assembled from member pools holding every boundary form (intervals {} / one bound / both / null / array form / wrong types / out of u64; restrictions in every operator and degenerate form incl. legacy lists with null tags; names / p_type / p_value / nonce / ver forms; missing, null and unknown members; array-form structs), about half of them valid; typed-equality hops (PresentationRequest, W3CCredential, W3CPresentation: PartialEq; status lists, offers, requests, metadata, registry definitions, revocation states: printed form) and status lists with timestamps absent / 0 / 1 / u64::MAX. Hand-written codecs compared exactly with the model on ~2000 JSON inputs each way (Nonce from strings with leading zeros / numbers / byte arrays incl. truncation and trailing junk / wrong types; revocation list bits incl. other numbers, floats, booleans; request version present / absent / unknown / mistyped; untagged attribute value over the i32 boundaries, floats, big integers, null, arrays). Hop stream (oracle, all 17 object types): every complete flow (legacy / W3C x plain / revocable) is run twice from the same PRNG state, once directly and once with a serialise->deserialise hop at every hand-over point (schema, definition and its private and correctness parts, offer, request and metadata, credential before and after processing, registry definition and private part, status list, revocation state, nonce, presentation request, presentation): outcomes must agree; ser(de(ser x)) = ser x as canonical documents (JSON values, msgpack envelopes decoded); every cast object and 24 random honest presentations hopped and re-verified",
    trusted_base=TRUSTED_COMMON + ["serde derive, serde_json and the CL crate's Serialize / Deserialize impls (which members a structure has, a big number as a list of bytes) are external code outside the model (the property is partial in that sense): exercised by the hop stream only; the msgpack byte format of rmp / rmp-serde is modelled (Model/Msgpack: nil, booleans, integers, strings, byte strings, sequences, maps; floats and extension types are outside the fragment and refused by the harness's value type too; the reader's nesting limit of 1024 is not modelled) and compared with the library's encode / decode through the guarded hooks msgpack_encode / msgpack_decode; the base64 crate's URL_SAFE_NO_PAD engine is modelled (Model/Base64) and compared with it through the guarded hooks base64_encode / base64_decode"],
    not_exhibited_by_model=["derive-generated and CL-crate codecs (which tree a structure is written as): hop stream (test) only"],
)

"""Per-property configuration of bin/check (what to build, what to run, how to compare)."""

TRUSTED_COMMON = [
    "Lean 4.33.0 kernel (leanchecker re-check in the thorough tier); axioms allowed: propext, Classical.choice, Quot.sound",
    "hand-written Lean model of the service code (lean/AnonModel/Model); tied to /repo by the differential correspondence run of this check",
    "Rust harness (generators, canonicalisation, oracles) and bin/check comparison logic",
]
ASSUMPTIONS_COMMON = [
    "no theorem is about Rust text: every theorem is about the Lean model; the correspondence run samples the model/code relation",
    "external crates (anoncreds-clsignatures, serde, serde_json, regex, sha2, bs58, rmp-serde, bitvec) behave as documented",
]

PROPS = {}

PROPS['C13'] = dict(
    lean_targets=['AnonModel.Props.C13'],
    required_theorems=['C13_parseI32_spec', 'C13_encode_int', 'C13_encode_sha', 'C13_canonical',
                       'C13_encode_idem_on_ints', 'C13_natRepr_injective', 'C13_intToDec_injective',
                       'C13_normalize_encode', 'C13_normalize_idem'],
    families=[dict(name='c13')],
    default_dir='exact',
    spec_is_model=['c13'],
    fam_theorem={'c13': 'C13_encode_int / C13_encode_sha (encode = spec) via C13_parseI32_spec'},
    rule="strings: exhaustive [+-]?0{0,3}digits within +-3 (quick) / +-40 (thorough) of 0, +-2^31, +-2^31*10, 2^32, 2^63, u64::MAX; all strings of length <= 2 over a 40-symbol alphabet (signs, ASCII and non-ASCII digits, whitespace, controls); decorated numbers; random digit runs; random unicode; long strings. Each string is encoded at every call site (function hook, MakeCredentialValues::add_raw, RawCredentialValues::encode, CredentialSubject::encode as string and as number, C ABI helper) and compared exactly with the Lean model. distinct = distinct (site,string); all are non-trivial (each exercises the parse/hash decision)",
    trusted_base=TRUSTED_COMMON + [
        "SHA-256 is a Lean definition (Model/Sha256.lean); that the sha2 crate computes it is established by this correspondence run only",
        "Rust str::parse::<i32> is modelled by hand from core::num (sign handling, checked mul/add/sub digit loop)",
    ],
    assumptions=["W3C issuance and the W3C verifier's re-encoding reach encode_credential_attribute through CredentialSubject::encode / the function itself, which are the sites exercised; they are additionally exercised end-to-end by the C04/C03 flows"],
)

NOT_CLAIMED = {}

PROPS['C20'] = dict(
    lean_targets=['AnonModel.Props.C20'],
    required_theorems=['C20_uri_iff', 'C20_legacyDid_iff', 'C20_legacySchema_iff', 'C20_legacyCredDef_iff', 'C20_legacyRevReg_iff',
                       'C20_id_valid_iff', 'C20_schema_valid_iff', 'C20_credreq_valid_iff'],
    families=[dict(name='c20')],
    default_dir='exact',
    spec_is_model=['c20'],
    fam_theorem={'c20': 'C20_*_iff (recogniser = declarative grammar), C20_id_valid_iff, C20_schema_valid_iff, C20_credreq_valid_iff'},
    rule="strings generated from each of the five grammars (URI, legacy DID / schema / cred-def / rev-reg id) with valid-biased and free components, boundary lengths 20-23, forbidden base58 letters, wrong type markers, empty components, embedded/trailing newlines, non-ASCII; single and double mutations of each; every string is fed to the five regexes (hook) and to the four validating constructors *Id::new. Schemas: 0,1,2,3,124,125,126,127,200 names, duplicates, odd issuer ids, random short lists. Credential requests: all entropy x prover-DID x cred-def-id kind combinations (deserialise + validate). distinct = distinct inputs; all non-trivial (every case decides membership)",
    trusted_base=TRUSTED_COMMON + ["Rust regex crate semantics (anchors, '.', negated classes) as transcribed in Model/Ident.lean; validated by the exact correspondence on ~10^5 strings per run"],
    assumptions=["'every object the issuer API returns carries identifiers that pass validation' is claimed for ids that entered through validating constructors (new/try_from/C ABI); new_unchecked, the pub tuple field and Deserialize bypass validation by design of the Rust API and are outside the claim (DESIGN §6 C20)"],
)

PROPS['C08'] = dict(
    lean_targets=['AnonModel.Props.C08'],
    required_theorems=['C08_merge_comm', 'C08_merge_assoc', 'C08_valid_merge', 'C08_valid_foldMerge', 'C08_fold_perm', 'C08_open_bounds',
                       'C08_override_only_from', 'C08_override_keyed', 'C08_legacy_exact', 'C08_w3c_exact', 'C08_accept_legacy_partial',
                       'C08_reject_legacy_partial', 'C08_accept_w3c', 'C08_nonrevocable_ignores'],
    families=[dict(name='c08')],
    default_dir='exact',
    spec_is_model=['c08'],
    fam_theorem={'c08': 'C08_legacy_exact / C08_w3c_exact / C08_demand_spec / C08_override_keyed'},
    rule="exhaustive grid {absent,10,20,30}^2 for every interval: merge (256), is_valid at 14 timestamps incl. 0 and 2^64-1, override maps (5), folds of up to three optional locals through get_requested_attributes (HashSet order), get_requested_non_revoked_interval over registry id x local x global x 7 override maps; check_non_revoked_interval and the prover-side get_non_revoked_interval over revocable x attrs x preds x global x registry id x override x 13 timestamps (sampled 40k in quick, exhaustive in thorough); compared exactly with the Lean model",
    trusted_base=TRUSTED_COMMON,
    assumptions=["full 'accept'/'reject'/'needs timestamp' statements are false of the code for intervals on unrevealed referents (F5) and for identifiers without rev_reg_id (F4): delivered as _partial + _refuted theorems and recorded as known findings under C02/C08 (DESIGN §7)"],
)

PROPS['C16'] = dict(
    lean_targets=['AnonModel.Props.C16'],
    required_theorems=['C16_parse_print_parse', 'C16_parse_ok_iff_wellformed', 'C16_legacy_array', 'C16_legacy_meaning', 'C16_empty_forms',
                       'C16_empty_is_unrestricted', 'C16_validate_v1', 'C16_validate_v2', 'C16_reject_multikey_object', 'C16_reject_unknown_operator'],
    families=[dict(name='c16')],
    default_dir='exact',
    spec_is_model=['c16'],
    fam_theorem={'c16': 'C16_parse_print_parse, C16_parse_ok_iff_wellformed, C16_legacy_array, C16_validate_v1/v2 (model = spec); c06.eval: C06_eval_iff_sat'},
    rule="JSON values built from the WQL operator vocabulary, 28 tag names (metadata, attr::..::value/marker variants, junk, $-prefixed), mistyped operands (null, number, bool, arrays, nested arrays, objects), multi-key operator objects, legacy list-of-filters with null entries and empty objects, random nesting depth 0-3: parsed by serde (alone and inside a PresentationRequest), compared with the model's parse; random ASTs (incl. ones outside the parser's image) printed, their tag names collected, validated for request versions 1 and 2, whole-request structural validation; is_self_attested; evaluation of random ASTs against 5 filters x value maps (c06.eval). Independent oracle on every parsed value: parse(print(parse j)) = parse j on the implementation. distinct = distinct inputs",
    trusted_base=TRUSTED_COMMON + ["serde_json presents objects as sorted unique-key maps (no preserve_order feature in Cargo.lock): the model parses association lists in the order given, the driver sorts keys"],
)

SL_BASE = ["IdealCL accumulator abstraction (DESIGN §4 iv): an accumulator / witness is its exponent-multiplicity vector over registry indices; distinct vectors are distinct group elements; a non-revocation proof for index k with witness w verifies against A iff A_k = 1 and w = A off k. Validated on every run against the real crate: accumulators compared as equivalence patterns of affine bytes, witness validity by building and verifying real presentations"]

PROPS['C09'] = dict(
    lean_targets=['AnonModel.Props.C09'],
    required_theorems=['C09_bits_spec', 'C09_acc_invariant', 'C09_acc_path_independent', 'C09_update_never_errs', 'C09_noop_requests_ignored',
                       'C09_timestamp_only_if_supplied', 'C09_ts_only_keeps_bits_acc', 'C09_issued_credential_embeds', 'C09_length_preserved'],
    families=[dict(name='c09')],
    default_dir='exact',
    spec_is_model=['c09'],
    fam_theorem={'c09': 'C09_bits_spec (bits = fold of the declarative per-index rule), C09_acc_invariant / C09_acc_path_independent (accumulator pattern)'},
    rule="update histories on real registries of size 1-6 (real CL accumulators): 0-4 updates (every tenth run 5-24), issued/revoked sets drawn with nulls, empty sets, overlaps, repetitions, out-of-range indices (L, L+1.., 1000), timestamp supplied or not, timestamp-only updates, both initial modes, a JSON round trip of the list on every other step; compared exactly: bits and timestamp of every state, and the equivalence pattern of the accumulators (first state with an equal accumulator, affine bytes, infinity canonicalised). Independent oracles: update never modifies the list it starts from; an issued credential embeds the accumulator of the matching issue update (c10 family). distinct = distinct runs; non-trivial: all (each has at least the created list)",
    trusted_base=TRUSTED_COMMON + SL_BASE,
)

PROPS['C10'] = dict(
    lean_targets=['AnonModel.Props.C10'],
    required_theorems=['C10_issuer_witness_valid', 'C10_update_preserves', 'C10_valid_unique', 'C10_revoked_no_witness', 'C10_earlier_lists_keep_verifying',
                       'C10_scratch_valid_partial', 'C10_scratch_refuted_on_demand', 'C10_scratch_refuted_pos0', 'C10_issuer_witness_updated_valid'],
    families=[dict(name='c10')],
    default_dir='exact',
    spec_is_model=['c10'],
    fam_theorem={'c10': 'C10_issuer_witness_valid, C10_update_preserves, C10_revoked_no_witness, C10_scratch_valid_iff_by_default (model = spec for each derivation)'},
    rule="registry runs (size 2-6, both modes, 1-4 updates) with 3-6 derivation queries each: from scratch at a state, incrementally from an earlier derived state (older->newer and newer->older), issuer witness of a credential issued against a state and its incremental update; indices incl. 0, L, L+1 (error paths). For each query: did the derivation succeed, does a real presentation built with the derived state verify against the list it is for (real prover + verifier), equivalence pattern of the witnesses (affine bytes), which state's accumulator the issued credential embeds; compared exactly with the model. Independent oracles: non-revoked index + successful derivation => verifies; revoked index => never verifies",
    trusted_base=TRUSTED_COMMON + SL_BASE,
    assumptions=["the property is false of the code for from-scratch states on issuance-on-demand registries and while position 0 is revoked (F12): C10_scratch_* _partial/_refuted theorems; recorded in known_findings.json (F12a, F12b) and reported as KNOWN-FINDING when reproduced"],
)

PROPS['C19'] = dict(
    lean_targets=['AnonModel.Props.C19'],
    required_theorems=['C19_content_layout', 'C19_read_back', 'C19_name_is_hash', 'C19_final_atomic', 'C19_temp_is_prefix',
                       'C19_no_temp_after_error', 'C19_success_publishes', 'C19_temp_ne_final'],
    families=[dict(name='c19')],
    default_dir='exact',
    spec_is_model=['c19'],
    fam_theorem={'c19': 'C19_content_layout / C19_read_back / C19_name_is_hash (layout, naming), C19_final_atomic / C19_no_temp_after_error (writer machine)'},
    rule="registries of size 1,2,3,5,8,33 (thorough: up to 64) written by the real TailsFileWriter while a wrapper records the generated tails: file name, returned hash, size and SHA-256 compared with the model's own SHA-256/base58/layout; every tail (sampled for large files) and three out-of-range indices read back through TailsFileReader::access_tail; base58 of 1500 random / zero-prefixed byte strings against the bs58 crate; fault injection below libc (LD_PRELOAD shim): the writer runs in a child process and the N-th open/write/lseek/rename that concerns the *.tmp file fails with EIO or the process is SIGKILLed there, for every N reached in a clean run and two file sizes (one with several write calls); afterwards directory listing and file bytes are compared with the model's reachable state at the corresponding step. Independent oracles: bytes = tag ++ tails in generation order; name = tails_hash = base58(sha256(bytes)); final name complete or absent; no *.tmp after an error return",
    trusted_base=TRUSTED_COMMON + ["atomicity of rename(2) and the directory semantics of the OS are assumptions of the writer model", "BufWriter buffering is abstracted to 'the temporary file holds a prefix of the bytes handed over so far'"],
    not_exhibited_by_model=["durability across power loss (the writer never calls fsync)", "a failing remove_file inside the TempFile guard (only logged by the code)"],
)

PROPS['C18'] = dict(
    lean_targets=['AnonModel.Props.C18'],
    required_theorems=['C18_inv', 'C18_handles_unique_never_reused', 'C18_linearizable', 'C18_resolves_until_freed', 'C18_wrong_type_errors',
                       'C18_snapshot_survives_free', 'C18_checker_sound'],
    families=[dict(name='c18')],
    default_dir='exact',
    fam_theorem={'c18': 'C18_checker_sound (every history of the model machine is accepted by checkHistory) + C18_linearizable'},
    rule="mixed create/json/type-name/use-as/free workloads from 2,3,4,8,16 threads over 2-11 shared handle slots (three object types, unique object ids embedded in the JSON payload, immortal and freeable slots, bogus handles) through the exported C functions; each call stamped with invocation/response tickets from one SeqCst counter; the recorded history is judged by the model's per-handle linearizability checker (must be accepted). 120 workloads x ~100 calls in quick, 1500 x ~1000 in thorough. Independent oracle: create never returns 0 or a duplicate handle. distinct = distinct histories (all non-trivial: several threads, frees racing gets)",
    trusted_base=TRUSTED_COMMON + ["the step machine takes the locked section of each FFI call as one atomic micro-step (std::sync::Mutex gives mutual exclusion; AtomicUsize::fetch_add(SeqCst) is atomic)",
                                   "failure kinds of wrong-typed vs invalid-handle uses are determined by construction of the workload (the library's error slot is process-global and cannot be read back reliably under concurrency)"],
    not_exhibited_by_model=["Arc reference counting and deallocation (a snapshot is a plain value in the model)", "the mutex implementation and lock poisoning after a panic inside the lock", "weak-memory effects below SeqCst, counter wrap-around"],
)

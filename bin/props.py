"""Per-property configuration of bin/check (what to build, what to run, how to compare)."""

TRUSTED_COMMON = [
    "Lean 4.33.0 kernel (leanchecker re-check in the thorough tier); axioms allowed: propext, Classical.choice, Quot.sound",
    "hand-written Lean model of the service code (lean/AnonModel/Model); tied to /repo by the differential correspondence run of this check",
    "Rust harness (generators, canonicalisation, oracles) and bin/check comparison logic",
]
ASSUMPTIONS_COMMON = [
    "no theorem is about Rust text: every theorem is about the Lean model; the correspondence run samples the model/code relation",
    "external crates (anoncreds-clsignatures, serde, serde_json, regex, sha2, bs58, rmp-serde, bitvec) behave as documented",
]

PROPS = {}

PROPS['C13'] = dict(
    lean_targets=['AnonModel.Props.C13'],
    required_theorems=['C13_parseI32_spec', 'C13_encode_int', 'C13_encode_sha', 'C13_canonical',
                       'C13_encode_idem_on_ints', 'C13_natRepr_injective', 'C13_intToDec_injective',
                       'C13_normalize_encode', 'C13_normalize_idem'],
    families=[dict(name='c13')],
    default_dir='exact',
    spec_is_model=['c13'],
    fam_theorem={'c13': 'C13_encode_int / C13_encode_sha (encode = spec) via C13_parseI32_spec'},
    rule="strings: exhaustive [+-]?0{0,3}digits within +-3 (quick) / +-40 (thorough) of 0, +-2^31, +-2^31*10, 2^32, 2^63, u64::MAX; all strings of length <= 2 over a 40-symbol alphabet (signs, ASCII and non-ASCII digits, whitespace, controls); decorated numbers; random digit runs; random unicode; long strings. Each string is encoded at every call site (function hook, MakeCredentialValues::add_raw, RawCredentialValues::encode, CredentialSubject::encode as string and as number, C ABI helper) and compared exactly with the Lean model. distinct = distinct (site,string); all are non-trivial (each exercises the parse/hash decision)",
    trusted_base=TRUSTED_COMMON + [
        "SHA-256 is a Lean definition (Model/Sha256.lean); that the sha2 crate computes it is established by this correspondence run only",
        "Rust str::parse::<i32> is modelled by hand from core::num (sign handling, checked mul/add/sub digit loop)",
    ],
    assumptions=["W3C issuance and the W3C verifier's re-encoding reach encode_credential_attribute through CredentialSubject::encode / the function itself, which are the sites exercised; they are additionally exercised end-to-end by the C04/C03 flows"],
)

NOT_CLAIMED = {}

PROPS['C20'] = dict(
    lean_targets=['AnonModel.Props.C20'],
    required_theorems=['C20_uri_iff', 'C20_legacyDid_iff', 'C20_legacySchema_iff', 'C20_legacyCredDef_iff', 'C20_legacyRevReg_iff',
                       'C20_id_valid_iff', 'C20_schema_valid_iff', 'C20_credreq_valid_iff'],
    families=[dict(name='c20')],
    default_dir='exact',
    spec_is_model=['c20'],
    fam_theorem={'c20': 'C20_*_iff (recogniser = declarative grammar), C20_id_valid_iff, C20_schema_valid_iff, C20_credreq_valid_iff'},
    rule="strings generated from each of the five grammars (URI, legacy DID / schema / cred-def / rev-reg id) with valid-biased and free components, boundary lengths 20-23, forbidden base58 letters, wrong type markers, empty components, embedded/trailing newlines, non-ASCII; single and double mutations of each; every string is fed to the five regexes (hook) and to the four validating constructors *Id::new. Schemas: 0,1,2,3,124,125,126,127,200 names, duplicates, odd issuer ids, random short lists. Credential requests: all entropy x prover-DID x cred-def-id kind combinations (deserialise + validate). distinct = distinct inputs; all non-trivial (every case decides membership)",
    trusted_base=TRUSTED_COMMON + ["Rust regex crate semantics (anchors, '.', negated classes) as transcribed in Model/Ident.lean; validated by the exact correspondence on ~10^5 strings per run"],
    assumptions=["'every object the issuer API returns carries identifiers that pass validation' is claimed for ids that entered through validating constructors (new/try_from/C ABI); new_unchecked, the pub tuple field and Deserialize bypass validation by design of the Rust API and are outside the claim (DESIGN §6 C20)"],
)

PROPS['C08'] = dict(
    lean_targets=['AnonModel.Props.C08'],
    required_theorems=['C08_merge_comm', 'C08_merge_assoc', 'C08_valid_merge', 'C08_valid_foldMerge', 'C08_fold_perm', 'C08_open_bounds',
                       'C08_override_only_from', 'C08_override_keyed', 'C08_legacy_exact', 'C08_w3c_exact', 'C08_accept_legacy_partial',
                       'C08_reject_legacy_partial', 'C08_accept_w3c', 'C08_nonrevocable_ignores'],
    families=[dict(name='c08')],
    default_dir='exact',
    spec_is_model=['c08'],
    fam_theorem={'c08': 'C08_legacy_exact / C08_w3c_exact / C08_demand_spec / C08_override_keyed'},
    rule="exhaustive grid {absent,10,20,30}^2 for every interval: merge (256), is_valid at 14 timestamps incl. 0 and 2^64-1, override maps (5), folds of up to three optional locals through get_requested_attributes (HashSet order), get_requested_non_revoked_interval over registry id x local x global x 7 override maps; check_non_revoked_interval and the prover-side get_non_revoked_interval over revocable x attrs x preds x global x registry id x override x 13 timestamps (sampled 40k in quick, exhaustive in thorough); compared exactly with the Lean model",
    trusted_base=TRUSTED_COMMON,
    assumptions=["full 'accept'/'reject'/'needs timestamp' statements are false of the code for intervals on unrevealed referents (F5) and for identifiers without rev_reg_id (F4): delivered as _partial + _refuted theorems and recorded as known findings under C02/C08 (DESIGN §7)"],
)

"""Check driver library (see bin/check)."""
import fcntl, hashlib, json, os, re, subprocess, sys, time, glob, shutil

VERIF = os.path.dirname(os.path.dirname(os.path.abspath(__file__)))
REPO = os.environ.get('VERIF_REPO', '/repo')
LEAN = os.path.join(VERIF, 'lean')
HARNESS = os.path.join(VERIF, 'harness')
CACHE = os.path.join(VERIF, '.cache')
ALLOWED_AXIOMS = {'propext', 'Classical.choice', 'Quot.sound'}
FORBIDDEN = re.compile(r'\bsorry\b|\badmit\b|^\s*axiom\s|native_decide|bv_decide|implemented_by|\bunsafe\s|maxHeartbeats\s+0')

sys.path.insert(0, os.path.dirname(os.path.abspath(__file__)))
import props as P   # per-property configuration


def log(*a):
    print(*a, file=sys.stderr, flush=True)


def sh(cmd, cwd=None, env=None, timeout=None, stdin=None, stdout=None):
    e = dict(os.environ)
    e.setdefault('CARGO_NET_OFFLINE', 'true')
    if env:
        e.update(env)
    t0 = time.time()
    p = subprocess.run(cmd, cwd=cwd, env=e, stdin=stdin, stdout=stdout or subprocess.PIPE,
                       stderr=subprocess.STDOUT if stdout is None else subprocess.PIPE,
                       timeout=timeout, shell=isinstance(cmd, str))
    out = (p.stdout or b'').decode('utf-8', 'replace') if stdout is None else (p.stderr or b'').decode('utf-8', 'replace')
    return p.returncode, out, time.time() - t0


class Lock:
    def __init__(self, name):
        os.makedirs(CACHE, exist_ok=True)
        self.path = os.path.join(CACHE, name + '.lock')

    def __enter__(self):
        self.f = open(self.path, 'w')
        fcntl.flock(self.f, fcntl.LOCK_EX)
        return self

    def __exit__(self, *a):
        fcntl.flock(self.f, fcntl.LOCK_UN)
        self.f.close()


# ---------------------------------------------------------------- Lean side

def strip_comments(src):
    # remove /- ... -/ (nested) and -- ... comments
    out, i, depth = [], 0, 0
    while i < len(src):
        if src.startswith('/-', i):
            depth += 1; i += 2; continue
        if depth and src.startswith('-/', i):
            depth -= 1; i += 2; continue
        if depth:
            if src[i] == '\n': out.append('\n')
            i += 1; continue
        if src.startswith('--', i):
            while i < len(src) and src[i] != '\n': i += 1
            continue
        out.append(src[i]); i += 1
    return ''.join(out)


def theorems_in(path):
    src = strip_comments(open(path).read())
    ns = []
    names = []
    for line in src.split('\n'):
        m = re.match(r'\s*namespace\s+(\S+)', line)
        if m: ns.append(m.group(1)); continue
        m = re.match(r'\s*end\s+(\S+)', line)
        if m and ns and ns[-1] == m.group(1): ns.pop(); continue
        m = re.match(r'\s*(?:@\[[^\]]*\]\s*)?(?:protected\s+)?theorem\s+(\S+)', line)
        if m and not re.match(r'\s*private', line):
            names.append('.'.join(ns + [m.group(1)]))
    return names


def forbidden_hits():
    hits = []
    for path in glob.glob(os.path.join(LEAN, '**', '*.lean'), recursive=True):
        if '/.lake/' in path: continue
        src = strip_comments(open(path).read())
        for n, line in enumerate(src.split('\n'), 1):
            if FORBIDDEN.search(line):
                hits.append(f'{os.path.relpath(path, LEAN)}:{n}: {line.strip()[:100]}')
    return hits


def run_extract():
    tool = os.path.join(VERIF, 'tools', 'extract.py')
    if os.path.exists(tool):
        rc, out, _ = sh([sys.executable, tool, REPO, os.path.join(LEAN, 'AnonModel', 'Gen')])
        if rc != 0:
            return False, out
    return True, ''


def lean_build(prop, cfg):
    """returns dict(ok, obligations, discharged, broken=[names], log)"""
    res = dict(ok=True, obligations=0, discharged=0, broken=[], log='', theorems=[], axioms={})
    with Lock('lake'):
        ok, out = run_extract()
        if not ok:
            res.update(ok=False, log='extract failed:\n' + out, broken=['tools/extract.py']); return res
        targets = list(cfg['lean_targets']) + ['driver']
        rc, out, dt = sh(['lake', 'build'] + targets, cwd=LEAN, timeout=3600)
        res['log'] = out[-6000:]
        res['build_s'] = dt
        thms = []
        for t in cfg['lean_targets']:
            path = os.path.join(LEAN, t.replace('.', '/') + '.lean')
            thms += theorems_in(path)
        res['theorems'] = thms
        res['obligations'] = len(thms)
        missing = [t for t in cfg.get('required_theorems', []) if not any(x.endswith('.' + t) or x == t for x in thms)]
        if rc != 0:
            res['ok'] = False
            # name the theorem(s) whose proof broke: map error lines to the enclosing declaration
            broken = set()
            for m in re.finditer(r'error: (\S+\.lean):(\d+):\d+', out):
                f, ln = m.group(1), int(m.group(2))
                fp = os.path.join(LEAN, f)
                decl = None
                if os.path.exists(fp):
                    lines = open(fp).read().split('\n')
                    for i in range(min(ln, len(lines)) - 1, -1, -1):
                        mm = re.match(r'\s*(?:private\s+)?(?:theorem|def|example|instance|lemma)\s+(\S+)', lines[i])
                        if mm: decl = mm.group(1); break
                broken.add(f'{f}:{decl or ln}')
            res['broken'] = sorted(broken) or ['lake build ' + ' '.join(targets)]
            return res
        if missing:
            res['ok'] = False
            res['broken'] = ['missing theorem ' + t for t in missing]
            return res
        # axiom audit
        os.makedirs(os.path.join(CACHE, 'audit'), exist_ok=True)
        audit = os.path.join(CACHE, 'audit', f'{prop}_{os.getpid()}.lean')
        with open(audit, 'w') as f:
            for t in cfg['lean_targets']:
                f.write(f'import {t}\n')
            for t in thms:
                f.write(f'#print axioms {t}\n')
        rc, out, _ = sh(['lake', 'env', 'lean', audit], cwd=LEAN, timeout=1800)
        os.remove(audit)
        axioms = {}
        for m in re.finditer(r"'(\S+)' (?:depends on axioms: \[([^\]]*)\]|does not depend on any axioms)", out.replace('\n ', ' ').replace('\n', ' ')):
            axioms[m.group(1)] = [a.strip() for a in (m.group(2) or '').split(',') if a.strip()]
        res['axioms'] = axioms
        bad = []
        for t in thms:
            if t not in axioms:
                bad.append(f'{t}: not reported by #print axioms')
            elif set(axioms[t]) - ALLOWED_AXIOMS:
                bad.append(f'{t}: axioms {sorted(set(axioms[t]) - ALLOWED_AXIOMS)}')
        hits = forbidden_hits()
        if hits:
            bad += ['forbidden token: ' + h for h in hits]
        res['discharged'] = len(thms) - len([b for b in bad if ':' in b and not b.startswith('forbidden')])
        if bad:
            res['ok'] = False; res['broken'] = bad
        if cfg.get('_tier') == 'thorough':
            for t in cfg['lean_targets']:
                rc, out, _ = sh(['lake', 'env', 'leanchecker', t], cwd=LEAN, timeout=3600)
                res.setdefault('leanchecker', {})[t] = rc
                if rc != 0:
                    res['ok'] = False; res['broken'].append(f'leanchecker {t}: rc={rc} {out[-300:]}')
    return res


# ---------------------------------------------------------------- Rust side

def repo_content_hash():
    """hash of everything of /repo the harness is compiled from (contents, not timestamps)"""
    h = hashlib.sha256()
    files = [os.path.join(REPO, 'Cargo.toml'), os.path.join(REPO, 'Cargo.lock'), os.path.join(REPO, 'build.rs')]
    for root, _, fs in sorted(os.walk(os.path.join(REPO, 'src'))):
        files += [os.path.join(root, f) for f in sorted(fs)]
    for f in files:
        if os.path.isfile(f):
            h.update(os.path.relpath(f, REPO).encode() + b'\0')
            h.update(open(f, 'rb').read()); h.update(b'\0')
    return h.hexdigest()


def harness_build():
    """build the harness against /repo's working tree with hooks on; fall back to no unit hooks"""
    with Lock('cargo'):
        shim = os.path.join(CACHE, 'fault.so')
        src = os.path.join(HARNESS, 'shim', 'fault.c')
        if not os.path.exists(shim) or os.path.getmtime(src) > os.path.getmtime(shim):
            sh(['cc', '-shared', '-fPIC', '-O1', '-o', shim, src, '-ldl'])
        # cargo decides by timestamps whether a path dependency changed: a tree restored with its old timestamps (copy, overlay,
        # rsync -a) would keep the binaries of the previous tree. Decide by content instead: when the sources differ from the ones
        # the last build saw, drop the compiled `anoncreds` artifacts so that they are rebuilt whatever the timestamps say.
        stamp = os.path.join(HARNESS, 'target', '.repo_content_hash')
        now = repo_content_hash()
        last = open(stamp).read().strip() if os.path.exists(stamp) else ''
        if last != now:
            if last:
                sh(['cargo', 'clean', '--offline', '-p', 'anoncreds'], cwd=HARNESS, timeout=600)
            try: os.remove(stamp)
            except OSError: pass
        rc, out, dt = sh(['cargo', 'build', '--offline'], cwd=HARNESS, timeout=3600)
        if rc == 0:
            os.makedirs(os.path.dirname(stamp), exist_ok=True)
            open(stamp, 'w').write(now)
            return dict(ok=True, unit_hooks=True, build_s=dt, log=out[-2000:])
        log('harness build with unit hooks failed; retrying without them')
        rc2, out2, dt2 = sh(['cargo', 'build', '--offline', '--no-default-features'], cwd=HARNESS, timeout=3600)
        if rc2 == 0:
            open(stamp, 'w').write(now)
            return dict(ok=True, unit_hooks=False, build_s=dt + dt2, log=out[-3000:])
        # the tree does not compile with the hook modules at all (e.g. a function the hooks wrap changed its signature): the hooks are
        # instrumentation, not part of the library — build the library WITHOUT the guard (RUSTFLAGS from the environment take
        # precedence over the harness's cargo configuration), in a target directory of its own; the system-level, flow-level and
        # C ABI families do not need hooks, the unit-level ones report that they do
        log('harness build with the hook modules failed; building the library without --cfg anoncreds_verif')
        global VH
        nohooks = os.path.join(HARNESS, 'target-nohooks')
        rc3, out3, dt3 = sh(['cargo', 'build', '--offline', '--no-default-features', '--target-dir', nohooks], cwd=HARNESS, timeout=3600, env={'RUSTFLAGS': '--cfg anoncreds_verif_off'})
        if rc3 == 0:
            VH = os.path.join(nohooks, 'debug', 'vh')
            os.environ['VH_NOHOOKS'] = '1'
            return dict(ok=True, unit_hooks=False, no_hooks_at_all=True, build_s=dt + dt2 + dt3, log=out[-3000:])
        return dict(ok=False, unit_hooks=False, build_s=dt + dt2 + dt3, log=(out[-3000:] + '\n----\n' + out2[-2000:] + '\n----\n' + out3[-2000:]))


VH = os.path.join(HARNESS, 'target', 'debug', 'vh')
DRIVER = os.path.join(LEAN, '.lake', 'build', 'bin', 'driver')


def run_family(workdir, fam, seed, tier, extra=None, timeout=7200):
    cases = os.path.join(workdir, f'{fam}.cases.jsonl')
    cmd = [VH, fam, '--seed', str(seed), '--tier', tier, '--out', cases] + (extra or [])
    rc, out, dt = sh(cmd, cwd=HARNESS, timeout=timeout, env={'RUST_BACKTRACE': '0'})
    summary = None
    for line in reversed(out.strip().split('\n')):
        try:
            summary = json.loads(line); break
        except Exception:
            continue
    if rc != 0 and summary is None:
        # the harness itself stopped (its panic hook is silent): run once more with the hook off so that the replay file says where
        rc2, out2, _ = sh(cmd, cwd=HARNESS, timeout=timeout, env={'RUST_BACKTRACE': '0', 'VH_PANIC': '1'})
        keep = [l[:600] for l in out2.split('\n') if 'panicked at' in l or l.startswith('unrecoverable') or 'Error' in l[:40]]
        out = out + '\n[re-run with the panic hook off] ' + '\n'.join(keep[-12:])
    return dict(rc=rc, cases=cases, summary=summary, log=out[-3000:], wall_s=dt)


def run_driver(cases_path, timeout=7200):
    model = cases_path.replace('.cases.jsonl', '.model.jsonl')
    with open(cases_path, 'rb') as fin, open(model, 'wb') as fout:
        p = subprocess.run([DRIVER], stdin=fin, stdout=fout, stderr=subprocess.PIPE, timeout=timeout)
    return p.returncode, model, p.stderr.decode('utf-8', 'replace')[-2000:]


def verdict(x):
    if isinstance(x, dict) and 'v' in x: return x['v']
    return x


def same(imp, mod):
    """structural equality; the implementation side may mark a component it could not observe as "__untested__" """
    if imp == '__untested__':
        return True
    if isinstance(imp, dict) and isinstance(mod, dict):
        return imp.keys() == mod.keys() and all(same(imp[k], mod[k]) for k in imp)
    if isinstance(imp, list) and isinstance(mod, list):
        return len(imp) == len(mod) and all(same(a, b) for a, b in zip(imp, mod))
    return imp == mod


def agree(direction, imp, mod):
    """True iff the required relation holds on this case; second value: exact agreement"""
    if direction == 'exact':
        ok = same(imp, mod)
        return ok, ok
    vi, vm = verdict(imp), verdict(mod)
    acc = lambda v: v == 'T'
    # E (error) and F (false) are both "rejected"
    rej = lambda v: v in ('E', 'F')
    exact = (vi == vm) or (rej(vi) and rej(vm))
    if direction == 'safety':      # impl accepts => model accepts
        return (not acc(vi)) or acc(vm), exact
    if direction == 'live':        # model accepts => impl accepts
        return (not acc(vm)) or acc(vi), exact
    if direction == 'nocrash':     # impl panics => model panics
        return (vi != 'P') or (vm == 'P'), exact
    if direction == 'verdict':     # both directions, E~F
        return exact, exact
    raise ValueError(direction)


def case_key(c):
    d = {k: v for k, v in c.items() if k not in ('impl', 'nt', 'fam', 'site', 'sig')}
    return hashlib.sha1(json.dumps(d, sort_keys=True).encode()).hexdigest()


def load_known():
    path = os.path.join(VERIF, 'known_findings.json')
    if not os.path.exists(path): return []
    return json.load(open(path)).get('findings', [])


def write_replay(prop, obj):
    d = os.path.join(VERIF, 'replays', prop)
    os.makedirs(d, exist_ok=True)
    blob = json.dumps(obj, sort_keys=True, ensure_ascii=False, indent=1)
    path = os.path.join(d, hashlib.sha1(blob.encode()).hexdigest()[:16] + '.json')
    open(path, 'w').write(blob)
    return path


def main(argv):
    if not argv or argv[0] not in P.PROPS:
        log('usage: check Cxx [--tier quick|thorough] [--seed N] [--replay FILE]; known:', ' '.join(sorted(P.PROPS)))
        return 2
    prop = argv[0]
    def opt(k, d=None):
        return argv[argv.index(k) + 1] if k in argv else d
    tier = opt('--tier', os.environ.get('VERIF_TIER', 'quick'))
    if tier not in ('quick', 'thorough'): tier = 'quick'
    seed = int(opt('--seed', os.environ.get('VERIF_SEED', '1')) or 1)
    replay = opt('--replay')
    if replay and replay.endswith('.json'):
        # scenario-level cases are not self-contained (they need freshly issued credentials): they are regenerated
        # from the recorded seed and tier, which reproduces exactly the same scenario sequence
        try:
            obj = json.load(open(replay))
            op = (obj.get('case') or {}).get('op', '')
            if obj.get('kind') in ('oracle_failure', 'correspondence', 'proof_obligation', 'harness_run_failed') and op not in P.UNIT_OPS and 'seed' in obj:
                log(f'[{prop}] replay: re-running the check with seed={obj["seed"]} tier={obj.get("tier", tier)}')
                return main([prop, '--seed', str(obj['seed']), '--tier', obj.get('tier', tier)])
        except Exception as e:
            log('cannot read replay file', e)
    cfg = dict(P.PROPS[prop]); cfg['_tier'] = tier
    t0 = time.time()
    workdir = os.path.join(CACHE, 'run', f'{prop}-{os.getpid()}')
    os.makedirs(workdir, exist_ok=True)
    violations = []      # (replay_path, suffix)
    known_lines = []
    notes = []
    known = [k for k in load_known() if k.get('property') == prop and k.get('status', 'open') == 'open']

    # 1-2. Lean: proof obligations + axiom audit
    lean = lean_build(prop, cfg)
    log(f'[{prop}] lean: ok={lean["ok"]} obligations={lean["obligations"]} discharged={lean["discharged"]}')
    # 3. harness
    hb = harness_build()
    log(f'[{prop}] harness: ok={hb["ok"]} unit_hooks={hb["unit_hooks"]}')
    if not hb['ok']:
        # /repo does not build with hooks: nothing can be shown
        path = write_replay(prop, dict(kind='harness_build_failed', log=hb['log']))
        violations.append((path, ' no-failing-input-found'))

    cov = dict(evaluations=0, distinct_nontrivial=0, samples=[], families={}, dist={}, drift=0,
               traces_validated_against_impl=0, oracle_failures=0, known_findings_reproduced=0,
               unit_hooks=hb.get('unit_hooks', False))
    distinct = set()
    mismatches = []   # (fam cfg, case, model)
    oracle_fails = []
    if hb['ok'] and os.path.exists(DRIVER):
        fams = list(cfg['families'])
        runs = []
        # corpus first (minimised past disagreements / attack witnesses), then replay, then generated
        corpus = sorted(glob.glob(os.path.join(VERIF, 'corpus', prop, '*.jsonl')))
        if replay:
            runs.append(('replay', dict(name='replay', dir=None), ['--in', os.path.abspath(replay)]))
            if replay.endswith('.json'):
                # a replay file written by us: extract its case into a one-line file
                try:
                    obj = json.load(open(replay))
                    if 'case' in obj:
                        one = os.path.join(workdir, 'replay_case.jsonl')
                        open(one, 'w').write(json.dumps(obj['case']) + '\n')
                        runs[-1] = ('replay', dict(name='replay', dir=None), ['--in', one])
                except Exception as e:
                    log('cannot read replay file', e)
        else:
            for cf in corpus:
                runs.append(('replay', dict(name='corpus:' + os.path.basename(cf), dir=None), ['--in', cf]))
            for f in fams:
                runs.append((f['name'], f, f.get('args', [])))
        famdir = {f['name']: f for f in fams}
        for (vhfam, f, extra) in runs:
            if f.get('external'):
                # a harness outside the line protocol (e.g. the ctypes driver of the C ABI): summary only
                try:
                    s = getattr(P, f['external'])(workdir, tier, seed, sh, VH)
                except Exception as e:
                    s = None; err = repr(e)
                if not s:
                    path = write_replay(prop, dict(kind='harness_run_failed', family=f['name'], log=err if not s else '', seed=seed))
                    violations.append((path, ' no-failing-input-found'))
                    continue
                for k, v in s.get('dist', {}).items():
                    cov['dist'][k] = cov['dist'].get(k, 0) + v
                oracle_fails.extend(s.get('oracle_failures', []))
                cov['evaluations'] += s.get('cases', 0)
                cov['traces_validated_against_impl'] += s.get('cases', 0)
                for k in s.get('dist', {}):
                    distinct.add('ext:' + k)
                cov['families'][f['name']] = dict(cases=s.get('cases', 0))
                if len(cov['samples']) < 6 and s.get('samples'):
                    cov['samples'] += s['samples'][:2]
                continue
            r = run_family(workdir, vhfam, seed, tier, extra)
            if r['rc'] != 0 or r['summary'] is None:
                path = write_replay(prop, dict(kind='harness_run_failed', family=f['name'], rc=r['rc'], log=r['log'], seed=seed))
                violations.append((path, ' no-failing-input-found'))
                continue
            if vhfam == 'replay':
                os.replace(r['cases'], r['cases'].replace('replay.cases', hashlib.sha1(f['name'].encode()).hexdigest()[:8] + '.cases'))
                r['cases'] = r['cases'].replace('replay.cases', hashlib.sha1(f['name'].encode()).hexdigest()[:8] + '.cases')
            s = r['summary']
            for k, v in s.get('dist', {}).items():
                cov['dist'][k] = cov['dist'].get(k, 0) + v
            for of in s.get('oracle_failures', []):
                oracle_fails.append(of)
            rc, model_path, err = run_driver(r['cases'])
            if rc != 0:
                path = write_replay(prop, dict(kind='driver_failed', family=f['name'], rc=rc, log=err))
                violations.append((path, ' no-failing-input-found'))
                continue
            n = 0
            with open(r['cases']) as fc, open(model_path) as fm:
                for lc, lm in zip(fc, fm):
                    c = json.loads(lc); m = json.loads(lm)
                    n += 1
                    famp = c.get('fam', '').split('.')[0]
                    direction = c.get('dir') or cfg.get('fam_dir', {}).get(c.get('fam')) or cfg.get('fam_dir', {}).get(famp) or cfg.get('default_dir', 'exact')
                    ok, exact = agree(direction, c.get('impl'), m)
                    if c.get('nt'):
                        distinct.add(case_key(c))
                    if len(cov['samples']) < 6 and (n % 997 == 1):
                        cov['samples'].append(dict(case={k: v for k, v in c.items() if k != 'impl'}, impl=c.get('impl'), model=m))
                    if not exact:
                        cov['drift'] += 1
                    if not ok:
                        mismatches.append((direction, c, m))
            cov['evaluations'] += n + int(s.get('oracle_only', 0))
            cov['traces_validated_against_impl'] += n
            cov['oracle_only_evaluations'] = cov.get('oracle_only_evaluations', 0) + int(s.get('oracle_only', 0))
            cov['families'][f['name']] = dict(cases=n, wall_s=round(r['wall_s'], 2))
    cov['distinct_nontrivial'] = len(distinct)

    # 5/6. decide
    def is_known(sig):
        for k in known:
            if sig and (sig == k.get('sig') or (k.get('sig_prefix') and sig.startswith(k['sig_prefix']))):
                return k
        return None

    reproduced = {}
    for of in oracle_fails:
        sig = (of.get('case') or {}).get('sig')
        if sig and re.match(r'^C\d\d:', sig) and not sig.startswith(prop + ':'):
            # a failure classified under another property (shared scenario family): that property's check reports it
            cov['foreign_oracle_failures'] = cov.get('foreign_oracle_failures', 0) + 1
            continue
        k = is_known(sig)
        if k:
            reproduced[k['id']] = k; continue
        cov['oracle_failures'] += 1
        if len(violations) < 20:
            path = write_replay(prop, dict(kind='oracle_failure', what=of.get('what'), case=of.get('case'), impl=of.get('impl'), seed=seed, tier=tier,
                                           replay_cmd=f'bin/check {prop} --replay <this file>'))
            violations.append((path, ''))
    seen_mis = set()
    per_fam = {}
    for (direction, c, m) in mismatches:
        k = is_known(c.get('sig'))
        if k:
            reproduced[k['id']] = k; continue
        key = (c.get('fam'), case_key(c))
        if key in seen_mis: continue
        seen_mis.add(key)
        per_fam[c.get('fam')] = per_fam.get(c.get('fam'), 0) + 1
        if per_fam[c.get('fam')] > 2 or len(violations) >= 10: continue
        spec_is_model = c.get('fam') in cfg.get('spec_is_model', []) or c.get('fam', '').split('.')[0] in cfg.get('spec_is_model', [])
        obj = dict(kind='correspondence', direction=direction, family=c.get('fam'), case={k2: v for k2, v in c.items() if k2 != 'impl'},
                   impl=c.get('impl'), model=m, seed=seed, tier=tier, theorem=cfg.get('fam_theorem', {}).get(c.get('fam'), cfg.get('fam_theorem', {}).get(c.get('fam', '').split('.')[0], '')),
                   replay_cmd=f'bin/check {prop} --replay <this file>')
        if spec_is_model:
            obj['failing_input'] = True
            obj['explanation'] = 'the model outcome is, by the named theorem, the value the property prescribes for this input; the implementation returned something else'
            violations.append((write_replay(prop, obj), ''))
        else:
            obj['failing_input'] = False
            obj['explanation'] = 'model and implementation disagree in the direction the property needs; no oracle-level failing input was found for it'
            violations.append((write_replay(prop, obj), ' no-failing-input-found'))
    if not lean['ok']:
        # a proof obligation (or the audit) no longer checks
        obj = dict(kind='proof_obligation', broken=lean['broken'], log=lean['log'][-3000:])
        found = None
        hook = getattr(P, 'search_' + prop, None)
        if hook:
            try:
                found = hook(lean, workdir, VH)
            except Exception as e:
                obj['search_error'] = repr(e)
        if not found:
            # the correspondence / oracle runs above are the search: a violation they reported with a concrete input is the witness
            concrete = [pth for (pth, sfx) in violations if sfx == '']
            if concrete:
                found = dict(see_replay=concrete[0], note='failing input found by the correspondence run of this check')
        if found:
            obj['failing_input'] = found
            violations.append((write_replay(prop, obj), ''))
        else:
            violations.append((write_replay(prop, obj), ' no-failing-input-found'))
    for kid, k in reproduced.items():
        known_lines.append(f'KNOWN-FINDING: property={prop} {k["what"]}')
    cov['known_findings_reproduced'] = len(reproduced)

    wall = time.time() - t0
    cov.update(obligations=lean['obligations'], discharged=lean['discharged'] if lean['ok'] else min(lean['discharged'], max(0, lean['obligations'] - 1)),
               checker_cmd=f'cd lean && lake build {" ".join(cfg["lean_targets"])} && lake env lean <#print axioms of every theorem in Props>' + (' && lake env leanchecker' if tier == 'thorough' else ''),
               trusted_base=cfg.get('trusted_base', P.TRUSTED_COMMON),
               rule=cfg.get('rule', ''), theorems=lean['theorems'], axioms_used=sorted({a for v in lean['axioms'].values() for a in v}),
               exhaustive=False)
    if cfg.get('not_exhibited_by_model'):
        cov['not_exhibited_by_model'] = cfg['not_exhibited_by_model']
    if not cov['samples']:
        cov['samples'] = [dict(note='no generated cases; obligations only', theorems=lean['theorems'][:5])]
    ev = dict(property_id=prop, tier=tier, seed=seed, level='proof', coverage=cov,
              assumptions=cfg.get('assumptions', []) + P.ASSUMPTIONS_COMMON, wall_s=round(wall, 2), violations=len(violations))
    os.makedirs(os.path.join(VERIF, 'evidence'), exist_ok=True)
    with open(os.path.join(VERIF, 'evidence', prop + '.json'), 'w') as f:
        json.dump(ev, f, indent=1, ensure_ascii=False)
    shutil.rmtree(workdir, ignore_errors=True)
    for l in known_lines: print(l)
    for (path, suffix) in violations:
        print(f'VIOLATION property={prop} replay={path}{suffix}')
    print(f'[{prop}] tier={tier} seed={seed} obligations={lean["obligations"]} discharged={lean["discharged"]} cases={cov["evaluations"]} '
          f'distinct_nontrivial={cov["distinct_nontrivial"]} drift={cov["drift"]} violations={len(violations)} wall={wall:.1f}s')
    return 1 if violations else 0

#!/usr/bin/env python3
"""dev helper: vh <fam> → driver → compare; prints mismatches and oracle failures"""
import json, subprocess, sys, collections
sys.path.insert(0, '/verif/bin')
import vcheck
fam = sys.argv[1]; extra = sys.argv[2:]
out = subprocess.run(['/verif/harness/target/debug/vh', fam, '--out', f'/tmp/{fam}.jsonl'] + extra, capture_output=True, text=True)
s = json.loads(out.stdout.strip().split('\n')[-1])
print('cases', s['cases'], 'oracle_failures', len(s['oracle_failures']))
c = collections.Counter((o['what'], (o['case'] or {}).get('cls'), (o['case'] or {}).get('sig'), (o.get('impl') or {}).get('v')) for o in s['oracle_failures'])
for k, v in sorted(c.items(), key=str): print('  ORACLE', v, k)
subprocess.run(f'/verif/lean/.lake/build/bin/driver < /tmp/{fam}.jsonl > /tmp/{fam}.model', shell=True)
bad = collections.Counter(); n = 0; shown = 0
dist = collections.Counter()
for l, m in zip(open(f'/tmp/{fam}.jsonl'), open(f'/tmp/{fam}.model')):
    cs = json.loads(l); mm = json.loads(m); n += 1
    d = cs.get('dir', 'exact')
    ok, exact = vcheck.agree(d, cs['impl'], mm)
    dist[(cs.get('cls'), vcheck.verdict(cs['impl']) if isinstance(cs['impl'], dict) and 'v' in cs['impl'] else '', vcheck.verdict(mm) if isinstance(mm, dict) and 'v' in mm else '')] += 1
    if not exact:
        bad[(cs.get('fam'), cs.get('cls'), json.dumps(cs['impl'])[:40], json.dumps(mm)[:40], 'DIR-BREACH' if not ok else 'drift')] += 1
        if shown < int(__import__('os').environ.get('SHOW', '0')):
            shown += 1
            cs2 = dict(cs); cs2['op'] += '_dbg'
            dbg = subprocess.run(['/verif/lean/.lake/build/bin/driver'], input=(json.dumps(cs2) + '\n').encode(), capture_output=True).stdout.decode()
            print(cs.get('cls'), 'IMPL', cs['impl'], 'MODEL', mm, '\n   DBG', dbg[:1500])
            if __import__('os').environ.get('FULL'): print(json.dumps(cs)[:6000])
print('n', n, 'mismatches', sum(bad.values()))
for k, v in sorted(bad.items(), key=str): print('  MISMATCH', v, k)
if __import__('os').environ.get('DIST'):
    for k, v in sorted(dist.items(), key=str): print('  ', v, k)

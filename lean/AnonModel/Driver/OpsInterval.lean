import Lean.Data.Json
import AnonModel.Model.Interval
/-!
Line-protocol handlers for the interval model (C08).

Wire forms (all keys listed for an op are mandatory; a missing key, a wrong type, a negative,
fractional or `> u64::MAX` number makes the request malformed → `none`):
* interval: `{"from": n|null, "to": n|null}`; optional interval: that or `null`;
* override: `null` or `[[regId, [[k, v], …]], …]` (first match wins; the Rust maps have unique keys);
* timestamps / bounds: JSON numbers in `0 ..= 2^64-1`.
Outputs: interval `{"from": …, "to": …}` with `null`s, optional interval that or `null`, verdicts
as JSON booleans.
-/
open Lean
namespace AnonModel.Driver

open AnonModel.Interval

/-- a JSON number that denotes an integer in `0 ..= u64::MAX` -/
def natOfJson : Json → Option Nat
  | .num n =>
    if n.mantissa < 0 then none else
    let p := 10 ^ n.exponent
    let m := n.mantissa.toNat
    if m % p ≠ 0 then none else
    let v := m / p
    if v ≤ u64Max then some v else none
  | _ => none

/-- `n | null` -/
def optNatOfJson : Json → Option (Option Nat)
  | .null => some none
  | j => (natOfJson j).map some

/-- mandatory field -/
def fld (j : Json) (k : String) : Option Json :=
  match j.getObjVal? k with
  | .ok v => some v
  | .error _ => none

def ivlOfJson (j : Json) : Option Ivl := do
  let lo ← fld j "from" >>= optNatOfJson
  let hi ← fld j "to" >>= optNatOfJson
  pure ⟨lo, hi⟩

/-- `ivl | null` -/
def optIvlOfJson : Json → Option (Option Ivl)
  | .null => some none
  | j => (ivlOfJson j).map some

/-- `[[k, v], …]` -/
def pairsOfJson : Json → Option (List (Nat × Nat))
  | .arr xs => xs.toList.mapM fun
    | .arr #[k, v] => do pure (← natOfJson k, ← natOfJson v)
    | _ => none
  | _ => none

/-- `null | [[regId, [[k, v], …]], …]` -/
def overridesOfJson : Json → Option (Option Overrides)
  | .null => some none
  | .arr xs => do
    let maps ← xs.toList.mapM fun
      | .arr #[.str id, m] => do pure (id, ← pairsOfJson m)
      | _ => none
    pure (some maps)
  | _ => none

/-- `s | null` -/
def optStrOfJson : Json → Option (Option String)
  | .null => some none
  | .str s => some (some s)
  | _ => none

def boolOfJson : Json → Option Bool
  | .bool b => some b
  | _ => none

def optNatToJson : Option Nat → Json
  | some n => Json.num (JsonNumber.fromNat n)
  | none => Json.null

def ivlToJson (i : Ivl) : Json :=
  Json.mkObj [("from", optNatToJson i.lo), ("to", optNatToJson i.hi)]

def optIvlToJson : Option Ivl → Json
  | some i => ivlToJson i
  | none => Json.null

def stepInterval (op : String) (j : Json) : Option Json :=
  match op with
  | "ivl_merge" => do
    let a ← fld j "a" >>= ivlOfJson
    let b ← fld j "b" >>= ivlOfJson
    pure (ivlToJson (merge a b))
  | "ivl_override" => do
    let a ← fld j "a" >>= ivlOfJson
    let m ← fld j "map" >>= pairsOfJson
    pure (ivlToJson (applyOverride m a))
  | "ivl_valid" => do
    let a ← fld j "a" >>= ivlOfJson
    let t ← fld j "t" >>= natOfJson
    pure (Json.bool (valid a t))
  | "ivl_fold" => do
    let ls ← match ← fld j "locals" with
      | .arr xs => xs.toList.mapM optIvlOfJson
      | _ => none
    pure (optIvlToJson (foldLocals ls))
  | "ivl_requested" => do
    let regId ← fld j "rev_reg_id" >>= optStrOfJson
    let loc ← fld j "local" >>= optIvlOfJson
    let glob ← fld j "global" >>= optIvlOfJson
    let ovr ← fld j "override" >>= overridesOfJson
    pure (optIvlToJson (requested regId loc glob ovr))
  | "ivl_prover" => do
    let attrs ← fld j "attrs" >>= optIvlOfJson
    let preds ← fld j "preds" >>= optIvlOfJson
    let glob ← fld j "global" >>= optIvlOfJson
    let regId ← fld j "rev_reg_id" >>= optStrOfJson
    let ovr ← fld j "override" >>= overridesOfJson
    pure (optIvlToJson (proverInterval attrs preds glob regId ovr))
  | "ivl_check_legacy" => do
    let revocable ← fld j "revocable" >>= boolOfJson
    let attrs ← fld j "attrs" >>= optIvlOfJson
    let preds ← fld j "preds" >>= optIvlOfJson
    let glob ← fld j "global" >>= optIvlOfJson
    let regId ← fld j "rev_reg_id" >>= optStrOfJson
    let ovr ← fld j "override" >>= overridesOfJson
    let ts ← fld j "timestamp" >>= optNatOfJson
    pure (Json.bool (checkLegacy revocable attrs preds glob regId ovr ts))
  | "ivl_check_w3c" => do
    let loc ← fld j "local" >>= optIvlOfJson
    let glob ← fld j "global" >>= optIvlOfJson
    let regId ← fld j "rev_reg_id" >>= optStrOfJson
    let ovr ← fld j "override" >>= overridesOfJson
    let ts ← fld j "timestamp" >>= optNatOfJson
    pure (Json.bool (checkW3C loc glob regId ovr ts))
  | _ => none

end AnonModel.Driver

import Lean.Data.Json
import AnonModel.Model.Tails
/-! Line-protocol handlers for the tails model (C19): `tails_layout`, `tails_read`,
`tails_fault`, `b58`. Malformed inputs (bad hex, missing keys) are not handled (`none`). -/
open Lean
namespace AnonModel.Driver

private def hexVal (c : Char) : Option Nat :=
  if '0' ≤ c ∧ c ≤ '9' then some (c.toNat - '0'.toNat)
  else if 'a' ≤ c ∧ c ≤ 'f' then some (c.toNat - 'a'.toNat + 10)
  else if 'A' ≤ c ∧ c ≤ 'F' then some (c.toNat - 'A'.toNat + 10)
  else none

private def unhexList : List Char → Option (List UInt8)
  | [] => some []
  | [_] => none
  | a :: b :: rest =>
    match hexVal a, hexVal b, unhexList rest with
    | some x, some y, some r => some (UInt8.ofNat (x * 16 + y) :: r)
    | _, _, _ => none

private def unhex (s : String) : Option (List UInt8) := unhexList s.toList

private def hexDigit (n : Nat) : Char := "0123456789abcdef".toList.getD n '0'

private def hex (bs : List UInt8) : String :=
  String.ofList (bs.flatMap fun b => [hexDigit (b.toNat / 16), hexDigit (b.toNat % 16)])

private def getNatT (j : Json) (k : String) : Option Nat :=
  match j.getObjVal? k with
  | .ok v => match v.getNat? with
    | .ok n => some n
    | _ => none
  | _ => none

private def getStrT (j : Json) (k : String) : Option String :=
  match j.getObjVal? k with
  | .ok (.str s) => some s
  | _ => none

private def getTails (j : Json) : Option (List (List UInt8)) :=
  match j.getObjVal? "tails_hex" with
  | .ok (.arr a) => a.toList.mapM fun v => match v with
    | .str s => unhex s
    | _ => none
  | _ => none

private def errJson : Json := Json.mkObj [("err", Json.bool true)]

private def statusStr : Tails.Status → String
  | .running => "running"
  | .ok _ _ => "ok"
  | .err => "err"
  | .crashed => "crashed"

private def faultRun (n i : Nat) (kind : Tails.Outcome) : Json :=
  let tails : List (List UInt8) := List.replicate n (List.replicate Tails.TAIL_SIZE 0)
  let e : Tails.Env := ⟨"", 0, tails⟩
  let faults : Nat → Tails.Fault := fun j => if j = i then ⟨kind, 0, false⟩ else Tails.okFault
  let st := Tails.runW e faults (Tails.totalSteps e) (Tails.init [])
  let fin := Tails.dirGet st.dir (Tails.fileName tails)
  Json.mkObj [
    ("final_present", Json.bool fin.isSome),
    ("final_complete", Json.bool (fin == some (Tails.fileBytes tails))),
    ("temp_present", Json.bool (Tails.dirGet st.dir e.temp).isSome),
    ("returned", Json.str (statusStr st.status))]

def stepTails (op : String) (j : Json) : Option Json :=
  match op with
  | "tails_layout" =>
    match getTails j with
    | some tails =>
      let bytes := Tails.fileBytes tails
      let h := Tails.sha256 bytes
      some (Json.mkObj [("name", Json.str (Tails.base58 h)), ("size", Json.num (JsonNumber.fromNat bytes.length)),
        ("sha256_hex", Json.str (hex h))])
    | none => none
  | "tails_read" =>
    match getTails j, getNatT j "k" with
    | some tails, some k =>
      let size := match tails with
        | t :: _ => t.length
        | [] => Tails.TAIL_SIZE
      match Tails.readTail size (Tails.fileBytes tails) k with
      | some bs => some (Json.str (hex bs))
      | none => some errJson
    | _, _ => none
  | "tails_fault" =>
    match getNatT j "n_tails", getNatT j "fault_step", getStrT j "kind" with
    | some n, some i, some "error" => some (faultRun n i .error)
    | some n, some i, some "crash" => some (faultRun n i .crash)
    | _, _, _ => none
  | "b58" =>
    match (getStrT j "hex").bind unhex with
    | some bs => some (Json.str (Tails.base58 bs))
    | none => none
  | _ => none

end AnonModel.Driver

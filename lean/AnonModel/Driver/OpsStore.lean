import Lean.Data.Json
import AnonModel.Model.Store
/-! Line-protocol handler for the handle-store model (C18): `store_history` feeds a recorded
real history to `Store.checkHistory`. A malformed request is not handled (`none`). -/
open Lean
namespace AnonModel.Driver

private def getNatS (j : Json) (k : String) : Option Nat :=
  match j.getObjVal? k with
  | .ok v => match v.getNat? with
    | .ok n => some n
    | _ => none
  | _ => none

/-- `some none` for a JSON `null` or a missing key, `some (some n)` for a number -/
private def getOptNatS (j : Json) (k : String) : Option (Option Nat) :=
  match j.getObjVal? k with
  | .ok .null => some none
  | .ok v => match v.getNat? with
    | .ok n => some (some n)
    | _ => none
  | .error _ => some none

private def getStrS (j : Json) (k : String) : Option String :=
  match j.getObjVal? k with
  | .ok (.str s) => some s
  | _ => none

private def parseOp : String → Option Store.EOp
  | "create" => some .create
  | "json" => some .json
  | "type" => some .type
  | "use" => some .use
  | "free" => some .free
  | _ => none

private def parseResult : String → Option Store.EResult
  | "ok" => some .ok
  | "invalid" => some .invalid
  | "type_error" => some .typeError
  | _ => none

private def parseEvent (j : Json) : Option Store.Event := do
  let thread ← getNatS j "thread"
  let op ← (getStrS j "op").bind parseOp
  let handle ← getNatS j "handle"
  let wantTy ← getOptNatS j "want_ty"
  let inv ← getNatS j "inv"
  let res ← getNatS j "res"
  let result ← (getStrS j "result").bind parseResult
  let ty ← getOptNatS j "ty"
  let obj ← getOptNatS j "obj"
  pure ⟨thread, op, handle, wantTy, inv, res, result, ty, obj⟩

def stepStore (op : String) (j : Json) : Option Json :=
  match op with
  | "store_history" =>
    match j.getObjVal? "events" with
    | .ok (.arr a) =>
      match a.toList.mapM parseEvent with
      | some evs => some (Json.bool (Store.checkHistory evs))
      | none => none
    | _ => none
  | _ => none

end AnonModel.Driver

import Lean.Data.Json
import AnonModel.Model.Wire
import AnonModel.Model.WireBn
/-! Line-protocol handlers for the hand-written codecs (C15): `codec_nonce`, `codec_revlist`, `codec_ver`, `codec_attrvalue`. -/
open Lean
namespace AnonModel.Driver
open AnonModel.Wire

/-- a JSON number as serde_json classifies it -/
def numOfJson (n : JsonNumber) : Num :=
  if n.exponent ≠ 0 then .float
  else if n.mantissa ≥ 0 then (if n.mantissa.toNat < 2 ^ 64 then .pos n.mantissa.toNat else .float)
  else (if n.mantissa ≥ -(2 ^ 63 : Int) then .neg n.mantissa else .float)

partial def wjsonOf : Json → WJson
  | .null => .null
  | .bool b => .bool b
  | .num n => .num (numOfJson n)
  | .str s => .str s
  | .arr a => .arr (a.toList.map wjsonOf)
  | .obj _ => .obj

def wErr : Json := Json.mkObj [("err", Json.bool true)]

def stepWire (op : String) (j : Json) : Option Json :=
  match op with
  | "bn_hop" =>
    -- a revealed encoding (decimal string of an integer) after one binary hop of the W3C proof value
    match j.getObjVal? "z" with
    | .ok (.str z) => (z.toInt?).map (fun i => Json.str (toString (WireBn.hopBin i)))
    | _ => none
  | "codec_nonce" =>
    match j.getObjVal? "j" with
    | .ok v => some (match nonceDe (wjsonOf v) with | some s => Json.str s | none => wErr)
    | _ => none
  | "codec_revlist" =>
    match j.getObjVal? "j" with
    | .ok v => some (match revListDe (wjsonOf v) with
        | some bits => Json.arr (bits.map (fun b => Json.num (JsonNumber.fromNat (if b then 1 else 0)))).toArray
        | none => wErr)
    | _ => none
  | "codec_ver" =>
    match j.getObjVal? "present", j.getObjVal? "ver" with
    | .ok (.bool present), .ok v =>
      some (match verDe (if present then some (wjsonOf v) else none) with
        | some .v1 => Json.str "1.0"
        | some .v2 => Json.str "2.0"
        | none => wErr)
    | _, _ => none
  | "codec_attrvalue" =>
    match j.getObjVal? "j" with
    | .ok v => some (match attrValDe (wjsonOf v) with
        | some (.str s) => Json.mkObj [("kind", "str"), ("out", Json.str s)]
        | some (.num n) => Json.mkObj [("kind", "num"), ("out", Json.num (JsonNumber.fromInt n))]
        | some (.bool b) => Json.mkObj [("kind", "bool"), ("out", Json.bool b)]
        | none => wErr)
    | _ => none
  | _ => none

end AnonModel.Driver

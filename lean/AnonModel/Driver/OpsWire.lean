import Lean.Data.Json
import AnonModel.Model.Wire
import AnonModel.Model.WireBn
import AnonModel.Model.Base64
import AnonModel.Model.WirePv
/-! Line-protocol handlers for the hand-written codecs (C15): `codec_nonce`, `codec_revlist`, `codec_ver`, `codec_attrvalue`. -/
open Lean
namespace AnonModel.Driver
open AnonModel.Wire

/-- a JSON number as serde_json classifies it -/
def numOfJson (n : JsonNumber) : Num :=
  if n.exponent ≠ 0 then .float
  else if n.mantissa ≥ 0 then (if n.mantissa.toNat < 2 ^ 64 then .pos n.mantissa.toNat else .float)
  else (if n.mantissa ≥ -(2 ^ 63 : Int) then .neg n.mantissa else .float)

partial def wjsonOf : Json → WJson
  | .null => .null
  | .bool b => .bool b
  | .num n => .num (numOfJson n)
  | .str s => .str s
  | .arr a => .arr (a.toList.map wjsonOf)
  | .obj _ => .obj

def wErr : Json := Json.mkObj [("err", Json.bool true)]

def stepWire (op : String) (j : Json) : Option Json :=
  match op with
  | "bn_hop" =>
    -- a revealed encoding (decimal string of an integer) after one binary hop of the W3C proof value
    match j.getObjVal? "z" with
    | .ok (.str z) => (z.toInt?).map (fun i => Json.str (toString (WireBn.hopBin i)))
    | _ => none
  | "b64_encode" =>
    -- `utils::base64::encode` of a byte string (array of numbers below 256)
    match j.getObjVal? "bytes" with
    | .ok (.arr a) =>
      match a.toList.mapM (fun x => match x with
          | .num n => if n.exponent = 0 ∧ 0 ≤ n.mantissa ∧ n.mantissa < 256 then some n.mantissa.toNat else none
          | _ => none) with
      | some bs => some (Json.str (String.ofList (Base64.encode bs)))
      | none => none
    | _ => none
  | "b64_decode" =>
    -- `utils::base64::decode` of a text
    match j.getObjVal? "s" with
    | .ok (.str s) => some (match Base64.decode s.toList with
        | some bs => Json.arr (bs.map (fun b => Json.num (JsonNumber.fromNat b))).toArray
        | none => wErr)
    | _ => none
  | "codec_pv" =>
    -- the tagged proof value `[tag, payload]` (hand-written visitor of DataIntegrityProofValue)
    match j.getObjVal? "items" with
    | .ok (.arr a) =>
      match a.toList.mapM (fun x => match x.getObjVal? "int", x.getObjVal? "payload" with
          | .ok (.num n), _ => if n.exponent = 0 then some (WirePv.Item.int n.mantissa) else none
          | _, .ok (.num n) => if n.exponent = 0 ∧ 0 ≤ n.mantissa then some (WirePv.Item.payload n.mantissa.toNat) else none
          | _, _ => if x == Json.str "other" then some WirePv.Item.other else none) with
      | some items => some (match WirePv.de items with
          | some k => Json.num (JsonNumber.fromNat k)
          | none => wErr)
      | none => none
    | _ => none
  | "pv_decode" =>
    -- the text of a proof value gets past the multibase / base64 layer of `format::base64_msgpack`
    match j.getObjVal? "s" with
    | .ok (.str s) => some (Json.mkObj [("accepted", Json.bool (Base64.envelopeDecode s.toList).isSome)])
    | _ => none
  | "codec_nonce" =>
    match j.getObjVal? "j" with
    | .ok v => some (match nonceDe (wjsonOf v) with | some s => Json.str s | none => wErr)
    | _ => none
  | "codec_revlist" =>
    match j.getObjVal? "j" with
    | .ok v => some (match revListDe (wjsonOf v) with
        | some bits => Json.arr (bits.map (fun b => Json.num (JsonNumber.fromNat (if b then 1 else 0)))).toArray
        | none => wErr)
    | _ => none
  | "codec_ver" =>
    match j.getObjVal? "present", j.getObjVal? "ver" with
    | .ok (.bool present), .ok v =>
      some (match verDe (if present then some (wjsonOf v) else none) with
        | some .v1 => Json.str "1.0"
        | some .v2 => Json.str "2.0"
        | none => wErr)
    | _, _ => none
  | "codec_attrvalue" =>
    match j.getObjVal? "j" with
    | .ok v => some (match attrValDe (wjsonOf v) with
        | some (.str s) => Json.mkObj [("kind", "str"), ("out", Json.str s)]
        | some (.num n) => Json.mkObj [("kind", "num"), ("out", Json.num (JsonNumber.fromInt n))]
        | some (.bool b) => Json.mkObj [("kind", "bool"), ("out", Json.bool b)]
        | none => wErr)
    | _ => none
  | _ => none

end AnonModel.Driver

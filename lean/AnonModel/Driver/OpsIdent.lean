import Lean.Data.Json
import AnonModel.Model.Ident
/-!
Line-protocol handlers for the identifier / schema / credential-request validation
model (`Model/Ident.lean`, property C20). All outcomes are JSON booleans
(`true` = the Rust call returns `Ok` / the regex matches).

* `re`            `{"name": "uri"|"legacy_did"|"legacy_schema"|"legacy_cred_def"|"legacy_rev_reg", "s": string}`
* `id`            `{"kind": "issuer"|"schema"|"cred_def"|"rev_reg_def", "s": string}`
* `schema_valid`  `{"issuer_id": string, "attr_names": [string]}`
* `credreq_valid` `{"entropy": string|null, "prover_did": string|null, "cred_def_id": string}`
  (an absent `entropy` / `prover_did` key is read as `null`)

`none` for any other op name and for malformed requests (missing or wrongly typed field,
unknown `name` / `kind`).
-/
open Lean
namespace AnonModel.Driver

/-- a required string field -/
private def identStr (j : Json) (k : String) : Option String :=
  match j.getObjVal? k with
  | .ok (.str s) => some s
  | _ => none

/-- an optional string field: `some none` for `null` or an absent key, `some (some s)` for
a string, `none` (malformed) for anything else -/
private def identOptStr (j : Json) (k : String) : Option (Option String) :=
  match j.getObjVal? k with
  | .ok (.str s) => some (some s)
  | .ok .null => some none
  | .ok _ => none
  | .error _ => some none

/-- a required field holding an array of strings -/
private def identStrList (j : Json) (k : String) : Option (List String) :=
  match j.getObjVal? k with
  | .ok (.arr a) =>
    a.toList.mapM fun
      | .str s => some s
      | _ => none
  | _ => none

private def identRegex : String → Option (String → Bool)
  | "uri" => some Ident.isUri
  | "legacy_did" => some Ident.isLegacyDid
  | "legacy_schema" => some Ident.isLegacySchemaId
  | "legacy_cred_def" => some Ident.isLegacyCredDefId
  | "legacy_rev_reg" => some Ident.isLegacyRevRegDefId
  | _ => none

private def identKind : String → Option Ident.IdKind
  | "issuer" => some .issuer
  | "schema" => some .schema
  | "cred_def" => some .credDef
  | "rev_reg_def" => some .revRegDef
  | _ => none

def stepIdent (op : String) (j : Json) : Option Json :=
  match op with
  | "re" => do
    let name ← identStr j "name"
    let s ← identStr j "s"
    let f ← identRegex name
    pure (Json.bool (f s))
  | "id" => do
    let kind ← identStr j "kind"
    let s ← identStr j "s"
    let k ← identKind kind
    pure (Json.bool (Ident.idValid k s))
  | "schema_valid" => do
    let iss ← identStr j "issuer_id"
    let names ← identStrList j "attr_names"
    pure (Json.bool (Ident.schemaValid iss names))
  | "credreq_valid" => do
    let entropy ← identOptStr j "entropy"
    let proverDid ← identOptStr j "prover_did"
    let cd ← identStr j "cred_def_id"
    pure (Json.bool (Ident.credReqValid entropy proverDid cd))
  | _ => none

end AnonModel.Driver

import Lean.Data.Json
import AnonModel.Model.Convert
import AnonModel.Model.Issuance
import AnonModel.Model.IssuanceW3C
import AnonModel.Driver.OpsVerify
import AnonModel.Driver.OpsProver
/-! Line-protocol handlers for conversion (C14: `convert`, `convert_w3c`) and issuance (C11: `issue`, `process`). -/
open Lean
namespace AnonModel.Driver
open AnonModel.Convert AnonModel.Issuance AnonModel.IssuanceW3C

def valuesOfJson : Json → Option Values :=
  listOfJson fun
    | .arr #[.str n, .str raw, .str enc] => some (n, (raw, enc))
    | _ => none

def valuesToJson (v : Values) : Json :=
  Json.arr ((sortBy (fun a b => strLt a.1 b.1) v).map (fun x => Json.arr #[Json.str x.1, Json.str x.2.1, Json.str x.2.2])).toArray

def legacyMetaOfJson (j : Json) : Option LegacyMeta := do
  pure { schemaId := ← fld j "schema_id" >>= strOfJson, credDefId := ← fld j "cred_def_id" >>= strOfJson,
         revRegId := ← fld j "rev_reg_id" >>= optStrOfJson, hasWitness := ← fld j "has_witness" >>= boolOfJson,
         hasRevReg := ← fld j "has_rev_reg" >>= boolOfJson }

def w3cMetaOfJson (j : Json) : Option W3CMeta := do
  pure { contextOk := ← fld j "context_ok" >>= boolOfJson, hasW3CType := ← fld j "has_type" >>= boolOfJson,
         v11 := ← fld j "v11" >>= boolOfJson, hasIssuanceDate := ← fld j "has_issuance_date" >>= boolOfJson,
         signatureProofOk := ← fld j "signature_proof_ok" >>= boolOfJson }

def blindedOfJson (j : Json) : Option Blinded := do
  pure { key := ← fld j "key" >>= natOfJson, holder := ← fld j "holder" >>= natOfJson, blinding := ← fld j "blinding" >>= natOfJson,
         proofNonce := ← fld j "proof_nonce" >>= strOfJson, intact := ← fld j "intact" >>= boolOfJson }

def credDefOfJson (j : Json) : Option Issuance.CredDef := do
  pure { id := ← fld j "id" >>= strOfJson, key := ← fld j "key" >>= natOfJson, schemaAttrs := ← fld j "attrs" >>= listOfJson strOfJson }

def stepIssue (op : String) (j : Json) : Option Json :=
  match op with
  | "convert" => do
    let m ← fld j "meta" >>= legacyMetaOfJson
    let v ← fld j "values" >>= valuesOfJson
    pure (match toW3C m v with
      | none => errJ
      | some subj =>
        Json.mkObj [("subject", assocToJson subjValToJson subj),
                    ("back", match subjectEncode subj with | some b => valuesToJson b | none => errJ)])
  | "convert_w3c" => do
    let m ← fld j "meta" >>= w3cMetaOfJson
    let subj ← fld j "subject" >>= assocOfJson subjValOfJson
    pure (match fromW3C m subj with
      | none => errJ
      | some v => Json.mkObj [("legacy", valuesToJson v), ("again", assocToJson subjValToJson (toSubject v))])
  | "issue" => do
    let cd ← fld j "cd" >>= credDefOfJson
    let offerNonce ← fld j "offer_nonce" >>= strOfJson
    let rj ← fld j "req"
    let req : CredRequest := { entropy := ← fld rj "entropy" >>= optStrOfJson, proverDid := ← fld rj "prover_did" >>= optStrOfJson,
                               blinded := ← fld rj "blinded" >>= blindedOfJson, nonce := ← fld rj "nonce" >>= strOfJson }
    let names ← fld j "value_names" >>= listOfJson strOfJson
    pure (Json.bool (createCredential cd { nonce := offerNonce } req (names.map (fun n => (n, "0")))).isSome)
  | "process" => do
    let cd ← fld j "cd" >>= credDefOfJson
    let sj ← fld j "sig"
    let sig : Signature := { key := ← fld sj "key" >>= natOfJson, attrs := ← fld sj "attrs" >>= strPairsOfJson,
                             holder := ← fld sj "holder" >>= natOfJson, blinding := ← fld sj "blinding" >>= natOfJson,
                             nonce := ← fld sj "nonce" >>= strOfJson, intact := ← fld sj "intact" >>= boolOfJson }
    let values ← fld j "values" >>= strPairsOfJson
    let mj ← fld j "meta"
    let m : ReqMeta := { blinding := ← fld mj "blinding" >>= natOfJson, nonce := ← fld mj "nonce" >>= strOfJson }
    let holder ← fld j "holder" >>= natOfJson
    pure (Json.bool (processCredential { values := values, sig := sig } m holder cd))
  | "issue_w3c" => do
    let cd ← fld j "cd" >>= credDefOfJson
    let offerNonce ← fld j "offer_nonce" >>= strOfJson
    let rj ← fld j "req"
    let req : CredRequest := { entropy := ← fld rj "entropy" >>= optStrOfJson, proverDid := ← fld rj "prover_did" >>= optStrOfJson,
                               blinded := ← fld rj "blinded" >>= blindedOfJson, nonce := ← fld rj "nonce" >>= strOfJson }
    let subj ← fld j "subject" >>= assocOfJson subjValOfJson
    pure (Json.bool (createCredentialW3C cd { nonce := offerNonce } req subj).isSome)
  | "process_w3c" => do
    let cd ← fld j "cd" >>= credDefOfJson
    let sj ← fld j "sig"
    let sig : Signature := { key := ← fld sj "key" >>= natOfJson, attrs := ← fld sj "attrs" >>= strPairsOfJson,
                             holder := ← fld sj "holder" >>= natOfJson, blinding := ← fld sj "blinding" >>= natOfJson,
                             nonce := ← fld sj "nonce" >>= strOfJson, intact := ← fld sj "intact" >>= boolOfJson }
    let subj ← fld j "subject" >>= assocOfJson subjValOfJson
    let sp ← fld j "sig_proof_ok" >>= boolOfJson
    let mj ← fld j "meta"
    let m : ReqMeta := { blinding := ← fld mj "blinding" >>= natOfJson, nonce := ← fld mj "nonce" >>= strOfJson }
    let holder ← fld j "holder" >>= natOfJson
    pure (Json.bool (processCredentialW3C { subject := subj, sig := sig } sp m holder cd))
  | _ => none

end AnonModel.Driver

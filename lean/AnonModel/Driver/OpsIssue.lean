import Lean.Data.Json
import AnonModel.Model.Convert
import AnonModel.Model.ProofDoc
import AnonModel.Model.Envelope
import AnonModel.Model.Issuance
import AnonModel.Model.IssuanceW3C
import AnonModel.Driver.OpsVerify
import AnonModel.Driver.OpsProver
/-! Line-protocol handlers for conversion (C14: `convert`, `convert_w3c`) and issuance (C11: `issue`, `process`). -/
open Lean
namespace AnonModel.Driver
open AnonModel.Convert AnonModel.Issuance AnonModel.IssuanceW3C

def valuesOfJson : Json → Option Values :=
  listOfJson fun
    | .arr #[.str n, .str raw, .str enc] => some (n, (raw, enc))
    | _ => none

def valuesToJson (v : Values) : Json :=
  Json.arr ((sortBy (fun a b => strLt a.1 b.1) v).map (fun x => Json.arr #[Json.str x.1, Json.str x.2.1, Json.str x.2.2])).toArray

def legacyMetaOfJson (j : Json) : Option LegacyMeta := do
  pure { schemaId := ← fld j "schema_id" >>= strOfJson, credDefId := ← fld j "cred_def_id" >>= strOfJson,
         revRegId := ← fld j "rev_reg_id" >>= optStrOfJson, hasWitness := ← fld j "has_witness" >>= boolOfJson,
         hasRevReg := ← fld j "has_rev_reg" >>= boolOfJson }

def w3cMetaOfJson (j : Json) : Option W3CMeta := do
  pure { contextOk := ← fld j "context_ok" >>= boolOfJson, hasW3CType := ← fld j "has_type" >>= boolOfJson,
         v11 := ← fld j "v11" >>= boolOfJson, hasIssuanceDate := ← fld j "has_issuance_date" >>= boolOfJson,
         signatureProofOk := ← fld j "signature_proof_ok" >>= boolOfJson }

def pdScalarOfJson (j : Json) : Option ProofDoc.Scalar :=
  match j.getObjVal? "anon", j.getObjVal? "other" with
  | .ok (.arr #[p, k, i]), _ => do
    let p ← natOfJson p; let k ← natOfJson k; let i ← natOfJson i
    let purpose ← (match p with | 0 => some ProofDoc.Purpose.assertion | 1 => some .authentication | _ => none)
    let kind ← (match k with | 0 => some ProofDoc.Kind.signature | 1 => some .credPresentation | 2 => some .presentation | _ => none)
    pure (.anon ⟨purpose, kind, i⟩)
  | _, .ok i => (natOfJson i).map .other
  | _, _ => none

def pdEntryOfJson (j : Json) : Option ProofDoc.Entry :=
  match j.getObjVal? "nested" with
  | .ok i => (natOfJson i).map .nested
  | _ => (pdScalarOfJson j).map .sc

def pdDocOfJson (j : Json) : Option ProofDoc.Doc :=
  match j.getObjVal? "arr", j.getObjVal? "val" with
  | .ok a, _ => (listOfJson pdEntryOfJson a).map .arr
  | _, .ok v => (pdScalarOfJson v).map .val
  | _, _ => none

def blindedOfJson (j : Json) : Option Blinded := do
  pure { key := ← fld j "key" >>= natOfJson, holder := ← fld j "holder" >>= natOfJson, blinding := ← fld j "blinding" >>= natOfJson,
         proofNonce := ← fld j "proof_nonce" >>= strOfJson, intact := ← fld j "intact" >>= boolOfJson }

def credDefOfJson (j : Json) : Option Issuance.CredDef := do
  pure { id := ← fld j "id" >>= strOfJson, key := ← fld j "key" >>= natOfJson, schemaAttrs := ← fld j "attrs" >>= listOfJson strOfJson }

def stepIssue (op : String) (j : Json) : Option Json :=
  match op with
  | "convert" => do
    let m ← fld j "meta" >>= legacyMetaOfJson
    let v ← fld j "values" >>= valuesOfJson
    pure (match toW3C m v with
      | none => errJ
      | some subj =>
        Json.mkObj [("subject", assocToJson subjValToJson subj),
                    ("back", match subjectEncode subj with | some b => valuesToJson b | none => errJ)])
  | "w3c_envelope" => do
    -- `@context` / `type` / `issuanceDate` of a stored W3C credential or presentation: version read and validity
    let cs ← fld j "ctx" >>= listOfJson envCtxOfJson
    let ts ← fld j "types" >>= listOfJson strOfJson
    let date ← fld j "date" >>= boolOfJson
    let kind ← fld j "kind" >>= strOfJson
    let valid := if kind == "presentation" then Envelope.presValid cs ts else Envelope.credValid ⟨cs, ts, date⟩
    pure (Json.mkObj [("valid", Json.bool valid),
                      ("version", match Envelope.version cs with | some .v11 => Json.str "1.1" | some .v20 => Json.str "2.0" | none => Json.null)])
  | "proof_doc" => do
    -- the `proof` member of a stored W3C credential: which proof the getters find, and the document written back
    let d ← fld j "doc" >>= pdDocOfJson
    let m := ProofDoc.parse d
    pure (Json.mkObj [("sig", optNatJ (ProofDoc.sigProof m)), ("pres", optNatJ (ProofDoc.presProof m)),
                      ("same", Json.bool (ProofDoc.emit m == some d))])
  | "convert_w3c" => do
    let m ← fld j "meta" >>= w3cMetaOfJson
    let subj ← fld j "subject" >>= assocOfJson subjValOfJson
    pure (match fromW3C m subj with
      | none => errJ
      | some v => Json.mkObj [("legacy", valuesToJson v), ("again", assocToJson subjValToJson (toSubject v))])
  | "issue" => do
    let cd ← fld j "cd" >>= credDefOfJson
    let offerNonce ← fld j "offer_nonce" >>= strOfJson
    let rj ← fld j "req"
    let req : CredRequest := { entropy := ← fld rj "entropy" >>= optStrOfJson, proverDid := ← fld rj "prover_did" >>= optStrOfJson,
                               blinded := ← fld rj "blinded" >>= blindedOfJson, nonce := ← fld rj "nonce" >>= strOfJson }
    let names ← fld j "value_names" >>= listOfJson strOfJson
    pure (Json.bool (createCredential cd { nonce := offerNonce } req (names.map (fun n => (n, "0")))).isSome)
  | "process" => do
    let cd ← fld j "cd" >>= credDefOfJson
    let sj ← fld j "sig"
    let sig : Signature := { key := ← fld sj "key" >>= natOfJson, attrs := ← fld sj "attrs" >>= strPairsOfJson,
                             holder := ← fld sj "holder" >>= natOfJson, blinding := ← fld sj "blinding" >>= natOfJson,
                             nonce := ← fld sj "nonce" >>= strOfJson, intact := ← fld sj "intact" >>= boolOfJson }
    let values ← fld j "values" >>= strPairsOfJson
    let mj ← fld j "meta"
    let m : ReqMeta := { blinding := ← fld mj "blinding" >>= natOfJson, nonce := ← fld mj "nonce" >>= strOfJson }
    let holder ← fld j "holder" >>= natOfJson
    pure (Json.bool (processCredential { values := values, sig := sig } m holder cd))
  | "issue_w3c" => do
    let cd ← fld j "cd" >>= credDefOfJson
    let offerNonce ← fld j "offer_nonce" >>= strOfJson
    let rj ← fld j "req"
    let req : CredRequest := { entropy := ← fld rj "entropy" >>= optStrOfJson, proverDid := ← fld rj "prover_did" >>= optStrOfJson,
                               blinded := ← fld rj "blinded" >>= blindedOfJson, nonce := ← fld rj "nonce" >>= strOfJson }
    let subj ← fld j "subject" >>= assocOfJson subjValOfJson
    pure (Json.bool (createCredentialW3C cd { nonce := offerNonce } req subj).isSome)
  | "process_w3c" => do
    let cd ← fld j "cd" >>= credDefOfJson
    let sj ← fld j "sig"
    let sig : Signature := { key := ← fld sj "key" >>= natOfJson, attrs := ← fld sj "attrs" >>= strPairsOfJson,
                             holder := ← fld sj "holder" >>= natOfJson, blinding := ← fld sj "blinding" >>= natOfJson,
                             nonce := ← fld sj "nonce" >>= strOfJson, intact := ← fld sj "intact" >>= boolOfJson }
    let subj ← fld j "subject" >>= assocOfJson subjValOfJson
    -- "the proof holds a credential signature": read from the `proof` member of the document when the harness sends its
    -- shape (Model/ProofDoc); the engine's own flag otherwise
    let sp ← (match j.getObjVal? "proof_doc" with
      | .ok dj => (pdDocOfJson dj).map (fun d => (ProofDoc.sigProof (ProofDoc.parse d)).isSome)
      | _ => fld j "sig_proof_ok" >>= boolOfJson)
    let mj ← fld j "meta"
    let m : ReqMeta := { blinding := ← fld mj "blinding" >>= natOfJson, nonce := ← fld mj "nonce" >>= strOfJson }
    let holder ← fld j "holder" >>= natOfJson
    pure (Json.bool (processCredentialW3C { subject := subj, sig := sig } sp m holder cd))
  | _ => none

end AnonModel.Driver

import Lean.Data.Json
import AnonModel.Model.Envelope
import AnonModel.Model.Verifier
import AnonModel.Model.VerifierW3C
import AnonModel.Driver.OpsInterval
import AnonModel.Driver.OpsQuery
/-!
Line-protocol handlers for the verifier models (C01 C02 C03 C05 C06 C08 C12).
Ops `verify_legacy`, `verify_w3c`: `{"ctx": …, "req": …, "pres": …}` → `{"v": "T"|"F"|"E"|"P"}`
(wire forms are documented in DESIGN Appendix C and produced by harness/src/abs.rs).
-/
open Lean
namespace AnonModel.Driver
open AnonModel.Verifier AnonModel.IdealCL

/-- restrictions on the wire: the canonical AST, or (harness built without unit hooks) `{"printed": j}`
with `j` the JSON the real serialiser printed, which is parsed by the model's own parser -/
def queryOfJson (j : Json) : Option AnonModel.Query.Query :=
  match j.getObjVal? "printed" with
  | .ok pj => AnonModel.Query.parseRestriction (toModelJson pj)
  | .error _ => astToQuery j

def intOfJson : Json → Option Int
  | .num n => if n.exponent = 0 then some n.mantissa else
      let p : Int := 10 ^ n.exponent
      if n.mantissa % p = 0 then some (n.mantissa / p) else none
  | _ => none

def strOfJson : Json → Option String
  | .str s => some s
  | _ => none

def listOfJson {α : Type} (f : Json → Option α) : Json → Option (List α)
  | .arr xs => xs.toList.mapM f
  | _ => none

/-- `[[key, value], …]` -/
def assocOfJson {α : Type} (f : Json → Option α) : Json → Option (List (String × α)) :=
  listOfJson fun
    | .arr #[.str k, v] => do pure (k, ← f v)
    | _ => none

def optOfJson {α : Type} (f : Json → Option α) : Json → Option (Option α)
  | .null => some none
  | j => (f j).map some

def predOfJson (j : Json) : Option Pred := do
  pure { attr := ← fld j "attr" >>= strOfJson, ty := ← fld j "ty" >>= strOfJson, value := ← fld j "value" >>= intOfJson }

def strPairsOfJson : Json → Option (List (String × String)) := assocOfJson strOfJson

def symCredOfJson (j : Json) : Option SymCred := do
  let rev ← fld j "rev" >>= optOfJson fun
    | .arr #[a, b] => do pure (← natOfJson a, ← natOfJson b)
    | _ => none
  pure { key := ← fld j "key" >>= natOfJson, attrs := ← fld j "attrs" >>= strPairsOfJson,
         holder := ← fld j "holder" >>= natOfJson, rev := rev }

def nrpOfJson (j : Json) : Option SymNrp := do
  pure { regKey := ← fld j "reg_key" >>= natOfJson, idx := ← fld j "idx" >>= natOfJson,
         acc := ← fld j "acc" >>= natOfJson, witOk := ← fld j "wit_ok" >>= boolOfJson }

def subOfJson (j : Json) : Option SymSub := do
  let ms ← match ← fld j "ms" with
    | .arr #[a, b] => do pure (← natOfJson a, ← natOfJson b)
    | _ => none
  pure { revealed := ← fld j "revealed" >>= strPairsOfJson, preds := ← fld j "preds" >>= listOfJson predOfJson,
         cred := ← fld j "cred" >>= symCredOfJson, nrp := ← fld j "nrp" >>= optOfJson nrpOfJson,
         ms := ms, intact := ← fld j "intact" >>= boolOfJson, uid := ← fld j "uid" >>= natOfJson }

def aggOfJson (j : Json) : Option SymAgg := do
  let bound ← fld j "bound" >>= listOfJson fun
    | .arr #[a, .bool b] => do pure (← natOfJson a, b)
    | _ => none
  pure { nonce := ← fld j "nonce" >>= strOfJson, bound := bound, intact := ← fld j "intact" >>= boolOfJson }

def attrInfoOfJson (j : Json) : Option AttrInfo := do
  pure { name := ← fld j "name" >>= optStrOfJson,
         names := ← fld j "names" >>= optOfJson (listOfJson strOfJson),
         restrictions := ← fld j "restrictions" >>= optOfJson queryOfJson,
         nonRevoked := ← fld j "non_revoked" >>= optIvlOfJson }

def predInfoOfJson (j : Json) : Option PredInfo := do
  pure { name := ← fld j "name" >>= strOfJson, ty := ← fld j "p_type" >>= strOfJson,
         value := ← fld j "p_value" >>= intOfJson,
         restrictions := ← fld j "restrictions" >>= optOfJson queryOfJson,
         nonRevoked := ← fld j "non_revoked" >>= optIvlOfJson }

def requestOfJson (j : Json) : Option Request := do
  pure { nonce := ← fld j "nonce" >>= strOfJson, attrs := ← fld j "attrs" >>= assocOfJson attrInfoOfJson,
         preds := ← fld j "preds" >>= assocOfJson predInfoOfJson, nonRevoked := ← fld j "non_revoked" >>= optIvlOfJson }

def ctxOfJson (j : Json) : Option Ctx := do
  let schemas ← fld j "schemas" >>= assocOfJson fun s => do
    pure ({ name := ← fld s "name" >>= strOfJson, version := ← fld s "version" >>= strOfJson,
            issuerId := ← fld s "issuer_id" >>= strOfJson,
            attrNames := ← fld s "attr_names" >>= listOfJson strOfJson } : SchemaInfo)
  let credDefs ← fld j "cred_defs" >>= assocOfJson fun s => do
    pure ({ issuerId := ← fld s "issuer_id" >>= strOfJson, key := ← fld s "key" >>= natOfJson,
            revocable := ← fld s "revocable" >>= boolOfJson } : CredDefInfo)
  let revRegDefs ← fld j "rev_reg_defs" >>= optOfJson (assocOfJson fun s => do
    pure ({ regKey := ← fld s "reg_key" >>= natOfJson } : RevRegDefInfo))
  let lists ← fld j "lists" >>= optOfJson (listOfJson fun s => do
    pure ({ regId := ← fld s "reg_id" >>= optStrOfJson, ts := ← fld s "ts" >>= optNatOfJson,
            acc := ← fld s "acc" >>= optNatOfJson } : StatusListInfo))
  pure { schemas := schemas, credDefs := credDefs, revRegDefs := revRegDefs, lists := lists,
         override := ← fld j "override" >>= overridesOfJson }

def identifierOfJson (j : Json) : Option Identifier := do
  pure { schemaId := ← fld j "schema_id" >>= strOfJson, credDefId := ← fld j "cred_def_id" >>= strOfJson,
         revRegId := ← fld j "rev_reg_id" >>= optStrOfJson, timestamp := ← fld j "timestamp" >>= optNatOfJson }

def presentationOfJson (j : Json) : Option Presentation := do
  let revealed ← fld j "revealed" >>= assocOfJson fun s => do
    pure ({ idx := ← fld s "idx" >>= natOfJson, raw := ← fld s "raw" >>= strOfJson,
            encoded := ← fld s "encoded" >>= strOfJson } : RevealedInfo)
  let groups ← fld j "groups" >>= assocOfJson fun s => do
    let values ← fld s "values" >>= assocOfJson fun
      | .arr #[.str raw, .str enc] => some (raw, enc)
      | _ => none
    pure ({ idx := ← fld s "idx" >>= natOfJson, values := values } : GroupInfo)
  pure { revealed := revealed, groups := groups,
         selfAttested := ← fld j "self_attested" >>= strPairsOfJson,
         unrevealed := ← fld j "unrevealed" >>= assocOfJson natOfJson,
         predicates := ← fld j "predicates" >>= assocOfJson natOfJson,
         identifiers := ← fld j "identifiers" >>= listOfJson identifierOfJson,
         subs := ← fld j "subs" >>= listOfJson subOfJson,
         agg := ← fld j "agg" >>= aggOfJson }

open AnonModel.VerifierW3C in
def subjValOfJson : Json → Option SubjVal
  | .str s => some (.str s)
  | .bool b => some (.bool b)
  | j => (intOfJson j).map .num

open AnonModel.VerifierW3C in
def w3cCredOfJson (j : Json) : Option VerifierW3C.Cred := do
  pure { issuer := ← fld j "issuer" >>= strOfJson, subject := ← fld j "subject" >>= assocOfJson subjValOfJson,
         proofOk := ← fld j "proof_ok" >>= boolOfJson,
         verificationMethod := ← fld j "verification_method" >>= strOfJson,
         schemaId := ← fld j "schema_id" >>= strOfJson, credDefId := ← fld j "cred_def_id" >>= strOfJson,
         revRegId := ← fld j "rev_reg_id" >>= optStrOfJson, timestamp := ← fld j "timestamp" >>= optNatOfJson,
         sub := ← fld j "sub" >>= subOfJson }

def envCtxOfJson (j : Json) : Option Envelope.Ctx :=
  match j.getObjVal? "uri", j.getObjVal? "obj" with
  | .ok (.str "v11"), _ => some (.uri .v11Base)
  | .ok (.str "v20"), _ => some (.uri .v20Base)
  | .ok (.str "di"), _ => some (.uri .dataIntegrity)
  | .ok u, _ => (natOfJson u).map (fun k => .uri (.other k))
  | _, .ok k => (natOfJson k).map .obj
  | _, _ => none

/-- `W3CPresentation::validate().is_ok()`: computed from the envelope the document shows (`env`) when the harness sends it;
the engine's own flag is then ignored -/
def validateOkOfJson (j : Json) : Option Bool :=
  match j.getObjVal? "env" with
  | .ok e => do
    let cs ← fld e "ctx" >>= listOfJson envCtxOfJson
    let ts ← fld e "types" >>= listOfJson strOfJson
    pure (Envelope.presValid cs ts)
  | _ => fld j "validate_ok" >>= boolOfJson

def w3cPresentationOfJson (j : Json) : Option VerifierW3C.Presentation := do
  pure { validateOk := ← validateOkOfJson j, creds := ← fld j "creds" >>= listOfJson w3cCredOfJson,
         presProofOk := ← fld j "pres_proof_ok" >>= boolOfJson, agg := ← fld j "agg" >>= aggOfJson }

def outcomeToJson : Outcome → Json
  | .ok true => Json.mkObj [("v", "T")]
  | .ok false => Json.mkObj [("v", "F")]
  | .err => Json.mkObj [("v", "E")]
  | .panic s => Json.mkObj [("v", "P"), ("site", Json.num (JsonNumber.fromNat s))]

def stepVerify (op : String) (j : Json) : Option Json :=
  match op with
  | "verify_legacy" => do
    let ctx ← fld j "ctx" >>= ctxOfJson
    let req ← fld j "req" >>= requestOfJson
    let pres ← fld j "pres" >>= presentationOfJson
    pure (outcomeToJson (verifyLegacy ctx req pres))
  | "verify_w3c" => do
    let ctx ← fld j "ctx" >>= ctxOfJson
    let req ← fld j "req" >>= requestOfJson
    let pres ← fld j "pres" >>= w3cPresentationOfJson
    pure (outcomeToJson (VerifierW3C.verifyW3C ctx req pres))
  | "verify_legacy_dbg" => do
    let ctx ← fld j "ctx" >>= ctxOfJson
    let r ← fld j "req" >>= requestOfJson
    let p ← fld j "pres" >>= presentationOfJson
    let cs := subCtxs ctx r p
    pure (Json.mkObj [
      ("indicesOk", indicesOk p), ("uniqueReferents", uniqueReferents p), ("compareAttrs", compareAttrs r p),
      ("revealedValuesOk", revealedValuesOk r p), ("unrevealedOk", unrevealedOk ctx r p), ("predicatesOk", predicatesOk r p),
      ("restrictions", outcomeToJson (restrictionsOutcome ctx r p)), ("listsOk", listsOk ctx),
      ("subCtxs", cs.isSome),
      ("subCtxEach", Json.arr ((List.range p.identifiers.length).map (fun i =>
          match p.identifiers[i]? with
          | none => Json.null
          | some id => Json.bool (subCtxFor ctx r p i id).isSome)).toArray),
      ("cl", match cs with
        | none => Json.null
        | some cs => match IdealCL.verify cs p.subs p.agg r.nonce true with
          | none => Json.str "err"
          | some b => Json.bool b),
      ("primary", match cs with
        | none => Json.null
        | some cs => Json.arr ((cs.zip p.subs).map (fun x => Json.bool (primaryOk x.1 x.2))).toArray),
      ("nrp", match cs with
        | none => Json.null
        | some cs => Json.arr ((cs.zip p.subs).map (fun x => Json.arr #[Json.bool (nrpChecked x.1 x.2), Json.bool (nrpOk x.1 x.2)])).toArray)])
  | "verify_w3c_dbg" => do
    let ctx ← fld j "ctx" >>= ctxOfJson
    let r ← fld j "req" >>= requestOfJson
    let p ← fld j "pres" >>= w3cPresentationOfJson
    let cs := p.creds.mapM (VerifierW3C.subCtxFor ctx)
    pure (Json.mkObj [
      ("validateOk", p.validateOk), ("proofOk", p.creds.all (·.proofOk)),
      ("attrs", Json.arr (r.attrs.map (fun kv => Json.arr #[Json.str kv.1, Json.bool (kv.2.allNames.all (fun n => VerifierW3C.requestedAttributeOk ctx r p n kv.2.restrictions kv.2.nonRevoked))])).toArray),
      ("preds", Json.arr (r.preds.map (fun kv => Json.arr #[Json.str kv.1, Json.bool (VerifierW3C.requestedPredicateOk ctx r p kv.2)])).toArray),
      ("issuersOk", VerifierW3C.issuersOk ctx p), ("subjectsOk", VerifierW3C.subjectsOk p), ("presProofOk", p.presProofOk),
      ("listsOk", listsOk ctx), ("subCtxs", cs.isSome),
      ("cl", match cs with
        | none => Json.null
        | some cs => match IdealCL.verify cs (p.creds.map (·.sub)) p.agg r.nonce true with
          | none => Json.str "err"
          | some b => Json.bool b),
      ("primary", match cs with
        | none => Json.null
        | some cs => Json.arr ((cs.zip (p.creds.map (·.sub))).map (fun x => Json.bool (primaryOk x.1 x.2))).toArray),
      ("nrp", match cs with
        | none => Json.null
        | some cs => Json.arr ((cs.zip (p.creds.map (·.sub))).map (fun x => Json.arr #[Json.bool (nrpChecked x.1 x.2), Json.bool (nrpOk x.1 x.2)])).toArray)])
  | _ => none

end AnonModel.Driver

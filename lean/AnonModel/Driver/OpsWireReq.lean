import Lean.Data.Json
import AnonModel.Model.WireReq
import AnonModel.Driver.OpsQuery
/-!
Line-protocol handler for the codec of `PresentationRequest` (C15): op `codec_req`.

Input `{"op":"codec_req","doc": <any JSON>}`. Output: `{"err":true}` if
`serde_json::from_value::<PresentationRequest>(doc)` fails (`WireReq.reqDe = none`), else the
document `serde_json::to_value(&request)` (`WireReq.reqSer`): a JSON object with the members
`name`, `non_revoked`, `nonce`, `requested_attributes`, `requested_predicates`, `ver`, `version`;
numbers as JSON numbers, absent options as `null` (except `name` / `names` of an attribute, which
are omitted).

Numbers. The model type `Json.num (n : Int)` has integers only and reads an integer outside
`[-2^63, 2^64)` the way serde_json does: as a float, which no numeric member of a request accepts
(`u64`, `i32`, nonce, nonce bytes) and which is harmless where any value is ignored.
`OpsQuery.toModelJson` keeps the mantissa and drops the exponent (`1.5` ↦ `15`), which is fine for
restrictions (any number is an error there) but not here, so `floatsOut` first replaces every
literal with a fraction (`exponent ≠ 0` in `Lean.JsonNumber`) by `2^64`, the model's "float".
Limitation of the Lean JSON reader: `1e2`, `1.5e1` and `-0` arrive as the integers `100`, `15`, `0`
(serde_json reads them as floats and rejects them); generators must not emit such literals.
-/
open Lean
namespace AnonModel.Driver

/-- the model's stand-in for "a float": an integer outside `[-2^63, 2^64)` -/
def floatStandIn : JsonNumber := JsonNumber.fromNat (2 ^ 64)

/-- replace every number with a fractional part by `floatStandIn` -/
partial def floatsOut : Lean.Json → Lean.Json
  | .num n => if n.exponent ≠ 0 then .num floatStandIn else .num n
  | .arr a => .arr (a.map floatsOut)
  | .obj kvs => Lean.Json.mkObj (kvs.toList.map fun kv => (kv.1, floatsOut kv.2))
  | j => j

/-- wire value → model value for `codec_req` -/
def toReqJson (j : Lean.Json) : AnonModel.Json.Json := toModelJson (floatsOut j)

def stepWireReq (op : String) (j : Lean.Json) : Option Lean.Json :=
  match op with
  | "codec_req" =>
    match field j "doc" with
    | some d =>
      some (match AnonModel.WireReq.reqDe (toReqJson d) with
        | some r => ofModelJson (AnonModel.WireReq.reqSer r)
        | none => errJson)
    | none => none
  | _ => none

end AnonModel.Driver

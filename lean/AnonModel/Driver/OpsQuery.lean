import Lean.Data.Json
import AnonModel.Model.Query
/-!
Line-protocol handlers for the WQL restriction language (C16, evaluation core of C06).

Canonical AST encoding of a `Query` on the wire:
`{"and":[q…]}`, `{"or":[q…]}`, `{"not":q}`, `{"eq":[k,v]}`, `{"neq":[k,v]}`, `{"gt":[k,v]}`,
`{"gte":[k,v]}`, `{"lt":[k,v]}`, `{"lte":[k,v]}`, `{"like":[k,v]}`, `{"in":[k,[v…]]}`,
`{"exist":[k…]}`.

Ops (`none` for any other op or a malformed request):
* `q_parse` `{"j": any}` → AST or `{"err":true}` (`serde_json::from_value::<Query>`)
* `q_print` `{"q": AST}` → the JSON value of `to_value`
* `q_names` `{"q": AST}` → `[string…]` in `get_name` order
* `q_validate` `{"v1": bool, "q": AST}` → bool (`_process_operator(..).is_ok()`)
* `req_validate` `{"v1": bool, "attrs":[{"name","names","restrictions"}], "preds":[{"name","restrictions"}]}` → bool
* `q_eval` `{"q": AST, "filter": {…six strings…}, "values": [[name, string|null]…]}` → bool
* `q_selfattest_ok` `{"restrictions": AST|null, "self_attested": bool}` → bool (`is_self_attested`)
-/
open Lean
namespace AnonModel.Driver

/-- wire value → model value. Objects: entries in increasing key order, keys unique
(`Lean.Json.obj` is a tree map ordered by `compare` on `String`, i.e. lexicographic by
code point, which coincides with the byte order of `BTreeMap<String, _>` on UTF-8).
Numbers: only "is a number" matters to the model; the mantissa is kept. -/
partial def toModelJson : Lean.Json → AnonModel.Json.Json
  | .null => .null
  | .bool b => .bool b
  | .num n => .num n.mantissa
  | .str s => .str s
  | .arr a => .arr (a.toList.map toModelJson)
  | .obj kvs => .obj (kvs.toList.map fun kv => (kv.1, toModelJson kv.2))

mutual
/-- model value → wire value -/
def ofModelJson : AnonModel.Json.Json → Lean.Json
  | .null => .null
  | .bool b => .bool b
  | .num n => .num (JsonNumber.fromInt n)
  | .str s => .str s
  | .arr xs => .arr (ofModelList xs).toArray
  | .obj kvs => Lean.Json.mkObj (ofModelEntries kvs)
def ofModelList : List AnonModel.Json.Json → List Lean.Json
  | [] => []
  | j :: r => ofModelJson j :: ofModelList r
def ofModelEntries : List (String × AnonModel.Json.Json) → List (String × Lean.Json)
  | [] => []
  | (k, v) :: r => (k, ofModelJson v) :: ofModelEntries r
end

def strOf : Lean.Json → Option String
  | .str s => some s
  | _ => none

def strListOf : Lean.Json → Option (List String)
  | .arr a => a.toList.mapM strOf
  | _ => none

def boolOf : Lean.Json → Option Bool
  | .bool b => some b
  | _ => none

def field (j : Lean.Json) (k : String) : Option Lean.Json :=
  match j.getObjVal? k with
  | .ok v => some v
  | .error _ => none

/-- the single entry of a one-key object -/
def singleEntry : Lean.Json → Option (String × Lean.Json)
  | .obj kvs => match kvs.toList with
    | [kv] => some kv
    | _ => none
  | _ => none

open AnonModel.Query in
/-- canonical AST → `Query` -/
partial def astToQuery (j : Lean.Json) : Option Query :=
  match singleEntry j with
  | none => none
  | some (tag, body) =>
    let kv (mk : String → String → Query) : Option Query :=
      match body with
      | .arr #[.str k, .str v] => some (mk k v)
      | _ => none
    match tag with
    | "and" => (match body with | .arr a => (a.toList.mapM astToQuery).map Query.and | _ => none)
    | "or" => (match body with | .arr a => (a.toList.mapM astToQuery).map Query.or | _ => none)
    | "not" => (astToQuery body).map Query.not
    | "eq" => kv Query.eq
    | "neq" => kv Query.neq
    | "gt" => kv Query.gt
    | "gte" => kv Query.gte
    | "lt" => kv Query.lt
    | "lte" => kv Query.lte
    | "like" => kv Query.like
    | "in" =>
      (match body with
       | .arr #[.str k, vs] => (strListOf vs).map (Query.isIn k)
       | _ => none)
    | "exist" => (strListOf body).map Query.exist
    | _ => none

def strArr (l : List String) : Lean.Json := .arr (l.map Lean.Json.str).toArray

open AnonModel.Query in
mutual
/-- `Query` → canonical AST -/
def queryToAst : Query → Lean.Json
  | .and l => Lean.Json.mkObj [("and", .arr (queryListToAst l).toArray)]
  | .or l => Lean.Json.mkObj [("or", .arr (queryListToAst l).toArray)]
  | .not q => Lean.Json.mkObj [("not", queryToAst q)]
  | .eq k v => Lean.Json.mkObj [("eq", strArr [k, v])]
  | .neq k v => Lean.Json.mkObj [("neq", strArr [k, v])]
  | .gt k v => Lean.Json.mkObj [("gt", strArr [k, v])]
  | .gte k v => Lean.Json.mkObj [("gte", strArr [k, v])]
  | .lt k v => Lean.Json.mkObj [("lt", strArr [k, v])]
  | .lte k v => Lean.Json.mkObj [("lte", strArr [k, v])]
  | .like k v => Lean.Json.mkObj [("like", strArr [k, v])]
  | .isIn k vs => Lean.Json.mkObj [("in", .arr #[.str k, strArr vs])]
  | .exist ks => Lean.Json.mkObj [("exist", strArr ks)]
def queryListToAst : List Query → List Lean.Json
  | [] => []
  | q :: r => queryToAst q :: queryListToAst r
end

def errJson : Lean.Json := Lean.Json.mkObj [("err", .bool true)]

/-- `AST | null` → `Option Query` (outer `none`: malformed) -/
def optAst : Lean.Json → Option (Option AnonModel.Query.Query)
  | .null => some none
  | j => (astToQuery j).map some

/-- `string | null` -/
def optStr : Lean.Json → Option (Option String)
  | .null => some none
  | .str s => some (some s)
  | _ => none

/-- `[string…] | null` -/
def optStrList : Lean.Json → Option (Option (List String))
  | .null => some none
  | j => (strListOf j).map some

def attrOf (j : Lean.Json) :
    Option (Option String × Option (List String) × Option AnonModel.Query.Query) := do
  let n ← optStr ((field j "name").getD .null)
  let ns ← optStrList ((field j "names").getD .null)
  let r ← optAst ((field j "restrictions").getD .null)
  pure (n, ns, r)

def predOf (j : Lean.Json) : Option (String × Option AnonModel.Query.Query) := do
  let n ← (field j "name").bind strOf
  let r ← optAst ((field j "restrictions").getD .null)
  pure (n, r)

def filterOf (j : Lean.Json) : Option AnonModel.Query.Filter := do
  let g (k : String) : Option String := (field j k).bind strOf
  pure { schemaId := ← g "schema_id", schemaIssuerId := ← g "schema_issuer_id",
         schemaName := ← g "schema_name", schemaVersion := ← g "schema_version",
         issuerId := ← g "issuer_id", credDefId := ← g "cred_def_id" }

def valueOf : Lean.Json → Option (String × Option String)
  | .arr #[.str n, v] => (optStr v).map fun o => (n, o)
  | _ => none

def listOf (j : Lean.Json) (k : String) : Option (List Lean.Json) :=
  match field j k with
  | some (.arr a) => some a.toList
  | _ => none

def stepQuery (legacyDid isUri : String → Bool) (op : String) (j : Lean.Json) : Option Lean.Json :=
  match op with
  | "q_parse" => do
    let v ← field j "j"
    pure (match AnonModel.Query.parseRestriction (toModelJson v) with
      | some q => queryToAst q
      | none => errJson)
  | "q_print" => do
    let q ← (field j "q").bind astToQuery
    pure (ofModelJson (AnonModel.Query.print q))
  | "q_names" => do
    let q ← (field j "q").bind astToQuery
    pure (strArr (AnonModel.Query.names q))
  | "q_validate" => do
    let v1 ← (field j "v1").bind boolOf
    let q ← (field j "q").bind astToQuery
    pure (.bool (AnonModel.Query.validateQuery isUri v1 q))
  | "req_validate" => do
    let v1 ← (field j "v1").bind boolOf
    let attrs ← (← listOf j "attrs").mapM attrOf
    let preds ← (← listOf j "preds").mapM predOf
    pure (.bool (AnonModel.Query.validateRequest isUri v1 attrs preds))
  | "q_eval" => do
    let q ← (field j "q").bind astToQuery
    let f ← (field j "filter").bind filterOf
    let vals ← (← listOf j "values").mapM valueOf
    pure (.bool (AnonModel.Query.eval legacyDid vals f q))
  | "q_selfattest_ok" => do
    let r ← optAst ((field j "restrictions").getD .null)
    let s ← (field j "self_attested").bind boolOf
    pure (.bool (AnonModel.Query.isSelfAttested r s))
  | _ => none

end AnonModel.Driver

import Lean.Data.Json
import AnonModel.Model.Encode
import AnonModel.Driver.OpsInterval
import AnonModel.Driver.OpsIdent
import AnonModel.Driver.OpsQuery
import AnonModel.Driver.OpsStatusList
import AnonModel.Driver.OpsVerify
import AnonModel.Driver.OpsProver
import AnonModel.Driver.OpsStore
import AnonModel.Driver.OpsTails
import AnonModel.Driver.OpsWire
import AnonModel.Driver.OpsWireReq
import AnonModel.Driver.OpsMp
import AnonModel.Driver.OpsIssue
import AnonModel.Driver.OpsMeets
import AnonModel.Model.Ident
/-! Dispatch of line-protocol operations to model functions. -/
open Lean
namespace AnonModel.Driver

def getStr (j : Json) (k : String) : Option String :=
  match j.getObjVal? k with
  | .ok (.str s) => some s
  | _ => none

def optInt : Option Int → Json
  | some n => Json.num (JsonNumber.fromInt n)
  | none => Json.null

def badOp : Json := Json.mkObj [("bad_op", Json.bool true)]

def stepEncode (op : String) (j : Json) : Option Json :=
  match op, getStr j "s" with
  | "enc", some s => some (Json.str (Encode.encode s))
  | "norm_enc", some s => some (Json.str (Encode.normalizeEnc s))
  | "parse_i32", some s => some (optInt (Encode.parseI32 s.toList))
  | _, _ => none

def step (j : Json) : Json :=
  match getStr j "op" with
  | none => badOp
  | some op =>
    match stepEncode op j with
    | some r => r
    | none =>
    match stepInterval op j with
    | some r => r
    | none =>
    match stepIdent op j with
    | some r => r
    | none =>
    match stepQuery Ident.isLegacyDid Ident.isUri op j with
    | some r => r
    | none =>
    match stepStatusList op j with
    | some r => r
    | none =>
    match stepVerify op j with
    | some r => r
    | none =>
    match stepProver op j with
    | some r => r
    | none =>
    match stepStore op j with
    | some r => r
    | none =>
    match stepTails op j with
    | some r => r
    | none =>
    match stepWire op j with
    | some r => r
    | none =>
    match stepIssue op j with
    | some r => r
    | none =>
    match stepMeets op j with
    | some r => r
    | none =>
    match stepWireReq op j with
    | some r => r
    | none =>
    match stepMp op j with
    | some r => r
    | none => badOp

end AnonModel.Driver

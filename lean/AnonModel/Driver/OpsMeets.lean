import Lean.Data.Json
import AnonModel.Props.C04Defs
import AnonModel.Driver.OpsVerify
import AnonModel.Driver.OpsProver
/-!
Line-protocol handlers measuring the hypotheses of C04 on the flows the harness generates.
Ops `meets_legacy`: `{"ctx", "pctx", "req", "sel", "self_attested"}` and `meets_w3c`:
`{"ctx", "pctx", "req", "sel"}` (wire forms as in `verify_legacy` / `present_legacy` / `present_w3c`)
→ `{"meets": bool, "failed": [names of the conjuncts of meetsDemands / meetsDemandsW3C that are false]}`.
-/
open Lean
namespace AnonModel.Driver
open AnonModel.Verifier AnonModel.Prover

def meetsToJson (meets : Bool) (conjuncts : List (String × Bool)) : Json :=
  Json.mkObj [("meets", Json.bool meets),
    ("failed", Json.arr ((conjuncts.filter (fun c => !c.2)).map (fun c => Json.str c.1)).toArray)]

def stepMeets (op : String) (j : Json) : Option Json :=
  match op with
  | "meets_legacy" => do
    let ctx ← fld j "ctx" >>= ctxOfJson
    let pc ← fld j "pctx" >>= pctxOfJson
    let r ← fld j "req" >>= requestOfJson
    let sel ← fld j "sel" >>= listOfJson selectedOfJson
    let sa ← fld j "self_attested" >>= strPairsOfJson
    pure (meetsToJson (meetsDemands ctx pc r sel sa) (meetsConjuncts ctx pc r sel sa))
  | "meets_w3c" => do
    let ctx ← fld j "ctx" >>= ctxOfJson
    let pc ← fld j "pctx" >>= pctxOfJson
    let r ← fld j "req" >>= requestOfJson
    let sel ← fld j "sel" >>= listOfJson selectedW3COfJson
    pure (meetsToJson (meetsDemandsW3C ctx pc r sel) (meetsConjunctsW3C ctx pc r sel))
  | _ => none

end AnonModel.Driver

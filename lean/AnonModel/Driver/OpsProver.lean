import Lean.Data.Json
import AnonModel.Model.Prover
import AnonModel.Driver.OpsVerify
/-!
Line-protocol handlers for the prover models (C04, C07).
Ops `present_legacy`, `present_w3c`: `{"pctx", "req", "sel", "self_attested", "holder", "session", "uid0"}`
→ the presentation in the wire form of `verify_legacy` / `verify_w3c` (maps sorted by key, revealed
values sorted by name, predicates sorted by (attr, ty, value)) or `{"err": true}`.
-/
open Lean
namespace AnonModel.Driver
open AnonModel.Verifier AnonModel.IdealCL AnonModel.Prover

def natJ (n : Nat) : Json := Json.num (JsonNumber.fromNat n)
def intJ (n : Int) : Json := Json.num (JsonNumber.fromInt n)
def optNatJ : Option Nat → Json
  | some n => natJ n
  | none => Json.null
def optStrJ : Option String → Json
  | some s => Json.str s
  | none => Json.null

def sortBy {α : Type} (lt : α → α → Bool) (l : List α) : List α := (l.toArray.qsort lt).toList

def strLt (a b : String) : Bool := a < b

def predLt (a b : Pred) : Bool :=
  a.attr < b.attr || (a.attr == b.attr && (a.ty < b.ty || (a.ty == b.ty && a.value < b.value)))

def symCredToJson (c : SymCred) : Json :=
  Json.mkObj [("key", natJ c.key),
    ("attrs", Json.arr ((sortBy (fun a b => strLt a.1 b.1) c.attrs).map (fun kv => Json.arr #[Json.str kv.1, Json.str kv.2])).toArray),
    ("holder", natJ c.holder),
    ("rev", match c.rev with | some (a, b) => Json.arr #[natJ a, natJ b] | none => Json.null)]

def nrpToJson (n : SymNrp) : Json :=
  Json.mkObj [("reg_key", natJ n.regKey), ("idx", natJ n.idx), ("acc", natJ n.acc), ("wit_ok", Json.bool n.witOk)]

def subToJson (s : SymSub) : Json :=
  Json.mkObj [
    ("revealed", Json.arr ((sortBy (fun a b => strLt a.1 b.1) s.revealed).map (fun kv => Json.arr #[Json.str kv.1, Json.str kv.2])).toArray),
    ("preds", Json.arr ((sortBy predLt s.preds).map (fun p => Json.mkObj [("attr", Json.str p.attr), ("ty", Json.str p.ty), ("value", intJ p.value)])).toArray),
    ("cred", symCredToJson s.cred),
    ("nrp", match s.nrp with | some n => nrpToJson n | none => Json.null),
    ("ms", Json.arr #[natJ s.ms.1, natJ s.ms.2]), ("intact", Json.bool s.intact), ("uid", natJ s.uid)]

def aggToJson (a : SymAgg) : Json :=
  Json.mkObj [("nonce", Json.str a.nonce),
    ("bound", Json.arr (a.bound.map (fun x => Json.arr #[natJ x.1, Json.bool x.2])).toArray),
    ("intact", Json.bool a.intact)]

def assocToJson {α : Type} (f : α → Json) (m : List (String × α)) : Json :=
  Json.arr ((sortBy (fun a b => strLt a.1 b.1) m).map (fun kv => Json.arr #[Json.str kv.1, f kv.2])).toArray

def presentationToJson (p : Presentation) : Json :=
  Json.mkObj [
    ("revealed", assocToJson (fun (i : RevealedInfo) => Json.mkObj [("idx", natJ i.idx), ("raw", Json.str i.raw), ("encoded", Json.str i.encoded)]) p.revealed),
    ("groups", assocToJson (fun (g : GroupInfo) => Json.mkObj [("idx", natJ g.idx),
        ("values", assocToJson (fun (re : String × String) => Json.arr #[Json.str re.1, Json.str re.2]) g.values)]) p.groups),
    ("self_attested", assocToJson Json.str p.selfAttested),
    ("unrevealed", assocToJson natJ p.unrevealed),
    ("predicates", assocToJson natJ p.predicates),
    ("identifiers", Json.arr (p.identifiers.map (fun i => Json.mkObj [("schema_id", Json.str i.schemaId), ("cred_def_id", Json.str i.credDefId),
        ("rev_reg_id", optStrJ i.revRegId), ("timestamp", optNatJ i.timestamp)])).toArray),
    ("subs", Json.arr (p.subs.map subToJson).toArray),
    ("agg", aggToJson p.agg)]

open AnonModel.VerifierW3C in
def subjValToJson : SubjVal → Json
  | .str s => Json.str s
  | .num n => intJ n
  | .bool b => Json.bool b

def envCtxToJson : Envelope.Ctx → Json
  | .uri .v11Base => Json.mkObj [("uri", "v11")]
  | .uri .v20Base => Json.mkObj [("uri", "v20")]
  | .uri .dataIntegrity => Json.mkObj [("uri", "di")]
  | .uri (.other k) => Json.mkObj [("uri", natJ k)]
  | .obj k => Json.mkObj [("obj", natJ k)]

/-- the envelope `W3CPresentation::new` writes for the default data-model version (the harness presents with `version = None`) -/
def libraryPresentationEnv : Json :=
  Json.mkObj [("ctx", Json.arr ((Envelope.libraryContexts .v11).map envCtxToJson).toArray),
              ("types", Json.arr #[Json.str Envelope.presentationType])]

def w3cPresentationToJson (p : VerifierW3C.Presentation) : Json :=
  Json.mkObj [("validate_ok", Json.bool p.validateOk), ("env", libraryPresentationEnv),
    ("creds", Json.arr (p.creds.map (fun c => Json.mkObj [
        ("issuer", Json.str c.issuer), ("subject", assocToJson subjValToJson c.subject), ("proof_ok", Json.bool c.proofOk),
        ("verification_method", Json.str c.verificationMethod), ("schema_id", Json.str c.schemaId),
        ("cred_def_id", Json.str c.credDefId), ("rev_reg_id", optStrJ c.revRegId), ("timestamp", optNatJ c.timestamp),
        ("sub", subToJson c.sub)])).toArray),
    ("pres_proof_ok", Json.bool p.presProofOk), ("agg", aggToJson p.agg)]

def pctxOfJson (j : Json) : Option PCtx := do
  pure { schemas := ← fld j "schemas" >>= assocOfJson (listOfJson strOfJson),
         credDefs := ← fld j "cred_defs" >>= listOfJson strOfJson }

def refFlagsOfJson : Json → Option (List (String × Bool)) :=
  listOfJson fun
    | .arr #[.str r, .bool b] => some (r, b)
    | _ => none

def selectedOfJson (j : Json) : Option Selected := do
  let c ← fld j "cred"
  let values ← fld c "values" >>= assocOfJson fun
    | .arr #[.str raw, .str enc] => some (raw, enc)
    | _ => none
  pure { cred := { schemaId := ← fld c "schema_id" >>= strOfJson, credDefId := ← fld c "cred_def_id" >>= strOfJson,
                   revRegId := ← fld c "rev_reg_id" >>= optStrOfJson, values := values,
                   sym := ← fld c "sym" >>= symCredOfJson },
         timestamp := ← fld j "timestamp" >>= optNatOfJson,
         revState := ← fld j "rev_state" >>= optOfJson nrpOfJson,
         attrs := ← fld j "attrs" >>= refFlagsOfJson,
         preds := ← fld j "preds" >>= listOfJson strOfJson }

def selectedW3COfJson (j : Json) : Option SelectedW3C := do
  let c ← fld j "cred"
  pure { cred := { issuer := ← fld c "issuer" >>= strOfJson, schemaId := ← fld c "schema_id" >>= strOfJson,
                   credDefId := ← fld c "cred_def_id" >>= strOfJson, revRegId := ← fld c "rev_reg_id" >>= optStrOfJson,
                   subject := ← fld c "subject" >>= assocOfJson subjValOfJson,
                   sym := ← fld c "sym" >>= symCredOfJson },
         timestamp := ← fld j "timestamp" >>= optNatOfJson,
         revState := ← fld j "rev_state" >>= optOfJson nrpOfJson,
         attrs := ← fld j "attrs" >>= refFlagsOfJson,
         preds := ← fld j "preds" >>= listOfJson strOfJson }

def errJ : Json := Json.mkObj [("err", Json.bool true)]

def stepProver (op : String) (j : Json) : Option Json :=
  match op with
  | "present_legacy" => do
    let pc ← fld j "pctx" >>= pctxOfJson
    let r ← fld j "req" >>= requestOfJson
    let sel ← fld j "sel" >>= listOfJson selectedOfJson
    let sa ← fld j "self_attested" >>= strPairsOfJson
    let holder ← fld j "holder" >>= natOfJson
    let session ← fld j "session" >>= natOfJson
    let uid0 ← fld j "uid0" >>= natOfJson
    pure (match createPresentation pc r sel sa holder session uid0 with
      | some p => presentationToJson p
      | none => errJ)
  | "present_w3c" => do
    let pc ← fld j "pctx" >>= pctxOfJson
    let r ← fld j "req" >>= requestOfJson
    let sel ← fld j "sel" >>= listOfJson selectedW3COfJson
    let holder ← fld j "holder" >>= natOfJson
    let session ← fld j "session" >>= natOfJson
    let uid0 ← fld j "uid0" >>= natOfJson
    pure (match createPresentationW3C pc r sel holder session uid0 with
      | some p => w3cPresentationToJson p
      | none => errJ)
  | _ => none

end AnonModel.Driver

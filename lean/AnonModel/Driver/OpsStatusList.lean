import Lean.Data.Json
import AnonModel.Model.StatusList
/-!
Line-protocol handler for the status-list / witness model (C09, C10).

Op `sl_run`, input
`{"size": L, "by_default": bool, "ts": n|null,
  "ops": [{"kind":"update","issued":[n…]|null,"revoked":[n…]|null,"ts":n|null} | {"kind":"ts_only","ts":n}],
  "queries": [{"q":"scratch","state":i,"k":k} | {"q":"update","from":i,"to":j,"k":k,"w":r} | {"q":"issue","state":i,"k":k}]}`
(`queries` may be absent; optional fields may be absent instead of `null`).

Output `{"states":[{"bits":[0|1…],"ts":n|null,"acc_class":c}…], "queries":[{"ok":b,"valid":b,"wit_class":c[,"embeds_class":e]}…]}`:
* `states`: the created list, then the list after every op; `acc_class` = index of the
  first state of the run with an equal accumulator vector (equivalence pattern);
* per query: `ok` — the derivation returned a value rather than `Err`; `valid` —
  `WitnessValid` of the derived witness against the accumulator of the list it is for
  (`scratch`: `state`; `update`: `to`; `issue`: the accumulator embedded in the
  credential); `wit_class` — index of the first query with an equal witness (compared as
  group elements, i.e. as tail-index vectors `tailVec`, so witnesses for different `k`
  are comparable), own index if none or if not `ok`; `embeds_class` (`issue` only) — index of the
  first state whose accumulator equals the embedded one, `-1` if none or not `ok`.
* `"w": r` refers to the witness derived by query `r` (must be an earlier query **for the
  same `k`** — a witness vector is relative to its index; anything else is malformed);
  if query `r` was not `ok`, neither is this one.

`none` (→ `bad_op`) for other ops and malformed input (state index out of range, bad
reference, wrong types, negative numbers).
-/
open Lean
namespace AnonModel.Driver.SL
open AnonModel.StatusList

/-- absent or `null` ↦ `some none`; natural number ↦ `some (some n)`; else malformed -/
def optNat (j : Json) (k : String) : Option (Option Nat) :=
  match j.getObjVal? k with
  | .error _ => some none
  | .ok v =>
    if v.isNull then some none else
    match v.getNat? with
    | .ok n => some (some n)
    | .error _ => none

def reqNat (j : Json) (k : String) : Option Nat :=
  match j.getObjVal? k with
  | .ok v => v.getNat?.toOption
  | .error _ => none

def natList (v : Json) : Option (List Nat) :=
  match v.getArr? with
  | .ok a => a.toList.mapM fun x => x.getNat?.toOption
  | .error _ => none

/-- absent or `null` ↦ `some none`; array of naturals ↦ `some (some l)`; else malformed -/
def optNatList (j : Json) (k : String) : Option (Option (List Nat)) :=
  match j.getObjVal? k with
  | .error _ => some none
  | .ok v => if v.isNull then some none else (natList v).map some

def strField (j : Json) (k : String) : Option String :=
  match j.getObjVal? k with
  | .ok (.str s) => some s
  | _ => none

def parseOp (j : Json) : Option Op :=
  match strField j "kind" with
  | some "update" => do
    let i ← optNatList j "issued"
    let r ← optNatList j "revoked"
    let t ← optNat j "ts"
    pure (.update i r t)
  | some "ts_only" => do
    let t ← reqNat j "ts"
    pure (.tsOnly t)
  | _ => none

inductive Query where
  | scratch (state k : Nat)
  | upd (fromS toS k w : Nat)
  | issue (state k : Nat)

def parseQuery (j : Json) : Option Query :=
  match strField j "q" with
  | some "scratch" => do pure (.scratch (← reqNat j "state") (← reqNat j "k"))
  | some "update" => do
    pure (.upd (← reqNat j "from") (← reqNat j "to") (← reqNat j "k") (← reqNat j "w"))
  | some "issue" => do pure (.issue (← reqNat j "state") (← reqNat j "k"))
  | _ => none

/-- materialised vector (indices `< n`); `vecOf n a = vecOf n b ↔ accEqB n a b` -/
def vecOf (n : Nat) (A : Acc) : List Int := (List.range n).map A

/-- outcome of one query -/
structure QRes where
  k : Nat
  wit : Option Acc
  valid : Bool
  isIssue : Bool
  /-- the witness as a group element: its tail-index vector (tail indices are `≤ 2L+1`) -/
  tailV : Option (List Int)
  /-- `issue` only: vector of the embedded accumulator, if issuance succeeded -/
  embedded : Option (List Int)

def failed (k : Nat) (isIssue : Bool) : QRes :=
  { k := k, wit := none, valid := false, isIssue := isIssue, tailV := none, embedded := none }

def derived (L k : Nat) (w A : Acc) (isIssue : Bool) : QRes :=
  { k := k, wit := some w, valid := witnessValidB (L + 1) k A w, isIssue := isIssue,
    tailV := some (vecOf (2 * L + 2) (tailVec L k w)),
    embedded := if isIssue then some (vecOf (L + 1) A) else none }

/-- `none` = malformed -/
def evalQuery (L : Nat) (states : Array SL) (prev : Array QRes) : Query → Option QRes
  | .scratch i k => do
    let s ← states[i]?
    match witnessScratch L s k with
    | none => pure (failed k false)
    | some w => pure (derived L k w s.acc false)
  | .upd i j k r => do
    let old ← states[i]?
    let new ← states[j]?
    let src ← prev[r]?
    if src.k ≠ k then none else
    match src.wit with
    | none => pure (failed k false)
    | some w =>
      match witnessUpdate L w old new k with
      | none => pure (failed k false)
      | some w' => pure (derived L k w' new.acc false)
  | .issue i k => do
    let s ← states[i]?
    match issueAgainst L s k with
    | none => pure (failed k true)
    | some (A, w) => pure (derived L k w A true)

def evalQueries (L : Nat) (states : Array SL) : List Query → Array QRes → Option (Array QRes)
  | [], acc => some acc
  | q :: qs, acc =>
    match evalQuery L states acc q with
    | none => none
    | some r => evalQueries L states qs (acc.push r)

def witClass (rs : List QRes) (i : Nat) (r : QRes) : Nat :=
  match r.tailV with
  | none => i
  | some v => ((rs.take i).findIdx? fun p => p.tailV == some v).getD i

/-- index of the first accumulator vector equal to `v` -/
def accClass (vecs : List (List Int)) (v : List Int) : Option Nat :=
  vecs.findIdx? fun u => u == v

def natJ (n : Nat) : Json := Json.num (JsonNumber.fromNat n)
def intJ (n : Int) : Json := Json.num (JsonNumber.fromInt n)

def stateJson (vecs : List (List Int)) (i : Nat) (s : SL) : Json :=
  Json.mkObj [
    ("bits", Json.arr (s.bits.map fun b => natJ (if b then 1 else 0)).toArray),
    ("ts", match s.ts with | some t => natJ t | none => Json.null),
    ("acc_class", natJ ((accClass (vecs.take i) (vecs.getD i [])).getD i))]

def queryJson (vecs : List (List Int)) (rs : List QRes) (i : Nat) (r : QRes) : Json :=
  let base : List (String × Json) := [
    ("ok", Json.bool r.wit.isSome),
    ("valid", Json.bool r.valid),
    ("wit_class", natJ (witClass rs i r))]
  let extra : List (String × Json) :=
    if r.isIssue then
      [("embeds_class", match r.embedded with
        | some v => (match accClass vecs v with | some c => intJ c | none => intJ (-1))
        | none => intJ (-1))]
    else []
  Json.mkObj (base ++ extra)

def slRun (j : Json) : Option Json := do
  let L ← reqNat j "size"
  let bd ← match j.getObjVal? "by_default" with
    | .ok (.bool b) => some b
    | _ => none
  let ts ← optNat j "ts"
  let opsJ ← match j.getObjVal? "ops" with
    | .ok v => v.getArr?.toOption
    | .error _ => none
  let ops ← opsJ.toList.mapM parseOp
  let qsJ ← match j.getObjVal? "queries" with
    | .ok v => v.getArr?.toOption
    | .error _ => some #[]
  let qs ← qsJ.toList.mapM parseQuery
  let states := run L bd ts ops
  let rs ← evalQueries L states.toArray qs #[]
  let rsl := rs.toList
  let vecs := states.map fun s => vecOf (L + 1) s.acc
  pure (Json.mkObj [
    ("states", Json.arr (states.mapIdx fun i s => stateJson vecs i s).toArray),
    ("queries", Json.arr (rsl.mapIdx fun i r => queryJson vecs rsl i r).toArray)])

end AnonModel.Driver.SL

namespace AnonModel.Driver

/-- dispatch: `sl_run` -/
def stepStatusList (op : String) (j : Lean.Json) : Option Lean.Json :=
  match op with
  | "sl_run" => SL.slRun j
  | _ => none

end AnonModel.Driver

import Lean.Data.Json
import AnonModel.Model.Msgpack
import AnonModel.Model.Base64
/-! Line-protocol handlers for the msgpack layer (C15): `mp_encode`, `mp_decode`, `mp_json`, `pv_read`. -/
open Lean
namespace AnonModel.Driver
open AnonModel.Msgpack

def hexDigit (n : Nat) : Char := "0123456789abcdef".toList.getD n '0'

def hexOf (bs : List Nat) : String := String.ofList (bs.flatMap (fun b => [hexDigit (b / 16), hexDigit (b % 16)]))

def hexVal (c : Char) : Option Nat :=
  if '0' ≤ c ∧ c ≤ '9' then some (c.toNat - '0'.toNat)
  else if 'a' ≤ c ∧ c ≤ 'f' then some (c.toNat - 'a'.toNat + 10)
  else none

def unhexL : List Char → Option (List Nat)
  | [] => some []
  | [_] => none
  | a :: b :: r =>
    match hexVal a, hexVal b, unhexL r with
    | some x, some y, some t => some ((x * 16 + y) :: t)
    | _, _, _ => none

def unhex (s : String) : Option (List Nat) := unhexL s.toList

def utf8? (bs : List Nat) : Option String :=
  String.fromUTF8? (ByteArray.mk (bs.map (fun b => b.toUInt8)).toArray)

mutual
/-- the tree notation of the line protocol; a string member that is not UTF-8 is what the reader hands over as bytes -/
partial def treeOf : MV → Json
  | .nil => Json.mkObj [("nil", Json.bool true)]
  | .bool b => Json.mkObj [("bool", Json.bool b)]
  | .int i => Json.mkObj [("int", Json.str (toString i))]
  | .str bs => (match utf8? bs with
      | some _ => Json.mkObj [("str", Json.str (hexOf bs))]
      | none => Json.mkObj [("bin", Json.str (hexOf bs))])
  | .bin bs => Json.mkObj [("bin", Json.str (hexOf bs))]
  | .arr xs => Json.mkObj [("arr", Json.arr (xs.map treeOf).toArray)]
  | .map kvs => Json.mkObj [("map", Json.arr (pairsOf kvs).toArray)]
partial def pairsOf : List MV → List Json
  | k :: v :: r => Json.arr #[treeOf k, treeOf v] :: pairsOf r
  | _ => []
end

partial def mvOf (j : Json) : Option MV :=
  match j.getObjVal? "nil", j.getObjVal? "bool", j.getObjVal? "int", j.getObjVal? "str", j.getObjVal? "bin", j.getObjVal? "arr", j.getObjVal? "map" with
  | .ok _, _, _, _, _, _, _ => some MV.nil
  | _, .ok (.bool b), _, _, _, _, _ => some (MV.bool b)
  | _, _, .ok (.str s), _, _, _, _ => s.toInt?.map MV.int
  | _, _, _, .ok (.str h), _, _, _ => (unhex h).map MV.str
  | _, _, _, _, .ok (.str h), _, _ => (unhex h).map MV.bin
  | _, _, _, _, _, .ok (.arr a), _ => (a.toList.mapM mvOf).map MV.arr
  | _, _, _, _, _, _, .ok (.arr a) =>
    (a.toList.mapM (fun (p : Json) => match p with
      | Json.arr #[k, v] => (match mvOf k, mvOf v with | some x, some y => some [x, y] | _, _ => none)
      | _ => none)).map (fun (l : List (List MV)) => MV.map l.flatten)
  | _, _, _, _, _, _, _ => none

mutual
/-- the document a decoded structure stands for: maps with string keys as objects (what `serde_json` prints for the same
structure); `none` for byte strings, non-string keys and non-UTF-8 text -/
partial def jsonOf : MV → Option Json
  | .nil => some Json.null
  | .bool b => some (Json.bool b)
  | .int i => some (Json.num (JsonNumber.fromInt i))
  | .str bs => (utf8? bs).map Json.str
  | .bin _ => none
  | .arr xs => (xs.mapM jsonOf).map (fun l => Json.arr l.toArray)
  | .map kvs => (membersOf kvs).map Json.mkObj
partial def membersOf : List MV → Option (List (String × Json))
  | .str k :: v :: r =>
    match utf8? k, jsonOf v, membersOf r with
    | some ks, some vj, some t => some ((ks, vj) :: t)
    | _, _, _ => none
  | [] => some []
  | _ => none
end

def mpErr : Json := Json.mkObj [("err", Json.bool true)]

def stepMp (op : String) (j : Json) : Option Json :=
  match op with
  | "mp_encode" =>
    -- `msg_pack::encode` of a value given in tree notation
    match j.getObjVal? "v" with
    | .ok t => (mvOf t).map (fun v => Json.str (hexOf (enc v)))
    | _ => none
  | "mp_struct" =>
    -- a derived structure given as its (member name, value) list: the bytes written for it, and every member looked up again in
    -- what the reader returns for those bytes
    match j.getObjVal? "fields" with
    | .ok (.arr a) =>
      (a.toList.mapM (fun (p : Json) => match p with
        | Json.arr #[Json.str k, v] => (match unhex k, mvOf v with | some kb, some x => some (kb, x) | _, _ => none)
        | _ => none)).map (fun (fields : List (List Nat × MV)) =>
          let bytes := enc (structMV fields)
          let found := match decode bytes with
            | some (.map kvs) => fields.all (fun (k, v) => match field k kvs with | some w => enc w == enc v | none => false)
            | _ => false
          Json.mkObj [("hex", Json.str (hexOf bytes)), ("members_found", Json.bool found)])
    | _ => none
  | "mp_decode" =>
    -- `msg_pack::decode` of a byte string, as a tree
    match j.getObjVal? "hex" with
    | .ok (.str h) => (unhex h).map (fun bs => match decode bs with | some v => treeOf v | none => mpErr)
    | _ => none
  | "mp_json" =>
    -- the document behind the bytes of a real structure
    match j.getObjVal? "hex" with
    | .ok (.str h) => (unhex h).map (fun bs => match (decode bs).bind jsonOf with | some d => d | none => mpErr)
    | _ => none
  | "pv_typed" =>
    -- a whole proof-value text, all four layers: header, base64url, msgpack, and the visitor of the tagged sequence on the
    -- classified elements: the kind accepted
    match j.getObjVal? "s" with
    | .ok (.str s) => some (match (Base64.envelopeDecode s.toList).bind readTyped with
        | some k => Json.num (JsonNumber.fromNat k)
        | none => mpErr)
    | _ => none
  | "pv_read" =>
    -- a whole proof-value text: multibase header, base64url, msgpack, tagged sequence: the kind and the payload document
    match j.getObjVal? "s" with
    | .ok (.str s) => some (match (Base64.envelopeDecode s.toList).bind readTagged with
        | some (k, p) => Json.mkObj [("kind", Json.num (JsonNumber.fromNat k)), ("payload", treeOf p)]
        | none => mpErr)
    | _ => none
  | _ => none

end AnonModel.Driver

import AnonModel.Gen.PanicSites
/-!
# Registry of the panicking expressions of the code anchored by C12

`Gen/PanicSites.lean` is regenerated from `/repo` on every run. Every site found there must be
registered here with the guard that makes it unreachable (or the reason it is outside C12's claim).
A new `unwrap`/index in the anchored files makes `C12_all_sites_registered` fail: the broken
obligation names the site, and the check then searches the implementation for a crashing input.
-/
namespace AnonModel.PanicRegistry
open AnonModel.Gen

structure Registered where
  site : PanicSite
  /-- why the site cannot panic on untrusted input (or why it is outside the claim) -/
  reason : String

def registry : List Registered := [
  ⟨⟨"src/services/verifier.rs", "<top>", "unwrap", 1⟩,
   "Regex::new on a constant pattern (INTERNAL_TAG_MATCHER): evaluated once, input independent; the literal is pinned by Gen/Consts.lean"⟩,
  ⟨⟨"src/services/verifier.rs", "verify_requested_restrictions", "unwrap", 1⟩,
   "requested_proof.predicates.get(referent): the same referent was found in received_predicates, which is built from that very map (Verifier.restrictionsOutcome: lookup is `some`)"⟩,
  ⟨⟨"src/services/verifier.rs", "verify_requested_restrictions", "unwrap", 2⟩,
   "revealed_attrs.get(k) for k taken from revealed_attrs.keys()"⟩,
  ⟨⟨"src/services/verifier.rs", "verify_requested_restrictions", "unwrap", 3⟩,
   "revealed_attr_groups.get(k) for k taken from revealed_attr_groups.keys()"⟩,
  ⟨⟨"src/services/verifier.rs", "verify_requested_restrictions", "unwrap", 4⟩,
   "attr_info.values.get(name) for name taken from attr_info.values.keys()"⟩,
  ⟨⟨"src/data_types/pres_request.rs", "serialize", "unwrap", 1⟩,
   "as_object_mut() on the serde_json value of a struct (always an object); serialisation, not on the untrusted-input path"⟩,
  ⟨⟨"src/data_types/pres_request.rs", "serialize", "unwrap", 2⟩,
   "as_object_mut() on the serde_json value of a struct (always an object); serialisation, not on the untrusted-input path"⟩,
  ⟨⟨"src/utils/query.rs", "parse_operator", "unwrap", 1⟩,
   "map.into_iter().next() guarded by `map.len() == 1` (Query.parseOperator: the one-entry case)"⟩,
  ⟨⟨"src/services/prover.rs", "create_index_deltas", "index", 1⟩,
   "list[i] for i from delta.iter_ones() where delta = list XOR other has the length of list; prover side (holder's own lists), outside C12's claim"⟩,
  ⟨⟨"src/services/prover.rs", "update_requested_proof", "index", 1⟩,
   "requested_attributes[referent]: panics when the holder selects a referent the request does not have — the prover's own inconsistent input, outside C12's claim (verifying / deserialising untrusted data)"⟩
]

def registeredSites : List PanicSite := registry.map (·.site)

end AnonModel.PanicRegistry

import AnonModel.Model.Names
import AnonModel.Model.Ident
import AnonModel.Model.Verifier
/-!
# M8 (issuance) — `services/issuer.rs: create_credential`, `services/prover.rs: create_credential_request,
process_credential` over the ideal functionality

Ghost data says which key / holder / blinding / nonce each cryptographic object was really built
with; the CL answers (`blind_credential_secrets` correctness proof, `sign_credential`,
`process_credential_signature`) are the ideal ones (DESIGN §4 v). The service logic proper is the
entropy / prover-DID plumbing and the normalised attribute-name set.
-/
namespace AnonModel.Issuance

/-- *ghost*: blinded link secret with its correctness proof -/
structure Blinded where
  key : Nat          -- credential definition key it was blinded for
  holder : Nat
  blinding : Nat
  proofNonce : String   -- nonce the correctness proof was built with (the offer's)
  intact : Bool
deriving DecidableEq, Repr, Inhabited

structure Offer where
  nonce : String
deriving Repr, Inhabited

structure CredRequest where
  entropy : Option String
  proverDid : Option String
  blinded : Blinded
  nonce : String
deriving Repr, Inhabited

structure ReqMeta where
  blinding : Nat
  nonce : String
deriving Repr, Inhabited

structure CredDef where
  id : String
  key : Nat
  /-- attribute names of the schema the key was generated for -/
  schemaAttrs : List String
deriving Repr, Inhabited

/-- *ghost*: what the issuer key signed -/
structure Signature where
  key : Nat
  attrs : List (String × String)     -- normalised name ↦ encoded
  holder : Nat
  blinding : Nat
  nonce : String                     -- request nonce bound by the signature correctness proof
  intact : Bool
deriving DecidableEq, Repr, Inhabited

structure Credential where
  values : List (String × String)    -- name as given ↦ encoded
  sig : Signature
deriving Repr, Inhabited

/-- `CredentialRequest::entropy()` -/
def entropyOf (r : CredRequest) : Option String :=
  match r.entropy with
  | some e => some e
  | none => r.proverDid

/-- `prover::create_credential_request`: validates entropy / prover DID against the definition id -/
def createCredentialRequest (entropy proverDid : Option String) (cd : CredDef) (holder blinding : Nat)
    (reqNonce : String) (offer : Offer) : Option (CredRequest × ReqMeta) :=
  if Ident.credReqValid entropy proverDid cd.id then
    some ({ entropy := entropy, proverDid := proverDid,
            blinded := { key := cd.key, holder := holder, blinding := blinding, proofNonce := offer.nonce, intact := true },
            nonce := reqNonce },
          { blinding := blinding, nonce := reqNonce })
  else none

def normAttrs (values : List (String × String)) : List (String × String) :=
  values.map (fun nv => (Names.commonView nv.1, nv.2))

/-- `issuer::create_credential(..).is_ok()` with the credential it returns -/
def createCredential (cd : CredDef) (offer : Offer) (req : CredRequest) (values : List (String × String)) :
    Option Credential :=
  if (entropyOf req).isNone then none
  -- the blinded-secret correctness proof must verify under this definition's key and the offer's nonce
  else if !(req.blinded.intact && req.blinded.key == cd.key && req.blinded.proofNonce == offer.nonce) then none
  -- exactly the attributes of the schema (by normalised name)
  else if !Verifier.sameSet (values.map (fun nv => Names.commonView nv.1)) (cd.schemaAttrs.map Names.commonView) then none
  else some { values := values,
              sig := { key := cd.key, attrs := normAttrs values, holder := req.blinded.holder,
                       blinding := req.blinded.blinding, nonce := req.nonce, intact := true } }

/-- signed attribute map and presented attribute map agree (as maps) -/
def sameAttrs (a b : List (String × String)) : Bool :=
  a.all (fun kv => b.lookup kv.1 == some kv.2) && b.all (fun kv => a.lookup kv.1 == some kv.2)

/-- `prover::process_credential(..).is_ok()` -/
def processCredential (c : Credential) (m : ReqMeta) (holder : Nat) (cd : CredDef) : Bool :=
  c.sig.intact && c.sig.key == cd.key && c.sig.holder == holder &&
  c.sig.blinding == m.blinding && c.sig.nonce == m.nonce &&
  sameAttrs c.sig.attrs (normAttrs c.values)

end AnonModel.Issuance

/-!
# SHA-256 (FIPS 180-4), executable model

Models `crate::utils::hash::SHA256::digest` (a thin wrapper over the `sha2` crate).
Nothing is proved *about* SHA-256; the theorems of C13/C19 treat `sha256` as the
fixed total function defined here, and "the `sha2` crate computes this function"
is established by the correspondence runs only (trusted base, DESIGN §4).
-/
namespace AnonModel.Sha256

def K : Array UInt32 := #[
  0x428a2f98, 0x71374491, 0xb5c0fbcf, 0xe9b5dba5, 0x3956c25b, 0x59f111f1, 0x923f82a4, 0xab1c5ed5,
  0xd807aa98, 0x12835b01, 0x243185be, 0x550c7dc3, 0x72be5d74, 0x80deb1fe, 0x9bdc06a7, 0xc19bf174,
  0xe49b69c1, 0xefbe4786, 0x0fc19dc6, 0x240ca1cc, 0x2de92c6f, 0x4a7484aa, 0x5cb0a9dc, 0x76f988da,
  0x983e5152, 0xa831c66d, 0xb00327c8, 0xbf597fc7, 0xc6e00bf3, 0xd5a79147, 0x06ca6351, 0x14292967,
  0x27b70a85, 0x2e1b2138, 0x4d2c6dfc, 0x53380d13, 0x650a7354, 0x766a0abb, 0x81c2c92e, 0x92722c85,
  0xa2bfe8a1, 0xa81a664b, 0xc24b8b70, 0xc76c51a3, 0xd192e819, 0xd6990624, 0xf40e3585, 0x106aa070,
  0x19a4c116, 0x1e376c08, 0x2748774c, 0x34b0bcb5, 0x391c0cb3, 0x4ed8aa4a, 0x5b9cca4f, 0x682e6ff3,
  0x748f82ee, 0x78a5636f, 0x84c87814, 0x8cc70208, 0x90befffa, 0xa4506ceb, 0xbef9a3f7, 0xc67178f2]

def H0 : Array UInt32 := #[
  0x6a09e667, 0xbb67ae85, 0x3c6ef372, 0xa54ff53a, 0x510e527f, 0x9b05688c, 0x1f83d9ab, 0x5be0cd19]

@[inline] def rotr (x : UInt32) (n : UInt32) : UInt32 := (x >>> n) ||| (x <<< (32 - n))

/-- message ++ 0x80 ++ zeros ++ 64-bit big-endian bit length, a multiple of 64 bytes -/
def pad (msg : ByteArray) : ByteArray := Id.run do
  let len := msg.size
  let mut out := msg.push 0x80
  let padLen := (64 - ((len + 1 + 8) % 64)) % 64
  for _ in [0:padLen] do
    out := out.push 0
  let bits : Nat := len * 8
  for i in [0:8] do
    out := out.push (UInt8.ofNat ((bits >>> (8 * (7 - i))) % 256))
  return out

def schedule (blk : ByteArray) (off : Nat) : Array UInt32 := Id.run do
  let mut w : Array UInt32 := Array.replicate 64 0
  for t in [0:16] do
    let b0 := (blk.get! (off + 4*t)).toUInt32
    let b1 := (blk.get! (off + 4*t + 1)).toUInt32
    let b2 := (blk.get! (off + 4*t + 2)).toUInt32
    let b3 := (blk.get! (off + 4*t + 3)).toUInt32
    w := w.set! t ((b0 <<< 24) ||| (b1 <<< 16) ||| (b2 <<< 8) ||| b3)
  for t in [16:64] do
    let w15 := w[t-15]!
    let w2 := w[t-2]!
    let s0 := rotr w15 7 ^^^ rotr w15 18 ^^^ (w15 >>> 3)
    let s1 := rotr w2 17 ^^^ rotr w2 19 ^^^ (w2 >>> 10)
    w := w.set! t (w[t-16]! + s0 + w[t-7]! + s1)
  return w

def compress (h : Array UInt32) (blk : ByteArray) (off : Nat) : Array UInt32 := Id.run do
  let w := schedule blk off
  let mut a := h[0]!
  let mut b := h[1]!
  let mut c := h[2]!
  let mut d := h[3]!
  let mut e := h[4]!
  let mut f := h[5]!
  let mut g := h[6]!
  let mut hh := h[7]!
  for t in [0:64] do
    let s1 := rotr e 6 ^^^ rotr e 11 ^^^ rotr e 25
    let ch := (e &&& f) ^^^ ((~~~ e) &&& g)
    let t1 := hh + s1 + ch + K[t]! + w[t]!
    let s0 := rotr a 2 ^^^ rotr a 13 ^^^ rotr a 22
    let mj := (a &&& b) ^^^ (a &&& c) ^^^ (b &&& c)
    let t2 := s0 + mj
    hh := g; g := f; f := e; e := d + t1
    d := c; c := b; b := a; a := t1 + t2
  return #[h[0]! + a, h[1]! + b, h[2]! + c, h[3]! + d, h[4]! + e, h[5]! + f, h[6]! + g, h[7]! + hh]

/-- the 32-byte digest -/
def sha256 (msg : ByteArray) : ByteArray := Id.run do
  let p := pad msg
  let mut h := H0
  for i in [0:p.size / 64] do
    h := compress h p (64 * i)
  let mut out := ByteArray.empty
  for x in h do
    out := out.push (x >>> 24).toUInt8
    out := out.push (x >>> 16).toUInt8
    out := out.push (x >>> 8).toUInt8
    out := out.push x.toUInt8
  return out

def hexDigit (n : Nat) : Char := if n < 10 then Char.ofNat (48 + n) else Char.ofNat (87 + n)
def toHex (b : ByteArray) : String :=
  String.ofList (b.toList.flatMap fun x => [hexDigit (x.toNat / 16), hexDigit (x.toNat % 16)])

end AnonModel.Sha256

import AnonModel.Model.Verifier
import AnonModel.Model.VerifierW3C
/-!
# M9 — the provers

`services/prover.rs: create_presentation`, `update_requested_proof`, `CLProofBuilder::add_sub_proof`
(legacy) and `services/w3c/prover.rs: create_presentation`, `build_credential_attributes` (W3C), over
the honest side of IdealCL (`buildSub`): what `ProofBuilder::add_sub_proof_request` accepts and what
the resulting sub-proof carries.

Rust iterates the holder's selection (`HashSet`s of referents) in arbitrary order; the outputs are
maps, so the order does not matter for them. Where it could matter — *which* error is returned — the
model only distinguishes "error" from "value".
-/
namespace AnonModel.Prover
open AnonModel.Query (Query)
open AnonModel.Interval (Ivl)
open AnonModel.IdealCL
open AnonModel.Verifier

/-- a credential as the holder stores it -/
structure HeldCred where
  schemaId : String
  credDefId : String
  revRegId : Option String
  /-- attribute name as in the credential ↦ (raw, encoded) -/
  values : List (String × (String × String))
  /-- ghost: what was signed, by whom, for whom -/
  sym : SymCred
deriving Repr, Inhabited

/-- one entry of `PresentCredentials` -/
structure Selected where
  cred : HeldCred
  timestamp : Option Nat
  /-- ghost of the `CredentialRevocationState`, if one is passed -/
  revState : Option SymNrp
  /-- (referent, revealed) -/
  attrs : List (String × Bool)
  preds : List String
deriving Repr, Inhabited

def Selected.isEmpty (s : Selected) : Bool := s.attrs.isEmpty && s.preds.isEmpty

/-- what the prover is given about schemas and credential definitions -/
structure PCtx where
  /-- schema id ↦ attribute names -/
  schemas : List (String × List String)
  /-- credential definition ids supplied -/
  credDefs : List String
deriving Repr, Inhabited

/-- `PresentCredentials::validate` -/
def selectionValid (sel : List Selected) : Bool :=
  noDup (sel.flatMap (fun s => s.attrs.map Prod.fst)) &&
  noDup (sel.flatMap (·.preds)) &&
  sel.all (fun s => s.timestamp.isSome == s.revState.isSome)

/-- `get_credential_values_for_attribute` -/
def credValue (c : HeldCred) (name : String) : Option (String × String) :=
  (Names.lookupNorm c.values name).map (·.2)

/-- insertion-ordered unique list (the CL sub-proof request keeps sets) -/
def dedup {α : Type} [BEq α] : List α → List α
  | [] => []
  | x :: xs => x :: (dedup xs).filter (fun y => !(y == x))

/-- honest `ProofBuilder::add_sub_proof_request`: `none` = the CL crate refuses -/
def buildSub (schemaAttrs : List String) (sym : SymCred) (revealedNames : List String)
    (preds : List Pred) (nrp : Option SymNrp) (holder session uid : Nat) : Option SymSub :=
  let names := dedup (revealedNames.map Names.commonView)
  let preds := dedup (preds.map (fun p => { p with attr := Names.commonView p.attr }))
  -- the credential's value keys must be exactly the schema's attributes
  if !(schemaAttrs.all (fun a => (sym.attrs.map Prod.fst).contains a) &&
       (sym.attrs.map Prod.fst).all (fun a => schemaAttrs.contains a)) then none
  else if !names.all (fun n => schemaAttrs.contains n) then none
  else if !preds.all (fun p => schemaAttrs.contains p.attr) then none
  -- an attribute cannot be revealed and under a predicate in one sub-proof
  else if preds.any (fun p => names.contains p.attr) then none
  -- predicates must hold of the signed values (which must be i32)
  else if !preds.all (predHolds sym.attrs) then none
  else
    match names.mapM (fun n => (sym.attrs.lookup n).map (fun v => (n, v))) with
    | none => none
    | some revealed =>
      some { revealed := revealed, preds := preds, cred := sym, nrp := nrp,
             ms := (holder, session), intact := true, uid := uid }

/-- the names and the merged local interval of a set of attribute referents
(`get_requested_attributes`); `none` = a referent is not in the request -/
def requestedAttrs (r : Request) (referents : List String) : Option (List String × Option Ivl) :=
  (referents.mapM (fun ref => r.attrs.lookup ref)).map (fun infos =>
    (infos.flatMap (·.allNames), Interval.foldLocals (infos.map (·.nonRevoked))))

/-- `get_requested_predicates` -/
def requestedPreds (r : Request) (referents : List String) : Option (List Pred × Option Ivl) :=
  (referents.mapM (fun ref => r.preds.lookup ref)).map (fun infos =>
    (infos.map (fun q => ({ attr := q.name, ty := q.ty, value := q.value } : Pred)),
     Interval.foldLocals (infos.map (·.nonRevoked))))

/-- `CLProofBuilder::add_sub_proof` -/
def addSubProof (pc : PCtx) (r : Request) (s : Selected) (holder session uid : Nat) : Option SymSub :=
  match pc.schemas.lookup s.cred.schemaId with
  | none => none
  | some schemaAttrs =>
    if !pc.credDefs.contains s.cred.credDefId then none
    else
      match requestedAttrs r ((s.attrs.filter (·.2)).map Prod.fst), requestedPreds r s.preds with
      | some (names, aIv), some (preds, pIv) =>
        -- a non-revocation part is built iff an interval applies and a revocation state was passed
        let nrp := match Interval.proverInterval aIv pIv r.nonRevoked s.cred.revRegId none with
          | some _ => s.revState
          | none => none
        buildSub (schemaAttrs.map Names.commonView) s.cred.sym names preds nrp holder session uid
      | _, _ => none

/-- what `update_requested_proof` adds for one selected credential at sub-proof index `i` -/
structure RpPart where
  revealed : List (String × RevealedInfo)
  groups : List (String × GroupInfo)
  unrevealed : List (String × Nat)
  predicates : List (String × Nat)
deriving Repr, Inhabited

def RpPart.empty : RpPart := { revealed := [], groups := [], unrevealed := [], predicates := [] }

/-- what `update_requested_proof` inserts for one `(referent, revealed)` of the selection; `none` =
`Err` (a requested name is not in the credential). A revealed referent missing from the request makes
the Rust code index a map with a missing key: a panic of the *prover* on an inconsistent selection,
modelled as `none` as well (outside C12's claim, which is about verifying and deserialising). -/
def rpEntry (r : Request) (c : HeldCred) (i : Nat) (rr : String × Bool) : Option RpPart :=
  if rr.2 then
    match r.attrs.lookup rr.1 with
    | none => none
    | some info =>
      match info.name with
      | some name =>
        (credValue c name).map (fun re =>
          { RpPart.empty with revealed := [(rr.1, { idx := i, raw := re.1, encoded := re.2 })] })
      | none =>
        match info.names with
        | some names =>
          -- the values go into a map keyed by the requested name: a repeated name yields one entry
          (names.eraseDups.mapM (fun n => (credValue c n).map (fun re => (n, re)))).map (fun vals =>
            { RpPart.empty with groups := [(rr.1, { idx := i, values := vals })] })
        | none => some RpPart.empty
  else some { RpPart.empty with unrevealed := [(rr.1, i)] }

/-- `update_requested_proof` for one selected credential at sub-proof index `i` -/
def updateRequestedProof (r : Request) (s : Selected) (i : Nat) : Option RpPart :=
  (s.attrs.mapM (rpEntry r s.cred i)).map (fun parts =>
    { revealed := parts.flatMap (·.revealed), groups := parts.flatMap (·.groups),
      unrevealed := parts.flatMap (·.unrevealed), predicates := s.preds.map (fun ref => (ref, i)) })

/-- `services/prover.rs: create_presentation`; `uid0` numbers the sub-proofs (ghost) -/
def createPresentation (pc : PCtx) (r : Request) (sel : List Selected)
    (selfAttested : List (String × String)) (holder session uid0 : Nat) : Option Presentation :=
  let used := sel.filter (fun s => !s.isEmpty)
  if used.isEmpty && selfAttested.isEmpty then none
  else if !selectionValid sel then none
  else
    let idxd := used.zipIdx
    match idxd.mapM (fun si => updateRequestedProof r si.1 si.2),
          idxd.mapM (fun si => addSubProof pc r si.1 holder session (uid0 + si.2)) with
    | some parts, some subs =>
      some {
        revealed := parts.flatMap (·.revealed)
        groups := parts.flatMap (·.groups)
        selfAttested := selfAttested
        unrevealed := parts.flatMap (·.unrevealed)
        predicates := parts.flatMap (·.predicates)
        identifiers := used.map (fun s => { schemaId := s.cred.schemaId, credDefId := s.cred.credDefId,
                                            revRegId := s.cred.revRegId, timestamp := s.timestamp })
        subs := subs
        agg := { nonce := r.nonce, bound := subs.map (fun s => (s.uid, s.nrp.isSome)), intact := true } }
    | _, _ => none

/-! ## W3C -/

/-- a W3C credential as the holder stores it: subject values are strings or numbers -/
structure HeldW3C where
  issuer : String
  schemaId : String
  credDefId : String
  revRegId : Option String
  subject : List (String × VerifierW3C.SubjVal)
  sym : SymCred
deriving Repr, Inhabited

structure SelectedW3C where
  cred : HeldW3C
  timestamp : Option Nat
  revState : Option SymNrp
  attrs : List (String × Bool)
  preds : List String
deriving Repr, Inhabited

def SelectedW3C.isEmpty (s : SelectedW3C) : Bool := s.attrs.isEmpty && s.preds.isEmpty

/-- `CredentialSubject::add_predicate` on an association list; `none` = `Err` -/
def addPredicate (subject : List (String × VerifierW3C.SubjVal)) (a : String) :
    Option (List (String × VerifierW3C.SubjVal)) :=
  match subject.lookup a with
  | some (.bool _) => some subject
  | some _ => none
  | none => some (subject ++ [(a, .bool true)])

/-- `HashMap::insert` on an association list -/
def insertKV {β : Type} (m : List (String × β)) (k : String) (v : β) : List (String × β) :=
  if m.any (fun kv => kv.1 == k) then m.map (fun kv => if kv.1 == k then (k, v) else kv) else m ++ [(k, v)]

/-- one `(referent, reveal)` of `build_credential_attributes`: every requested name must be in the
credential (else `Err`); revealed ones are copied into the subject -/
def attrStep (r : Request) (c : HeldW3C) (subj : List (String × VerifierW3C.SubjVal))
    (rr : String × Bool) : Option (List (String × VerifierW3C.SubjVal)) :=
  match r.attrs.lookup rr.1 with
  | none => none
  | some info =>
    info.allNames.foldlM (fun sj n =>
      match Names.lookupNorm c.subject n with
      | none => none
      | some av => some (if rr.2 then insertKV sj av.1 av.2 else sj)) subj

def predStep (r : Request) (c : HeldW3C) (subj : List (String × VerifierW3C.SubjVal))
    (ref : String) : Option (List (String × VerifierW3C.SubjVal)) :=
  match r.preds.lookup ref with
  | none => none
  | some q =>
    match Names.lookupNorm c.subject q.name with
    | none => none
    | some av => addPredicate subj av.1

/-- `build_credential_attributes` -/
def buildCredentialAttributes (r : Request) (s : SelectedW3C) :
    Option (List (String × VerifierW3C.SubjVal)) :=
  match s.attrs.foldlM (attrStep r s.cred) [] with
  | none => none
  | some sj => s.preds.foldlM (predStep r s.cred) sj

def w3cAsSelected (s : SelectedW3C) : Selected :=
  { cred := { schemaId := s.cred.schemaId, credDefId := s.cred.credDefId, revRegId := s.cred.revRegId,
              values := [], sym := s.cred.sym },
    timestamp := s.timestamp, revState := s.revState, attrs := s.attrs, preds := s.preds }

/-- `services/w3c/prover.rs: create_presentation` -/
def createPresentationW3C (pc : PCtx) (r : Request) (sel : List SelectedW3C)
    (holder session uid0 : Nat) : Option VerifierW3C.Presentation :=
  let used := sel.filter (fun s => !s.isEmpty)
  if used.isEmpty then none
  else if !selectionValid (sel.map w3cAsSelected) then none
  else
    let idxd := used.zipIdx
    match idxd.mapM (fun si => addSubProof pc r (w3cAsSelected si.1) holder session (uid0 + si.2)),
          used.mapM (buildCredentialAttributes r) with
    | some subs, some subjects =>
      let creds := (used.zip (subs.zip subjects)).map (fun x =>
        ({ issuer := x.1.cred.issuer, subject := x.2.2, proofOk := true,
           verificationMethod := x.1.cred.credDefId, schemaId := x.1.cred.schemaId,
           credDefId := x.1.cred.credDefId, revRegId := x.1.cred.revRegId,
           timestamp := x.1.timestamp, sub := x.2.1 } : VerifierW3C.Cred))
      some { validateOk := true, creds := creds, presProofOk := true,
             agg := { nonce := r.nonce, bound := subs.map (fun s => (s.uid, s.nrp.isSome)), intact := true } }
    | _, _ => none

end AnonModel.Prover

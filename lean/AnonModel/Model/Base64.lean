/-!
# M14b (base64url without padding) — `utils/base64.rs`

`encode` / `decode` of the `URL_SAFE_NO_PAD` engine of the `base64` crate, as used for every W3C proof value
(`data_types/w3c/format.rs: base64_msgpack`, after the multibase header `u`): alphabet `A–Z a–z 0–9 - _`, no `=`
padding written or accepted, and a final symbol whose unused low bits are not zero is refused (the engine's default:
`decode_allow_trailing_bits = false`) — so every byte string has exactly one accepted spelling.

Bytes and sextets are `Nat`s (bounded by hypotheses in the theorems); text is a `List Char`.
-/
namespace AnonModel.Base64

def alphabet : List Char :=
  ['A','B','C','D','E','F','G','H','I','J','K','L','M','N','O','P','Q','R','S','T','U','V','W','X','Y','Z',
   'a','b','c','d','e','f','g','h','i','j','k','l','m','n','o','p','q','r','s','t','u','v','w','x','y','z',
   '0','1','2','3','4','5','6','7','8','9','-','_']

/-- symbol of a sextet -/
def charOf (n : Nat) : Char := alphabet.getD n 'A'

/-- sextet of a symbol; `none` for every character outside the alphabet (`=`, `+`, `/`, white space, …) -/
def valOf (c : Char) : Option Nat :=
  let i := alphabet.idxOf c
  if i < 64 then some i else none

/-- bytes → sextets -/
def encodeVals : List Nat → List Nat
  | [] => []
  | [a] => [a / 4, (a % 4) * 16]
  | [a, b] => [a / 4, (a % 4) * 16 + b / 16, (b % 16) * 4]
  | a :: b :: c :: rest => a / 4 :: ((a % 4) * 16 + b / 16) :: ((b % 16) * 4 + c / 64) :: (c % 64) :: encodeVals rest

/-- sextets → bytes; refuses a lone final symbol and non-zero unused bits in the final symbol -/
def decodeVals : List Nat → Option (List Nat)
  | [] => some []
  | [_] => none
  | [s0, s1] => if s1 % 16 = 0 then some [s0 * 4 + s1 / 16] else none
  | [s0, s1, s2] => if s2 % 4 = 0 then some [s0 * 4 + s1 / 16, (s1 % 16) * 16 + s2 / 4] else none
  | s0 :: s1 :: s2 :: s3 :: rest =>
    (decodeVals rest).map (fun t => (s0 * 4 + s1 / 16) :: ((s1 % 16) * 16 + s2 / 4) :: ((s2 % 4) * 64 + s3) :: t)

/-- `utils::base64::encode` -/
def encode (bytes : List Nat) : List Char := (encodeVals bytes).map charOf

/-- `utils::base64::decode(..).ok()` -/
def decode (s : List Char) : Option (List Nat) := (s.mapM valOf).bind decodeVals

/-- `format::base64_msgpack::serialize`, after msgpack: the multibase header `u`, then the base64 text -/
def envelopeEncode (bytes : List Nat) : List Char := 'u' :: encode bytes

/-- `format::base64_msgpack::deserialize`, before msgpack: `strip_prefix("u")`, then `base64::decode` -/
def envelopeDecode : List Char → Option (List Nat)
  | 'u' :: rest => decode rest
  | _ => none

end AnonModel.Base64

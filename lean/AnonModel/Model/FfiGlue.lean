/-!
# M12b — marshalling glue of the C ABI (`src/ffi/presentation.rs`)

Two pure list transformations stand between the flat C arguments and the native API:

* `_nonrevoke_interval_override`: the flat table of rows `(rev_reg_def_id, requested_from_ts, override_ts)` becomes the nested map
  `id ↦ (requested ↦ override)` by `entry(id).or_insert_with(HashMap::new).insert(requested, override)`, row after row;
* `_present_credentials`: for every credential entry `i` (in order) the flat prove list is scanned completely and every item with
  `entry_idx = i` is added to that entry: attributes with their reveal flag (`HashMap::insert`: a later item for the same referent
  replaces the flag), predicates into a set. A negative `entry_idx` anywhere makes the call fail; an index beyond the entries is
  never looked at.

Maps are association lists; `HashMap::insert` is "replace the entry with that key, else add".
-/
namespace AnonModel.FfiGlue

/-- `HashMap::insert` on an association list -/
def insert {β : Type} (m : List (String × β)) (k : String) (v : β) : List (String × β) :=
  (k, v) :: m.filter (fun e => !(e.1 == k))

def insertN {β : Type} (m : List (Nat × β)) (k : Nat) (v : β) : List (Nat × β) :=
  (k, v) :: m.filter (fun e => !(e.1 == k))

/-- one row of the override table -/
structure Row where
  id : String
  requested : Nat
  override : Nat
deriving DecidableEq, Repr

/-- the loop body: `map.entry(id).or_insert_with(HashMap::new).insert(requested, override)` -/
def addRow (m : List (String × List (Nat × Nat))) (r : Row) : List (String × List (Nat × Nat)) :=
  insert m r.id (insertN ((m.lookup r.id).getD []) r.requested r.override)

/-- `_nonrevoke_interval_override` -/
def buildOverride (rows : List Row) : List (String × List (Nat × Nat)) := rows.foldl addRow []

/-- what the verifier reads: `map.get(id).and_then(|m| m.get(requested))` -/
def lookup2 (m : List (String × List (Nat × Nat))) (id : String) (requested : Nat) : Option Nat :=
  (m.lookup id).bind (fun inner => inner.lookup requested)

/-- the specification: the LAST row of the table with that registry and that requested bound -/
def lastRow (rows : List Row) (id : String) (requested : Nat) : Option Nat :=
  (rows.reverse.find? (fun r => r.id == id && r.requested == requested)).map (·.override)

/-- one item of the flat prove list -/
structure Prove where
  entryIdx : Int
  referent : String
  isPredicate : Bool
  reveal : Bool
deriving DecidableEq, Repr

/-- what one credential entry is told to prove -/
structure Selection where
  attrs : List (String × Bool)
  preds : List String
deriving Repr

/-- the inner loop for entry `i` over the complete prove list (`none` = "Invalid credential index") -/
def selectFor (i : Nat) : List Prove → Selection → Option Selection
  | [], s => some s
  | p :: rest, s =>
    if p.entryIdx < 0 then none
    else if p.entryIdx ≠ (i : Int) then selectFor i rest s
    else if p.isPredicate then selectFor i rest { s with preds := if s.preds.contains p.referent then s.preds else p.referent :: s.preds }
    else selectFor i rest { s with attrs := insert s.attrs p.referent p.reveal }

/-- `_present_credentials` for `n` entries -/
def presentCredentials (n : Nat) (proves : List Prove) : Option (List Selection) :=
  (List.range n).mapM (fun i => selectFor i proves ⟨[], []⟩)

/-- the specification of one entry's selection, independent of the order of the list: the referents asked of it -/
def askedAttr (proves : List Prove) (i : Nat) (referent : String) : Bool :=
  proves.any (fun p => p.entryIdx == (i : Int) && !p.isPredicate && p.referent == referent)

def askedPred (proves : List Prove) (i : Nat) (referent : String) : Bool :=
  proves.any (fun p => p.entryIdx == (i : Int) && p.isPredicate && p.referent == referent)

end AnonModel.FfiGlue

/-!
# M12 — the FFI object-handle store as a small-step concurrent machine

Models `/repo/src/ffi/object.rs` and `/repo/src/utils/macros.rs`:
* `new_handle_type!: next()` = `COUNTER.fetch_add(1, SeqCst) + 1` on a global `AtomicUsize`
  that starts at 0 (so handle 0 is never produced);
* `FFI_OBJECTS : Mutex<BTreeMap<ObjectHandle, AnoncredsObject>>`;
* `ObjectHandle::create` = `next()` **then** (a second atomic step) `lock().insert(handle, obj)`;
* `ObjectHandle::load` = `lock().get(&h).cloned()` — one locked step that clones the `Arc`
  (the *snapshot*); everything the caller then does with the object happens outside the lock
  on the snapshot: `anoncreds_object_get_json` (`to_json`), `anoncreds_object_get_type_name`
  (`type_name`), `cast_ref::<T>` in every entry point that takes a handle argument
  (`TypeId` comparison, error "Expected … instance, received …" on mismatch);
* `ObjectHandle::remove` = `lock().remove(&h)`; `anoncreds_object_free` ignores its result;
* `ObjectHandle::opt_load`: for `h ≠ 0` identical to `load`; for `h = 0` it returns
  `Ok(None)` without touching the store, so it is not an operation *on the store* and has
  no micro-step here.

An object is abstracted to its type tag (`TypeId`) and an identity (`id`, what the JSON
export lets an observer recognise). Threads run programs; an execution is a schedule (list of
thread ids), each occurrence performing the next atomic micro-step of that thread.

Not exhibited by this model (see `Props/C18.lean`): `Arc` reference counting (a snapshot is a
value here, so it trivially outlives a `remove`), the mutex implementation, lock poisoning
(`lock()` failing after a panic inside the lock), weak-memory effects below `SeqCst`,
`usize` wrap-around of the counter.
-/
namespace AnonModel.Store

/-- a stored object: type tag and identity -/
structure Obj where
  ty : Nat
  id : Nat
  deriving DecidableEq, Repr

/-- what a caller does with a loaded object -/
inductive GetKind where
  /-- plain `ObjectHandle::load` -/
  | load
  /-- `anoncreds_object_get_json` -/
  | json
  /-- `anoncreds_object_get_type_name` -/
  | typeName
  /-- `load` + `cast_ref::<T>` (handle passed as an argument of type `T`) -/
  | useAs (T : Nat)
  deriving DecidableEq, Repr

/-- operations of a thread's program -/
inductive Op where
  | create (o : Obj)
  | get (k : GetKind) (h : Nat)
  | free (h : Nat)
  deriving DecidableEq, Repr

abbrev Op.load (h : Nat) : Op := .get .load h
abbrev Op.json (h : Nat) : Op := .get .json h
abbrev Op.typeName (h : Nat) : Op := .get .typeName h
abbrev Op.useAs (T h : Nat) : Op := .get (.useAs T) h

/-- responses -/
inductive Res where
  /-- `create`: the new handle -/
  | handle (h : Nat)
  /-- the object was delivered (`typeName` exposes only `.ty` of it) -/
  | ok (o : Obj)
  /-- "Invalid object handle" -/
  | errInvalid
  /-- "Expected … instance, received …" -/
  | errType
  /-- `anoncreds_object_free` returns nothing -/
  | unit
  deriving DecidableEq, Repr

/-- the `BTreeMap`, as an association list -/
abbrev Map := List (Nat × Obj)

def mapGet (m : Map) (h : Nat) : Option Obj := List.lookup h m

/-- `BTreeMap::remove` -/
def mapRemove (m : Map) (h : Nat) : Map := m.filter (fun e => !(e.1 == h))

/-- `BTreeMap::insert` (replaces an existing entry) -/
def mapInsert (m : Map) (h : Nat) (o : Obj) : Map := (h, o) :: mapRemove m h

/-- lock-free use of the snapshot: `ok_or_else(Invalid object handle)`, then `cast_ref` for `useAs` -/
def useSnap : GetKind → Option Obj → Res
  | _, none => .errInvalid
  | .useAs T, some o => if o.ty = T then .ok o else .errType
  | _, some o => .ok o

/-- what a thread is in the middle of -/
inductive Pend where
  | idle
  /-- `next()` returned `h` at step `inv`; the locked insert has not happened yet -/
  | creating (o : Obj) (h : Nat) (inv : Nat)
  /-- the locked `get` + clone happened at step `inv` and produced snapshot `s`; the use of the snapshot is still to come -/
  | snap (k : GetKind) (h : Nat) (s : Option Obj) (inv : Nat)
  deriving DecidableEq, Repr

structure Thread where
  prog : List Op
  pend : Pend
  deriving Repr

/-- linearization log entry, written at the locked step -/
structure Lin where
  thread : Nat
  op : Op
  lin : Nat
  result : Res
  deriving DecidableEq, Repr

/-- completed operation: global step numbers of invocation (first micro-step), linearization
point (the locked step), response (last micro-step), and the response -/
structure Rec where
  thread : Nat
  op : Op
  inv : Nat
  lin : Nat
  res : Nat
  result : Res
  deriving DecidableEq, Repr

def Rec.toLin (r : Rec) : Lin := ⟨r.thread, r.op, r.lin, r.result⟩

structure Config where
  /-- `FFI_OBJECT_COUNTER` -/
  counter : Nat
  /-- `FFI_OBJECTS` -/
  map : Map
  threads : List Thread
  /-- global step number -/
  now : Nat
  /-- locked steps so far, most recent first (includes operations still in flight) -/
  linLog : List Lin
  /-- completed operations, most recent first -/
  hist : List Rec

/-- effect of one micro-step on the shared state and on the stepping thread -/
structure Effect where
  counter : Nat
  map : Map
  th : Thread
  lin : Option Lin
  done : Option Rec

/-- the next atomic micro-step of thread `t` -/
def micro (t now counter : Nat) (map : Map) (th : Thread) : Effect :=
  match th.pend with
  | .creating o h inv =>
    -- `FFI_OBJECTS.lock().insert(handle, obj)`; `Ok(handle)`
    ⟨counter, mapInsert map h o, ⟨th.prog, .idle⟩, some ⟨t, .create o, now, .handle h⟩,
      some ⟨t, .create o, inv, now, now, .handle h⟩⟩
  | .snap k h s inv =>
    -- lock-free use of the cloned `Arc`
    ⟨counter, map, ⟨th.prog, .idle⟩, none, some ⟨t, .get k h, inv, inv, now, useSnap k s⟩⟩
  | .idle =>
    match th.prog with
    | [] => ⟨counter, map, th, none, none⟩
    | .create o :: rest =>
      -- `COUNTER.fetch_add(1, SeqCst) + 1`
      ⟨counter + 1, map, ⟨rest, .creating o (counter + 1) now⟩, none, none⟩
    | .get k h :: rest =>
      -- `FFI_OBJECTS.lock().get(&h).cloned()`
      ⟨counter, map, ⟨rest, .snap k h (mapGet map h) now⟩,
        some ⟨t, .get k h, now, useSnap k (mapGet map h)⟩, none⟩
    | .free h :: rest =>
      -- `FFI_OBJECTS.lock().remove(&h)`, result dropped
      ⟨counter, mapRemove map h, ⟨rest, .idle⟩, some ⟨t, .free h, now, .unit⟩,
        some ⟨t, .free h, now, now, now, .unit⟩⟩

/-- one schedule element: thread `t` takes its next micro-step (nothing happens, except that
time passes, if there is no such thread or it has finished) -/
def step (t : Nat) (c : Config) : Config :=
  match c.threads[t]? with
  | none => { c with now := c.now + 1 }
  | some th =>
    let e := micro t c.now c.counter c.map th
    ⟨e.counter, e.map, c.threads.set t e.th, c.now + 1, e.lin.toList ++ c.linLog, e.done.toList ++ c.hist⟩

/-- a schedule is a list of thread ids -/
abbrev Sched := List Nat

def run : Sched → Config → Config
  | [], c => c
  | t :: ts, c => run ts (step t c)

/-- all threads idle at the start of their programs, empty store, counter 0 -/
def initCfg (progs : List (List Op)) : Config :=
  ⟨0, [], progs.map (fun p => ⟨p, .idle⟩), 0, [], []⟩

/-! ### abstract sequential specification -/

/-- spec state: a partial map plus the handles issued so far -/
structure Spec where
  map : Nat → Option Obj
  issued : List Nat

def Spec.empty : Spec := ⟨fun _ => none, []⟩

/-- one operation of the sequential spec, with the response the history claims; `none` if that
response is not the spec's (for `create`: any fresh non-zero handle is allowed) -/
def specStep (s : Spec) (l : Lin) : Option Spec :=
  match l.op, l.result with
  | .create o, .handle h =>
    if h ≠ 0 ∧ h ∉ s.issued then some ⟨fun x => if x = h then some o else s.map x, h :: s.issued⟩ else none
  | .get k h, r => if r = useSnap k (s.map h) then some s else none
  | .free h, .unit => some ⟨fun x => if x = h then none else s.map x, s.issued⟩
  | _, _ => none

/-- replay a log given most-recent-first; `none` if it is not a legal sequential history -/
def specOf : List Lin → Option Spec
  | [] => some Spec.empty
  | l :: older => (specOf older).bind (fun s => specStep s l)

/-! ### recorded real histories and their checker (correspondence harness)

An `Event` is one real call through the C ABI, stamped with an invocation ticket (drawn
before the call) and a response ticket (drawn after it returned) from one global atomic
counter; tickets are distinct naturals and `inv < res`.

`checkHistory` decides whether a history is linearizable w.r.t. the sequential spec above.
Handles are unique per create, so the problem decomposes per handle: with the create `C` of
handle `h`, its frees and its gets, a linearization exists iff there are a point `P` for the
insert and either no effective remove or a point `Q ≥ P` of the first effective remove, such that
(points are taken *between* tickets: `x` stands for a point in the gap `(x, x+1)`)
* `C.inv ≤ P < C.res`;
* every free is invoked before `P` (it can be linearized before the insert and does nothing)
  or responds after `Q` (it can be linearized at or after the first effective remove), and some
  free `f` has `f.inv ≤ Q < f.res` (it *is* that remove);
* every get that found the object (`ok`, `type_error`) has `P < g.res` and `g.inv ≤ Q`
  (it fits between insert and remove), and saw exactly `C`'s object and type (`type_error`
  iff the expected type differs from `C`'s);
* every get that answered `invalid` has `g.inv ≤ P` (fits before the insert) or `Q < g.res`
  (fits after the remove).
All lower bounds on `P` and `Q` are invocation tickets of events of `h`, all upper bounds are
strict, so if any `(P, Q)` works, rounding both down to the nearest invocation ticket of an event
of `h` works too: trying those candidates is complete. (`C.res - 1` is tried as well; it is the
latest possible insert point.) Operations on a handle that no create of the history returned
must all answer `invalid`.
-/

inductive EOp where
  | create | json | type | use | free
  deriving DecidableEq, Repr

inductive EResult where
  | ok | invalid | typeError
  deriving DecidableEq, Repr

structure Event where
  thread : Nat
  op : EOp
  /-- for `create`: the handle returned; else the handle passed -/
  handle : Nat
  /-- for `use`: the type the entry point expects (`none` = plain load, no cast) -/
  wantTy : Option Nat
  inv : Nat
  res : Nat
  result : EResult
  /-- `create`: type tag stored; `json`/`type` with `ok`: type tag observed -/
  ty : Option Nat
  /-- `create`: object id stored; `json` with `ok`: object id observed -/
  obj : Option Nat
  deriving DecidableEq, Repr

def Event.isGet (e : Event) : Bool := e.op == .json || e.op == .type || e.op == .use

/-- the response of get `g` is what a store holding `C`'s object under the handle produces -/
def presentOk (C g : Event) : Bool :=
  match g.result with
  | .ok =>
    (match g.wantTy with
      | some T => C.ty == some T
      | none => true) &&
    (g.ty == none || g.ty == C.ty) && (g.obj == none || g.obj == C.obj) &&
    (g.op != .json || g.obj.isSome) && (g.op != .type || g.ty.isSome)
  | .typeError =>
    g.op == .use && (match g.wantTy with
      | some T => C.ty != some T
      | none => false)
  | .invalid => false

/-- the conditions listed in the section header, for insert point `p` and first effective remove `q` -/
def feasible (C : Event) (frees gets : List Event) (p : Nat) (q : Option Nat) : Bool :=
  decide (C.inv ≤ p) && decide (p < C.res) &&
  gets.all (fun g => g.result == .invalid || (presentOk C g && decide (p < g.res))) &&
  match q with
  | none =>
    frees.all (fun f => decide (f.inv ≤ p)) &&
    gets.all (fun g => g.result != .invalid || decide (g.inv ≤ p))
  | some q =>
    decide (p ≤ q) &&
    frees.any (fun f => decide (f.inv ≤ q) && decide (q < f.res)) &&
    frees.all (fun f => decide (f.inv ≤ p) || decide (q < f.res)) &&
    gets.all (fun g => if g.result == .invalid then decide (g.inv ≤ p) || decide (q < g.res)
                       else decide (g.inv ≤ q))

/-- per-handle check for the handle returned by create event `C` -/
def checkHandle (C : Event) (evs : List Event) : Bool :=
  let frees := evs.filter (fun e => e.op == .free && e.handle == C.handle)
  let gets := evs.filter (fun e => e.isGet && e.handle == C.handle)
  let cands := (C :: frees ++ gets).map (·.inv)
  let ps := (C.res - 1) :: cands
  ps.any (fun p => feasible C frees gets p none || cands.any (fun q => feasible C frees gets p (some q)))

/-- executable duplicate check (`decide (l.Nodup)` compiles to code that re-evaluates the recursive
instance and takes exponential time on long lists) -/
def nodupB : List Nat → Bool
  | [] => true
  | a :: l => !l.contains a && nodupB l

theorem nodupB_iff (l : List Nat) : nodupB l = true ↔ l.Nodup := by
  induction l with
  | nil => simp [nodupB]
  | cons a l ih => simp [nodupB, ih, List.nodup_cons]

/-- is the recorded history linearizable w.r.t. the sequential store spec? -/
def checkHistory (evs : List Event) : Bool :=
  let creates := evs.filter (fun e => e.op == .create)
  -- tickets
  evs.all (fun e => decide (e.inv < e.res)) &&
  -- creates succeed, return non-zero handles, and say what they stored
  creates.all (fun e => e.result == .ok && e.handle != 0 && e.ty.isSome && e.obj.isSome) &&
  -- no handle is returned twice
  nodupB (creates.map (·.handle)) &&
  -- the counter is monotone in real time
  creates.all (fun a => creates.all (fun b => !decide (a.res < b.inv) || decide (a.handle < b.handle))) &&
  -- `anoncreds_object_free` cannot fail
  evs.all (fun e => e.op != .free || e.result == .ok) &&
  -- operations on handles never returned by a create of this history
  evs.all (fun e => !e.isGet || creates.any (fun c => c.handle == e.handle) || e.result == .invalid) &&
  -- per created handle
  creates.all (fun c => checkHandle c evs)

/-- abstraction of a model record to an event: step `s` becomes invocation ticket `2s` and
response ticket `2s+1` (so tickets are distinct and `inv < res` even for single-step
operations). `none` for combinations of operation and response the machine never produces. -/
def Rec.toEvent (r : Rec) : Option Event :=
  match r.op, r.result with
  | .create o, .handle h => some ⟨r.thread, .create, h, none, 2 * r.inv, 2 * r.res + 1, .ok, some o.ty, some o.id⟩
  | .free h, .unit => some ⟨r.thread, .free, h, none, 2 * r.inv, 2 * r.res + 1, .ok, none, none⟩
  | .get .json h, .ok o => some ⟨r.thread, .json, h, none, 2 * r.inv, 2 * r.res + 1, .ok, some o.ty, some o.id⟩
  | .get .typeName h, .ok o => some ⟨r.thread, .type, h, none, 2 * r.inv, 2 * r.res + 1, .ok, some o.ty, none⟩
  | .get .load h, .ok _ => some ⟨r.thread, .use, h, none, 2 * r.inv, 2 * r.res + 1, .ok, none, none⟩
  | .get (.useAs T) h, .ok _ => some ⟨r.thread, .use, h, some T, 2 * r.inv, 2 * r.res + 1, .ok, none, none⟩
  | .get (.useAs T) h, .errType => some ⟨r.thread, .use, h, some T, 2 * r.inv, 2 * r.res + 1, .typeError, none, none⟩
  | .get .json h, .errInvalid => some ⟨r.thread, .json, h, none, 2 * r.inv, 2 * r.res + 1, .invalid, none, none⟩
  | .get .typeName h, .errInvalid => some ⟨r.thread, .type, h, none, 2 * r.inv, 2 * r.res + 1, .invalid, none, none⟩
  | .get .load h, .errInvalid => some ⟨r.thread, .use, h, none, 2 * r.inv, 2 * r.res + 1, .invalid, none, none⟩
  | .get (.useAs T) h, .errInvalid => some ⟨r.thread, .use, h, some T, 2 * r.inv, 2 * r.res + 1, .invalid, none, none⟩
  | _, _ => none

def toEvents (hist : List Rec) : List Event := hist.filterMap Rec.toEvent

end AnonModel.Store

/-!
# M12 — the FFI object-handle store as a small-step concurrent machine

Models `/repo/src/ffi/object.rs` and `/repo/src/utils/macros.rs`:
* `new_handle_type!: next()` = `COUNTER.fetch_add(1, SeqCst) + 1` on a global `AtomicUsize`
  that starts at 0 (so handle 0 is never produced);
* `FFI_OBJECTS : Mutex<BTreeMap<ObjectHandle, AnoncredsObject>>`;
* `ObjectHandle::create` = `next()` **then** (a second atomic step) `lock().insert(handle, obj)`;
* `ObjectHandle::load` = `lock().get(&h).cloned()` — one locked step that clones the `Arc`
  (the *snapshot*); everything the caller then does with the object happens outside the lock
  on the snapshot: `anoncreds_object_get_json` (`to_json`), `anoncreds_object_get_type_name`
  (`type_name`), `cast_ref::<T>` in every entry point that takes a handle argument
  (`TypeId` comparison, error "Expected … instance, received …" on mismatch);
* `ObjectHandle::remove` = `lock().remove(&h)`; `anoncreds_object_free` ignores its result;
* `ObjectHandle::opt_load`: for `h ≠ 0` identical to `load`; for `h = 0` it returns
  `Ok(None)` without touching the store, so it is not an operation *on the store* and has
  no micro-step here.

An object is abstracted to its type tag (`TypeId`) and an identity (`id`, what the JSON
export lets an observer recognise). Threads run programs; an execution is a schedule (list of
thread ids), each occurrence performing the next atomic micro-step of that thread.

Not exhibited by this model (see `Props/C18.lean`): `Arc` reference counting (a snapshot is a
value here, so it trivially outlives a `remove`), the mutex implementation, lock poisoning
(`lock()` failing after a panic inside the lock), weak-memory effects below `SeqCst`,
`usize` wrap-around of the counter.
-/
namespace AnonModel.Store

/-- a stored object: type tag and identity -/
structure Obj where
  ty : Nat
  id : Nat
  deriving DecidableEq, Repr

/-- what a caller does with a loaded object -/
inductive GetKind where
  /-- plain `ObjectHandle::load` -/
  | load
  /-- `anoncreds_object_get_json` -/
  | json
  /-- `anoncreds_object_get_type_name` -/
  | typeName
  /-- `load` + `cast_ref::<T>` (handle passed as an argument of type `T`) -/
  | useAs (T : Nat)
  deriving DecidableEq, Repr

/-- operations of a thread's program -/
inductive Op where
  | create (o : Obj)
  | get (k : GetKind) (h : Nat)
  | free (h : Nat)
  deriving DecidableEq, Repr

abbrev Op.load (h : Nat) : Op := .get .load h
abbrev Op.json (h : Nat) : Op := .get .json h
abbrev Op.typeName (h : Nat) : Op := .get .typeName h
abbrev Op.useAs (T h : Nat) : Op := .get (.useAs T) h

/-- responses -/
inductive Res where
  /-- `create`: the new handle -/
  | handle (h : Nat)
  /-- the object was delivered (`typeName` exposes only `.ty` of it) -/
  | ok (o : Obj)
  /-- "Invalid object handle" -/
  | errInvalid
  /-- "Expected … instance, received …" -/
  | errType
  /-- `anoncreds_object_free` returns nothing -/
  | unit
  deriving DecidableEq, Repr

/-- the `BTreeMap`, as an association list -/
abbrev Map := List (Nat × Obj)

def mapGet (m : Map) (h : Nat) : Option Obj := List.lookup h m

/-- `BTreeMap::remove` -/
def mapRemove (m : Map) (h : Nat) : Map := m.filter (fun e => !(e.1 == h))

/-- `BTreeMap::insert` (replaces an existing entry) -/
def mapInsert (m : Map) (h : Nat) (o : Obj) : Map := (h, o) :: mapRemove m h

/-- lock-free use of the snapshot: `ok_or_else(Invalid object handle)`, then `cast_ref` for `useAs` -/
def useSnap : GetKind → Option Obj → Res
  | _, none => .errInvalid
  | .useAs T, some o => if o.ty = T then .ok o else .errType
  | _, some o => .ok o

/-- what a thread is in the middle of -/
inductive Pend where
  | idle
  /-- `next()` returned `h` at step `inv`; the locked insert has not happened yet -/
  | creating (o : Obj) (h : Nat) (inv : Nat)
  /-- the locked `get` + clone happened at step `inv` and produced snapshot `s`; the use of the snapshot is still to come -/
  | snap (k : GetKind) (h : Nat) (s : Option Obj) (inv : Nat)
  deriving DecidableEq, Repr

structure Thread where
  prog : List Op
  pend : Pend
  deriving Repr

/-- linearization log entry, written at the locked step -/
structure Lin where
  thread : Nat
  op : Op
  lin : Nat
  result : Res
  deriving DecidableEq, Repr

/-- completed operation: global step numbers of invocation (first micro-step), linearization
point (the locked step), response (last micro-step), and the response -/
structure Rec where
  thread : Nat
  op : Op
  inv : Nat
  lin : Nat
  res : Nat
  result : Res
  deriving DecidableEq, Repr

def Rec.toLin (r : Rec) : Lin := ⟨r.thread, r.op, r.lin, r.result⟩

structure Config where
  /-- `FFI_OBJECT_COUNTER` -/
  counter : Nat
  /-- `FFI_OBJECTS` -/
  map : Map
  threads : List Thread
  /-- global step number -/
  now : Nat
  /-- locked steps so far, most recent first (includes operations still in flight) -/
  linLog : List Lin
  /-- completed operations, most recent first -/
  hist : List Rec

/-- effect of one micro-step on the shared state and on the stepping thread -/
structure Effect where
  counter : Nat
  map : Map
  th : Thread
  lin : Option Lin
  done : Option Rec

/-- the next atomic micro-step of thread `t` -/
def micro (t now counter : Nat) (map : Map) (th : Thread) : Effect :=
  match th.pend with
  | .creating o h inv =>
    -- `FFI_OBJECTS.lock().insert(handle, obj)`; `Ok(handle)`
    ⟨counter, mapInsert map h o, ⟨th.prog, .idle⟩, some ⟨t, .create o, now, .handle h⟩,
      some ⟨t, .create o, inv, now, now, .handle h⟩⟩
  | .snap k h s inv =>
    -- lock-free use of the cloned `Arc`
    ⟨counter, map, ⟨th.prog, .idle⟩, none, some ⟨t, .get k h, inv, inv, now, useSnap k s⟩⟩
  | .idle =>
    match th.prog with
    | [] => ⟨counter, map, th, none, none⟩
    | .create o :: rest =>
      -- `COUNTER.fetch_add(1, SeqCst) + 1`
      ⟨counter + 1, map, ⟨rest, .creating o (counter + 1) now⟩, none, none⟩
    | .get k h :: rest =>
      -- `FFI_OBJECTS.lock().get(&h).cloned()`
      ⟨counter, map, ⟨rest, .snap k h (mapGet map h) now⟩,
        some ⟨t, .get k h, now, useSnap k (mapGet map h)⟩, none⟩
    | .free h :: rest =>
      -- `FFI_OBJECTS.lock().remove(&h)`, result dropped
      ⟨counter, mapRemove map h, ⟨rest, .idle⟩, some ⟨t, .free h, now, .unit⟩,
        some ⟨t, .free h, now, now, now, .unit⟩⟩

/-- one schedule element: thread `t` takes its next micro-step (nothing happens, except that
time passes, if there is no such thread or it has finished) -/
def step (t : Nat) (c : Config) : Config :=
  match c.threads[t]? with
  | none => { c with now := c.now + 1 }
  | some th =>
    let e := micro t c.now c.counter c.map th
    ⟨e.counter, e.map, c.threads.set t e.th, c.now + 1, e.lin.toList ++ c.linLog, e.done.toList ++ c.hist⟩

/-- a schedule is a list of thread ids -/
abbrev Sched := List Nat

def run : Sched → Config → Config
  | [], c => c
  | t :: ts, c => run ts (step t c)

/-- all threads idle at the start of their programs, empty store, counter 0 -/
def initCfg (progs : List (List Op)) : Config :=
  ⟨0, [], progs.map (fun p => ⟨p, .idle⟩), 0, [], []⟩

/-! ### abstract sequential specification -/

/-- spec state: a partial map plus the handles issued so far -/
structure Spec where
  map : Nat → Option Obj
  issued : List Nat

def Spec.empty : Spec := ⟨fun _ => none, []⟩

/-- one operation of the sequential spec, with the response the history claims; `none` if that
response is not the spec's (for `create`: any fresh non-zero handle is allowed) -/
def specStep (s : Spec) (l : Lin) : Option Spec :=
  match l.op, l.result with
  | .create o, .handle h =>
    if h ≠ 0 ∧ h ∉ s.issued then some ⟨fun x => if x = h then some o else s.map x, h :: s.issued⟩ else none
  | .get k h, r => if r = useSnap k (s.map h) then some s else none
  | .free h, .unit => some ⟨fun x => if x = h then none else s.map x, s.issued⟩
  | _, _ => none

/-- replay a log given most-recent-first; `none` if it is not a legal sequential history -/
def specOf : List Lin → Option Spec
  | [] => some Spec.empty
  | l :: older => (specOf older).bind (fun s => specStep s l)

end AnonModel.Store

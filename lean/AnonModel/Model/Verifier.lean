import AnonModel.Model.Encode
import AnonModel.Model.Names
import AnonModel.Model.Ident
import AnonModel.Model.Query
import AnonModel.Model.Interval
import AnonModel.Model.IdealCL
/-!
# M10 — the legacy verifier (`services/verifier.rs: verify_presentation` and helpers)

Every Rust function is mirrored by one definition; maps are association lists (the Rust `HashMap`s
have unique keys — `Nodup` of keys is a hypothesis of the theorems that need it, and lookups are
first-match). The outcome type keeps `panic` apart from `err`: every Rust expression of the
non-test code that can panic (`unwrap`, index) is a `panic` branch here, so "never panics" is a
theorem about this model (C12), not an assumption.
-/
namespace AnonModel.Verifier
open AnonModel.Query (Query Filter)
open AnonModel.Interval (Ivl Overrides)
open AnonModel.IdealCL

/-- verifier result: `Ok(b)`, `Err(_)`, or a panic at a numbered site -/
inductive Outcome where
  | ok (b : Bool)
  | err
  | panic (site : Nat)
deriving DecidableEq, Repr, Inhabited

/-! ## Data (mirrors `data_types/pres_request.rs`, `data_types/presentation.rs`) -/

structure AttrInfo where
  name : Option String
  names : Option (List String)
  restrictions : Option Query
  nonRevoked : Option Ivl
deriving Repr, Inhabited

structure PredInfo where
  name : String
  /-- `"GE" | "GT" | "LE" | "LT"` (`PredicateTypes` → `cl::PredicateType`) -/
  ty : String
  value : Int
  restrictions : Option Query
  nonRevoked : Option Ivl
deriving Repr, Inhabited

structure Request where
  nonce : String
  attrs : List (String × AttrInfo)
  preds : List (String × PredInfo)
  nonRevoked : Option Ivl
deriving Repr, Inhabited

structure RevealedInfo where
  idx : Nat
  raw : String
  encoded : String
deriving Repr, Inhabited

structure GroupInfo where
  idx : Nat
  /-- name ↦ (raw, encoded) -/
  values : List (String × (String × String))
deriving Repr, Inhabited

structure Identifier where
  schemaId : String
  credDefId : String
  revRegId : Option String
  timestamp : Option Nat
deriving Repr, Inhabited

/-- `Presentation` = `requested_proof` (five maps) + `identifiers` + `proof` -/
structure Presentation where
  revealed : List (String × RevealedInfo)
  groups : List (String × GroupInfo)
  selfAttested : List (String × String)
  unrevealed : List (String × Nat)
  predicates : List (String × Nat)
  identifiers : List Identifier
  subs : List SymSub
  agg : SymAgg
deriving Repr, Inhabited

structure SchemaInfo where
  name : String
  version : String
  issuerId : String
  attrNames : List String
deriving Repr, Inhabited

structure CredDefInfo where
  issuerId : String
  /-- ghost id of the public key contained in this definition -/
  key : Nat
  /-- `value.revocation.is_some()` -/
  revocable : Bool
deriving Repr, Inhabited

structure RevRegDefInfo where
  /-- ghost id of `value.public_keys.accum_key` -/
  regKey : Nat
deriving Repr, Inhabited

structure StatusListInfo where
  regId : Option String
  ts : Option Nat
  /-- ghost id (equivalence class) of the accumulator value, if the list carries one -/
  acc : Option Nat
deriving Repr, Inhabited

/-- everything the verifier supplies besides request and presentation -/
structure Ctx where
  schemas : List (String × SchemaInfo)
  credDefs : List (String × CredDefInfo)
  revRegDefs : Option (List (String × RevRegDefInfo))
  lists : Option (List StatusListInfo)
  override : Option Overrides
deriving Repr, Inhabited

/-! ## Helpers -/

def keys {α β : Type} (m : List (α × β)) : List α := m.map Prod.fst

/-- equality of two key collections as sets (`HashSet ==`) -/
def sameSet (a b : List String) : Bool :=
  a.all (fun x => b.contains x) && b.all (fun x => a.contains x)

/-- `get_proof_identifier(..).is_ok()` for every `sub_proof_index` of the four indexed maps
(`received_revealed_attrs`, `received_unrevealed_attrs`, `received_predicates`) -/
def indicesOk (p : Presentation) : Bool :=
  let n := p.identifiers.length
  p.revealed.all (fun kv => decide (kv.2.idx < n)) &&
  p.groups.all (fun kv => decide (kv.2.idx < n)) &&
  p.unrevealed.all (fun kv => decide (kv.2 < n)) &&
  p.predicates.all (fun kv => decide (kv.2 < n))

/-- `check_unique_attr_referents(..).is_ok()`: no referent occurs in more than one of
`revealed_attrs`, `revealed_attr_groups`, `unrevealed_attrs` -/
def noDup : List String → Bool
  | [] => true
  | x :: xs => !xs.contains x && noDup xs

def uniqueReferents (p : Presentation) : Bool :=
  noDup (keys p.revealed ++ keys p.groups ++ keys p.unrevealed)

/-- `compare_attr_from_proof_and_request(..).is_ok()` -/
def compareAttrs (r : Request) (p : Presentation) : Bool :=
  sameSet (keys r.attrs) (keys p.revealed ++ keys p.groups ++ keys p.unrevealed ++ keys p.selfAttested) &&
  sameSet (keys r.preds) (keys p.predicates)

/-- `verify_revealed_attribute_value(name, sub_proof, encoded).is_ok()` -/
def revealedValueOk (name : String) (s : SymSub) (encoded : String) : Bool :=
  match Names.lookupNorm s.revealed name with
  | none => false
  | some kv => Encode.normalizeEnc encoded == kv.2

/-- `verify_revealed_attribute_values(..).is_ok()` -/
def revealedValuesOk (r : Request) (p : Presentation) : Bool :=
  p.revealed.all (fun kv =>
    match r.attrs.lookup kv.1 with
    | none => false
    | some info =>
      match info.name with
      | none => false
      | some name =>
        match p.subs[kv.2.idx]? with
        | none => false
        | some s => revealedValueOk name s kv.2.encoded) &&
  p.groups.all (fun kv =>
    match p.subs[kv.2.idx]? with
    | none => false
    | some s =>
      match r.attrs.lookup kv.1 with
      | none => false
      | some info =>
        match info.names with
        | none => false
        | some names =>
          -- the group holds exactly the requested names (as a set: a request may repeat a name)
          decide (kv.2.values.length = names.eraseDups.length) &&
          names.all (fun n =>
            match kv.2.values.lookup n with
            | none => false
            | some re => revealedValueOk n s re.2))

/-- the names a requested attribute asks for (`name` and/or `names`) -/
def AttrInfo.allNames (a : AttrInfo) : List String :=
  (match a.name with | some n => [n] | none => []) ++ (match a.names with | some ns => ns | none => [])

/-- `verify_unrevealed_attributes(..).is_ok()`: every unrevealed referent is requested, its
identifier and schema exist, and the schema has every requested name -/
def unrevealedOk (ctx : Ctx) (r : Request) (p : Presentation) : Bool :=
  p.unrevealed.all (fun kv =>
    match r.attrs.lookup kv.1 with
    | none => false
    | some info =>
      match p.identifiers[kv.2]? with
      | none => false
      | some id =>
        match ctx.schemas.lookup id.schemaId with
        | none => false
        | some sc => info.allNames.all (fun n => Names.hasNorm sc.attrNames n))

/-- `verify_requested_predicates(..).is_ok()`: every predicate referent of the presentation is
requested, and the sub-proof it points to proves exactly (name, type, value) -/
def predicatesOk (r : Request) (p : Presentation) : Bool :=
  p.predicates.all (fun kv =>
    match r.preds.lookup kv.1 with
    | none => false
    | some q =>
      match p.subs[kv.2]? with
      | none => false
      | some s =>
        s.preds.any (fun pr =>
          Names.commonView pr.attr == Names.commonView q.name && pr.ty == q.ty && pr.value == q.value))

/-- `gather_filter_info` -/
def gatherFilter (ctx : Ctx) (id : Identifier) : Option Filter :=
  match ctx.schemas.lookup id.schemaId, ctx.credDefs.lookup id.credDefId with
  | some sc, some cd =>
    some { schemaId := id.schemaId, schemaIssuerId := sc.issuerId, schemaName := sc.name,
           schemaVersion := sc.version, issuerId := cd.issuerId, credDefId := id.credDefId }
  | _, _ => none

/-- all restriction tag names of the request (`filter_tags`) -/
def filterTags (r : Request) : List String :=
  (r.attrs.flatMap (fun kv => match kv.2.restrictions with | some q => Query.names q | none => [])) ++
  (r.preds.flatMap (fun kv => match kv.2.restrictions with | some q => Query.names q | none => []))

def tagsMixed (r : Request) : Bool :=
  let t := filterTags r
  (t.contains "issuer_id" && t.contains "issuer_did") ||
  (t.contains "schema_issuer_id" && t.contains "schema_issuer_did")

/-- `proof_attr_identifiers`: revealed (singles then groups) chained with unrevealed, collected into a
map — a later entry for the same referent replaces an earlier one -/
def attrIdentifierIdx (p : Presentation) (referent : String) : Option Nat :=
  match p.unrevealed.lookup referent with
  | some i => some i
  | none =>
    match p.groups.lookup referent with
    | some g => some g.idx
    | none => (p.revealed.lookup referent).map (·.idx)

/-- restriction check of one attribute referent (body of the first loop of
`verify_requested_restrictions`) -/
def attrRestrictionOk (ctx : Ctx) (p : Presentation) (referent : String) (info : AttrInfo)
    (q : Query) : Bool :=
  match attrIdentifierIdx p referent with
  | none => false
  | some i =>
    match p.identifiers[i]? with
    | none => false
    | some id =>
      match gatherFilter ctx id with
      | none => false
      | some f =>
        match info.name with
        | some name =>
          Query.eval Ident.isLegacyDid [(name, (p.revealed.lookup referent).map (·.raw))] f q
        | none =>
          match info.names with
          | some names =>
            -- a group the holder left unrevealed has no values to compare; a referent in neither map is an error
            let g := p.groups.lookup referent
            if g.isNone && !(keys p.unrevealed).contains referent then false
            else
              -- later duplicates of a name overwrite earlier ones in the Rust map: same value anyway
              Query.eval Ident.isLegacyDid
                (names.map (fun n => (n, (g.bind (fun g => g.values.lookup n)).map (·.1)))) f q
          | none => false

/-- value map of a predicate referent: the predicate's attribute (unrevealed) overlaid by the raw
values of every revealed single / group member on the same sub-proof index.
`HashMap::insert` overwrites, lookups here are first-match, so later inserts go in front. -/
def predValueMap (r : Request) (p : Presentation) (info : PredInfo) (pi : Nat) :
    List (String × Option String) :=
  let fromGroups := p.groups.flatMap (fun kv =>
    if kv.2.idx = pi then kv.2.values.map (fun nv => (nv.1, some nv.2.1)) else [])
  let fromSingles := p.revealed.flatMap (fun kv =>
    if kv.2.idx = pi then
      match (r.attrs.lookup kv.1).bind (·.name) with
      | some name => [(name, some kv.2.raw)]
      | none => []
    else [])
  fromGroups.reverse ++ fromSingles.reverse ++ [(info.name, none)]

/-- `verify_requested_restrictions`: `err`/`ok`, or `panic` at the `unwrap` of
`requested_proof.predicates.get(referent)` (site 1) — the only `unwrap` of this function whose
argument is not a key just taken from the same map -/
def restrictionsOutcome (ctx : Ctx) (r : Request) (p : Presentation) : Outcome :=
  if tagsMixed r then .err
  else if !(r.attrs.all (fun kv =>
      if Query.isSelfAttested kv.2.restrictions ((keys p.selfAttested).contains kv.1) then true
      else match kv.2.restrictions with
        | none => true
        | some q => attrRestrictionOk ctx p kv.1 kv.2 q)) then .err
  else
    -- predicates, in order; stop at the first failure
    let rec go : List (String × PredInfo) → Outcome
      | [] => .ok true
      | (referent, info) :: rest =>
        match info.restrictions with
        | none => go rest
        | some q =>
          -- `received_predicates.get(referent)` (built from `requested_proof.predicates`)
          match p.predicates.lookup referent with
          | none => .err
          | some pi =>
            match p.identifiers[pi]? with
            | none => .err
            | some id =>
              match gatherFilter ctx id with
              | none => .err
              | some f =>
                if Query.eval Ident.isLegacyDid (predValueMap r p info pi) f q then go rest else .err
    go r.preds

/-- `build_revocation_registry_map(..).is_ok()`: every supplied list has id, timestamp, accumulator -/
def listsOk (ctx : Ctx) : Bool :=
  match ctx.lists with
  | none => true
  | some ls => ls.all (fun l => l.regId.isSome && l.ts.isSome && l.acc.isSome)

/-- registry lookup of `get_revocation_registry`: the *last* list for (id, timestamp) wins -/
def findList (ls : List StatusListInfo) (rid : String) (ts : Nat) : Option StatusListInfo :=
  ls.reverse.find? (fun l => l.regId == some rid && l.ts == some ts)

/-- `CLProofVerifier::get_revocation_registry`: `none` = `Err` -/
def revocationRegistry (ctx : Ctx) (id : Identifier) : Option (Option Nat × Option Nat) :=
  match id.revRegId, id.timestamp with
  | some rid, some ts =>
    match ctx.revRegDefs, ctx.lists with
    | some defs, some ls =>
      match defs.lookup rid, findList ls rid ts with
      | some d, some l => some (some d.regKey, l.acc)
      | _, _ => none
    | _, _ => none
  | _, _ => some (none, none)

/-- local intervals of the referents the verifier attributes to credential `i`:
revealed singles and groups (`get_attributes_for_credential`) — not unrevealed ones -/
def attrLocals (r : Request) (p : Presentation) (i : Nat) : Option (List (Option Ivl)) :=
  let refs := (p.revealed.filter (fun kv => kv.2.idx = i)).map Prod.fst ++
              (p.groups.filter (fun kv => kv.2.idx = i)).map Prod.fst
  refs.mapM (fun ref => (r.attrs.lookup ref).map (·.nonRevoked))

def predLocals (r : Request) (p : Presentation) (i : Nat) : Option (List (Option Ivl)) :=
  let refs := (p.predicates.filter (fun kv => kv.2 = i)).map Prod.fst
  refs.mapM (fun ref => (r.preds.lookup ref).map (·.nonRevoked))

/-- body of the per-identifier loop of `verify_presentation`: interval check, then
`add_sub_proof`; yields the `SubCtx` handed to the CL verifier, `none` = `Err` -/
def subCtxFor (ctx : Ctx) (r : Request) (p : Presentation) (i : Nat) (id : Identifier) :
    Option SubCtx :=
  match attrLocals r p i, predLocals r p i with
  | some al, some pl =>
    match ctx.credDefs.lookup id.credDefId with
    | none => none
    | some cd =>
      if !Interval.checkLegacy cd.revocable (Interval.foldLocals al) (Interval.foldLocals pl)
            r.nonRevoked id.revRegId ctx.override id.timestamp then none
      else
        match p.subs[i]? with
        | none => none
        | some s =>
          match ctx.schemas.lookup id.schemaId with
          | none => none
          | some sc =>
            match revocationRegistry ctx id with
            | none => none
            | some (regKey, acc) =>
              let c : SubCtx := { schemaAttrs := sc.attrNames.map Names.commonView, key := cd.key,
                                  hasRevKey := cd.revocable, regKey := regKey, acc := acc }
              if addSubProofRequestOk c s then some c else none
  | _, _ => none

def subCtxs (ctx : Ctx) (r : Request) (p : Presentation) : Option (List SubCtx) :=
  (List.range p.identifiers.length).mapM (fun i =>
    match p.identifiers[i]? with
    | none => none
    | some id => subCtxFor ctx r p i id)

/-- `services/verifier.rs: verify_presentation` -/
def verifyLegacy (ctx : Ctx) (r : Request) (p : Presentation) : Outcome :=
  if !indicesOk p then .err
  else if !uniqueReferents p then .err
  else if !compareAttrs r p then .err
  else if !revealedValuesOk r p then .err
  else if !unrevealedOk ctx r p then .err
  else if !predicatesOk r p then .err
  else
    match restrictionsOutcome ctx r p with
    | .panic s => .panic s
    | .err => .err
    | .ok false => .err
    | .ok true =>
      if !listsOk ctx then .err
      else
        match subCtxs ctx r p with
        | none => .err
        | some cs =>
          match IdealCL.verify cs p.subs p.agg r.nonce true with
          | none => .err
          | some b => .ok b

end AnonModel.Verifier

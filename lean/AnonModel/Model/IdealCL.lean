import AnonModel.Model.Names
import AnonModel.Model.Encode
/-!
# M8 — IdealCL: the ideal functionality standing in for `anoncreds-clsignatures`

Symbolic credentials, sub-proofs and aggregated proofs. Fields marked *ghost* are never read by
model code that mirrors Rust service code; only `IdealCL.verify` (and the theorems) read them: they
say what was really signed and what was really proven. The assumptions this encodes are listed in
DESIGN §4 (trusted base) and are validated against the real crate by the correspondence runs — the
harness fills the ghost fields from its knowledge of how each object was built or altered.

`verify` mirrors the *control flow* of `ProofVerifier::verify` — in particular the two non-ideal
facts that matter: the non-revocation check is silently skipped unless proof part, revocation public
key, registry and registry key are all present; link-secret equality across sub-proofs is checked
only for attributes the caller registered as common.
-/
namespace AnonModel.IdealCL

/-- a predicate as carried by a sub-proof / sub-proof request (`cl::Predicate`):
attribute name, type (`"GE" | "GT" | "LE" | "LT"`), threshold -/
structure Pred where
  attr : String
  ty : String
  value : Int
deriving DecidableEq, Repr, Inhabited

/-- *ghost*: what an issuer key really signed -/
structure SymCred where
  /-- id of the issuer key pair that produced the signature -/
  key : Nat
  /-- normalised attribute name ↦ encoded (decimal) value -/
  attrs : List (String × String)
  /-- id of the link secret the credential was issued to -/
  holder : Nat
  /-- registry key id and index, when issued with revocation -/
  rev : Option (Nat × Nat)
deriving DecidableEq, Repr, Inhabited

/-- *ghost*: the non-revocation part a sub-proof was built with -/
structure SymNrp where
  /-- registry key of the registry the holder's state belongs to -/
  regKey : Nat
  /-- index the witness is for -/
  idx : Nat
  /-- id (equivalence class) of the accumulator value in the holder's revocation state -/
  acc : Nat
  /-- the witness satisfies the accumulator equation for (`idx`, `acc`) -/
  witOk : Bool
deriving DecidableEq, Repr, Inhabited

/-- a sub-proof. `revealed` and `preds` are visible to service code
(`SubProof::revealed_attrs()`, `SubProof::predicates()`); the rest is ghost. -/
structure SymSub where
  /-- visible: revealed attribute name ↦ decimal value, as carried by the equality proof -/
  revealed : List (String × String)
  /-- visible: predicates carried by the range proofs -/
  preds : List Pred
  /-- ghost: the credential the sub-proof was built from -/
  cred : SymCred
  /-- ghost: non-revocation part (its *presence* is what `verify` branches on) -/
  nrp : Option SymNrp
  /-- ghost: link-secret response — equal iff same link secret and same blinding (session) -/
  ms : Nat × Nat
  /-- ghost: false after any alteration of a number of the sub-proof -/
  intact : Bool
  /-- ghost: identity of the sub-proof as hashed into the aggregated proof -/
  uid : Nat
deriving DecidableEq, Repr, Inhabited

/-- the aggregated proof -/
structure SymAgg where
  /-- ghost: nonce hashed in -/
  nonce : String
  /-- ghost: the sub-proofs hashed in, in order, each with "non-revocation part hashed in?" -/
  bound : List (Nat × Bool)
  /-- ghost: false after any alteration -/
  intact : Bool
deriving DecidableEq, Repr, Inhabited

/-- what `CLProofVerifier::add_sub_proof` hands to `ProofVerifier::add_sub_proof_request` -/
structure SubCtx where
  /-- normalised attribute names of the schema (`build_credential_schema`) -/
  schemaAttrs : List String
  /-- id of the public key in the credential definition supplied by the verifier -/
  key : Nat
  /-- the credential definition has a revocation part (`CredentialPublicKey.r_key`) -/
  hasRevKey : Bool
  /-- registry key id (`rev_key_pub`), when a registry definition was looked up -/
  regKey : Option Nat
  /-- accumulator id (`rev_reg`), when a status list was looked up -/
  acc : Option Nat
deriving Repr, Inhabited

/-- does the predicate hold of the signed values? (decimal strings → integers) -/
def predHolds (attrs : List (String × String)) (p : Pred) : Bool :=
  match attrs.lookup p.attr with
  | none => false
  | some enc =>
    -- the CL crate reads the signed value as an `i32` (`to_dec().parse::<i32>()`): anything else is refused
    match Encode.parseI32 enc.toList with
    | none => false
    | some v =>
      if p.ty = "GE" then decide (v ≥ p.value)
      else if p.ty = "GT" then decide (v > p.value)
      else if p.ty = "LE" then decide (v ≤ p.value)
      else if p.ty = "LT" then decide (v < p.value)
      else false

/-- `ProofVerifier::add_sub_proof_request` consistency check: the sub-proof request (which the service
code rebuilds from the sub-proof itself, names normalised once more) must only mention schema attributes -/
def addSubProofRequestOk (c : SubCtx) (s : SymSub) : Bool :=
  s.revealed.all (fun kv => c.schemaAttrs.contains (Names.commonView kv.1)) &&
  s.preds.all (fun p => c.schemaAttrs.contains (Names.commonView p.attr))

/-- the request rebuilt from the proof names the same revealed attributes / predicates as the proof:
true unless normalising a (tampered) name changes it -/
def paramsConsistent (s : SymSub) : Bool :=
  s.revealed.all (fun kv => Names.commonView kv.1 == kv.1) &&
  s.preds.all (fun p => Names.commonView p.attr == p.attr)

/-- will `verify` check the non-revocation part of this sub-proof? (silently skipped otherwise) -/
def nrpChecked (c : SubCtx) (s : SymSub) : Bool :=
  s.nrp.isSome && c.hasRevKey && c.regKey.isSome && c.acc.isSome

/-- ideal answer of the primary (equality + range) proof verification -/
def primaryOk (c : SubCtx) (s : SymSub) : Bool :=
  s.intact &&
  decide (s.cred.key = c.key) &&
  -- the schema the verifier uses names exactly the signed attributes
  (c.schemaAttrs.all (fun a => (s.cred.attrs.map Prod.fst).contains a) &&
   (s.cred.attrs.map Prod.fst).all (fun a => c.schemaAttrs.contains a)) &&
  -- revealed values are the signed ones
  s.revealed.all (fun kv => s.cred.attrs.lookup kv.1 == some kv.2) &&
  -- proven predicates hold of the signed values
  s.preds.all (predHolds s.cred.attrs)

/-- ideal answer of the non-revocation proof verification -/
def nrpOk (c : SubCtx) (s : SymSub) : Bool :=
  match s.nrp with
  | none => true
  | some n =>
    n.witOk && decide (some n.regKey = c.regKey) && decide (some n.acc = c.acc) &&
    decide (s.cred.rev = some (n.regKey, n.idx))

/-- `ProofVerifier::verify`: `none` = `Err`, `some b` = `Ok(b)`.
`common` = "a common attribute (`master_secret`) was registered" -/
def verify (ctxs : List SubCtx) (subs : List SymSub) (agg : SymAgg) (nonce : String)
    (common : Bool) : Option Bool :=
  if ctxs.length ≠ subs.length then none
  else
    let pairs := ctxs.zip subs
    if !pairs.all (fun cs => paramsConsistent cs.2) then none
    else if common && !(match subs with
        | [] => true
        | s :: rest => rest.all (fun t => t.ms == s.ms)) then none
    else
      some (agg.intact && decide (agg.nonce = nonce) &&
        decide (agg.bound = pairs.map (fun cs => (cs.2.uid, nrpChecked cs.1 cs.2))) &&
        pairs.all (fun cs => primaryOk cs.1 cs.2 && (!nrpChecked cs.1 cs.2 || nrpOk cs.1 cs.2)))

end AnonModel.IdealCL

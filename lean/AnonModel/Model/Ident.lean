/-!
# M2 — identifier grammar, schema and credential-request validation

Models
* the five anchored regular expressions of `utils/validation.rs`
  (`URI_IDENTIFIER`, `LEGACY_DID_IDENTIFIER`, `LEGACY_SCHEMA_IDENTIFIER`,
  `LEGACY_CRED_DEF_IDENTIFIER`, `LEGACY_REV_REG_DEF_IDENTIFIER`) as used through
  `captures(..).is_some()`, i.e. as membership of the *whole* string in the language;
* `data_types/macros.rs: impl_anoncreds_object_identifier` — `new` / `validate` of
  `IssuerId`, `SchemaId`, `CredentialDefinitionId`, `RevocationRegistryDefinitionId`;
* `data_types/schema.rs: Schema::validate`, `AttributeNames::validate`;
* `data_types/cred_request.rs: CredentialRequest::validate`.

Regex semantics relied upon (Rust `regex` crate, no flags): matching is on Unicode scalar
values (`Char`); `^`/`$` match only at the very start / very end of the text (a trailing
`'\n'` is not skipped); `.` is every char but `'\n'`; `[^:]` is every char but `':'`
(including `'\n'`); all other classes are the ASCII ranges written in the pattern.

How the legacy patterns are recognised: every character class that occurs in them
excludes `':'`, and every literal piece is delimited by `':'`. So a string is in the
language iff the list of its maximal `':'`-free components (`splitColon`) has the right
number of entries and each entry is in the class sequence of its position. The two
alternatives `SEQNO | DID:2:NAME:VERSION` differ in the number of components (1 vs 4),
so the component count selects the alternative and no backtracking is needed.
-/
namespace AnonModel.Ident

/-! ### character classes -/

/-- `[lo-hi]` -/
def inRange (lo hi c : Char) : Bool := decide (lo ≤ c) && decide (c ≤ hi)

/-- `[1-9A-HJ-NP-Za-km-z]` (base58 alphabet, `validation.rs: LEGACY_DID_IDENTIFIER`) -/
def isBase58 (c : Char) : Bool :=
  inRange '1' '9' c || inRange 'A' 'H' c || inRange 'J' 'N' c || inRange 'P' 'Z' c ||
  inRange 'a' 'k' c || inRange 'm' 'z' c

/-- `[a-zA-Z]` -/
def isLetter (c : Char) : Bool := inRange 'a' 'z' c || inRange 'A' 'Z' c

/-- `[0-9]` -/
def isDigit09 (c : Char) : Bool := inRange '0' '9' c

/-- `[a-zA-Z0-9]` -/
def isAlnum (c : Char) : Bool := inRange 'a' 'z' c || inRange 'A' 'Z' c || inRange '0' '9' c

/-- `[a-zA-Z0-9\+\-\.]` -/
def isSchemeChar (c : Char) : Bool := isAlnum c || c == '+' || c == '-' || c == '.'

/-- `[0-9.]` -/
def isVersionChar (c : Char) : Bool := isDigit09 c || c == '.'

/-! ### `URI_IDENTIFIER = ^[a-zA-Z][a-zA-Z0-9\+\-\.]*:.+$` -/

/-- `[a-zA-Z0-9\+\-\.]*:.+$` as a left-to-right scan. A scheme character is never `':'`,
so the first `':'` met necessarily ends the scheme; what follows must be non-empty and
free of `'\n'` (`.` does not match a line feed, and `$` does not skip one). -/
def uriTail : List Char → Bool
  | [] => false
  | c :: cs =>
    if c = ':' then !cs.isEmpty && cs.all (fun d => d != '\n')
    else isSchemeChar c && uriTail cs

/-- `URI_IDENTIFIER` on a character list -/
def isUriL : List Char → Bool
  | [] => false
  | c :: cs => isLetter c && uriTail cs

/-! ### splitting on `':'` -/

/-- put `c` in front of the first component -/
def consHead (c : Char) : List (List Char) → List (List Char)
  | [] => [[c]]
  | h :: t => (c :: h) :: t

/-- the maximal `':'`-free components of a string, in order; never empty
(`splitColon [] = [[]]`, `splitColon "a::b" = ["a", "", "b"]`) -/
def splitColon : List Char → List (List Char)
  | [] => [[]]
  | c :: cs => if c = ':' then [] :: splitColon cs else consHead c (splitColon cs)

/-! ### component classes of the legacy patterns (each applied to a `':'`-free component) -/

/-- `[1-9A-HJ-NP-Za-km-z]{21,22}` -/
def isDidL (cs : List Char) : Bool :=
  (cs.length == 21 || cs.length == 22) && cs.all isBase58

/-- `[a-zA-Z0-9]{21,22}` (the issuer part of an embedded schema id is *not* restricted to base58) -/
def isAlnumDidL (cs : List Char) : Bool :=
  (cs.length == 21 || cs.length == 22) && cs.all isAlnum

/-- `[^:]+` on a component (which is `':'`-free by construction): non-empty -/
def isNameL (cs : List Char) : Bool := !cs.isEmpty

/-- `[0-9.]+` -/
def isVersionL (cs : List Char) : Bool := !cs.isEmpty && cs.all isVersionChar

/-- `[1-9][0-9]*` -/
def isSeqNoL : List Char → Bool
  | [] => false
  | c :: cs => inRange '1' '9' c && cs.all isDigit09

/-! ### the four legacy patterns -/

/-- `LEGACY_DID_IDENTIFIER = ^[1-9A-HJ-NP-Za-km-z]{21,22}$` -/
def isLegacyDidL (cs : List Char) : Bool := isDidL cs

/-- `LEGACY_SCHEMA_IDENTIFIER = ^DID:2:[^:]+:[0-9.]+$` -/
def isLegacySchemaIdL (cs : List Char) : Bool :=
  match splitColon cs with
  | [did, k, name, ver] => isDidL did && k == ['2'] && isNameL name && isVersionL ver
  | _ => false

/-- `LEGACY_CRED_DEF_IDENTIFIER = ^DID:3:CL:(([1-9][0-9]*)|([a-zA-Z0-9]{21,22}:2:[^:]+:[0-9.]+)):([^:]+)?$`.
The last component (the tag) may be empty but its leading `':'` is mandatory. -/
def isLegacyCredDefIdL (cs : List Char) : Bool :=
  match splitColon cs with
  | [did, k, cl, seq, _tag] =>
    isDidL did && k == ['3'] && cl == ['C', 'L'] && isSeqNoL seq
  | [did, k, cl, sdid, k2, name, ver, _tag] =>
    isDidL did && k == ['3'] && cl == ['C', 'L'] &&
      isAlnumDidL sdid && k2 == ['2'] && isNameL name && isVersionL ver
  | _ => false

/-- `LEGACY_REV_REG_DEF_IDENTIFIER =
^DID:4:DID:3:CL:(([1-9][0-9]*)|([a-zA-Z0-9]{21,22}:2:[^:]+:[0-9.]+)):([^:]+):CL_ACCUM:([^:]+)?$`.
The credential-definition tag must be non-empty here; the final tag may be empty. -/
def isLegacyRevRegDefIdL (cs : List Char) : Bool :=
  match splitColon cs with
  | [did, k, did2, k3, cl, seq, tag, acc, _tag2] =>
    isDidL did && k == ['4'] && isDidL did2 && k3 == ['3'] && cl == ['C', 'L'] &&
      isSeqNoL seq && isNameL tag && acc == ['C', 'L', '_', 'A', 'C', 'C', 'U', 'M']
  | [did, k, did2, k3, cl, sdid, k2, name, ver, tag, acc, _tag2] =>
    isDidL did && k == ['4'] && isDidL did2 && k3 == ['3'] && cl == ['C', 'L'] &&
      isAlnumDidL sdid && k2 == ['2'] && isNameL name && isVersionL ver &&
      isNameL tag && acc == ['C', 'L', '_', 'A', 'C', 'C', 'U', 'M']
  | _ => false

/-! ### `String` interface (`REGEX.captures(s).is_some()`) -/

/-- `validation.rs: is_uri_identifier`, `macros.rs: is_uri` -/
def isUri (s : String) : Bool := isUriL s.toList
/-- `macros.rs: is_legacy_did_identifier` -/
def isLegacyDid (s : String) : Bool := isLegacyDidL s.toList
/-- `macros.rs: is_legacy_schema_identifier` -/
def isLegacySchemaId (s : String) : Bool := isLegacySchemaIdL s.toList
/-- `macros.rs: is_legacy_cred_def_identifier` -/
def isLegacyCredDefId (s : String) : Bool := isLegacyCredDefIdL s.toList
/-- `macros.rs: is_legacy_rev_reg_def_identifier` -/
def isLegacyRevRegDefId (s : String) : Bool := isLegacyRevRegDefIdL s.toList

/-! ### identifier types -/

/-- the four instantiations of `impl_anoncreds_object_identifier!` -/
inductive IdKind where
  /-- `IssuerId` -/
  | issuer
  /-- `SchemaId` -/
  | schema
  /-- `CredentialDefinitionId` -/
  | credDef
  /-- `RevocationRegistryDefinitionId` -/
  | revRegDef
  deriving DecidableEq, Repr

/-- `macros.rs: validate`, the `legacy_regex` selected by `stringify!($i)` (the fifth arm,
"type does not have a validation regex", is unreachable for the four existing types) -/
def isLegacy : IdKind → String → Bool
  | .issuer => isLegacyDid
  | .schema => isLegacySchemaId
  | .credDef => isLegacyCredDefId
  | .revRegDef => isLegacyRevRegDefId

/-- `macros.rs: X::validate(&self).is_ok()` = `X::new(s).is_ok()` = `X::try_from(s).is_ok()`:
URI first, else the legacy pattern of the type; every other string is rejected
(`ValidationError`). `new_unchecked`, the public tuple field and `Deserialize` perform no check. -/
def idValid (k : IdKind) (s : String) : Bool := isUri s || isLegacy k s

/-! ### schema -/

/-- `schema.rs: MAX_ATTRIBUTES_COUNT` -/
def maxAttributesCount : Nat := 125

/-- `self.0.iter().all(move |name| unique.insert(name))` with the hash set as a list:
`true` iff no element of the second list occurs in `seen` or earlier in the list -/
def allFresh : List String → List String → Bool
  | _, [] => true
  | seen, n :: ns => if seen.contains n then false else allFresh (n :: seen) ns

/-- `schema.rs: AttributeNames::validate(..).is_ok()`: rejects (in this order) a repeated
name, the empty list, more than 125 names -/
def attrNamesValid (names : List String) : Bool :=
  if !allFresh [] names then false
  else if names.isEmpty then false
  else if names.length > maxAttributesCount then false
  else true

/-- `schema.rs: Schema::validate(..).is_ok()` (also the only check of
`issuer.rs: create_schema`): issuer id, then attribute names; `name` and `version` are
not inspected -/
def schemaValid (issuerId : String) (attrNames : List String) : Bool :=
  if !idValid .issuer issuerId then false else attrNamesValid attrNames

/-! ### credential request -/

/-- `cred_request.rs: CredentialRequest::validate(..).is_ok()` (= `CredentialRequest::new(..).is_ok()`
as far as these three fields are concerned). Rejected: invalid `cred_def_id`; entropy and
prover DID both given; neither given; prover DID with a non-legacy `cred_def_id`
("entropy is required"); prover DID that is neither a URI nor a legacy DID. -/
def credReqValid (entropy proverDid : Option String) (credDefId : String) : Bool :=
  if !idValid .credDef credDefId then false
  else
    match entropy with
    | some _ =>
      match proverDid with
      | some _ => false
      | none => true
    | none =>
      if isLegacyCredDefId credDefId then
        match proverDid with
        | some d => isUri d || isLegacyDid d
        | none => false
      else false

end AnonModel.Ident

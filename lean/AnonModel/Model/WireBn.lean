/-!
# M11c — big numbers inside the msgpack proof value of a W3C presentation

`anoncreds-clsignatures` (external) serialises a `BigNumber` in a non-human-readable format (`rmp-serde`, used by
`data_types/w3c/format.rs: base64_msgpack`) as the big-endian bytes of its MAGNITUDE (`BN_bn2bin`), and reads such bytes back as a
non-negative number (`BN_bin2bn`). In the human-readable JSON form (legacy presentations) the signed decimal string is written.
The encodings of revealed attributes (`eq_proof.revealed_attrs`) are such numbers; an attribute whose raw value is a negative
32-bit integer has a negative encoding.
-/
namespace AnonModel.WireBn

/-- big-endian bytes of a natural number (no leading zero byte; `0 ↦ []`) -/
def natBytes (n : Nat) : List Nat :=
  if h : n = 0 then [] else natBytes (n / 256) ++ [n % 256]
termination_by n
decreasing_by omega

/-- `BN_bin2bn` -/
def ofBytes (bs : List Nat) : Nat := bs.foldl (fun a b => a * 256 + b) 0

/-- binary serialisation of a signed big number: the magnitude only -/
def serBin (z : Int) : List Nat := natBytes z.natAbs

/-- binary deserialisation: always non-negative -/
def deBin (bs : List Nat) : Int := (ofBytes bs : Nat)

/-- what a revealed encoding is after one hop of a W3C presentation -/
def hopBin (z : Int) : Int := deBin (serBin z)

/-- the JSON (legacy) form keeps the number: modelled as the identity on `Int` (signed decimal string) -/
def hopJson (z : Int) : Int := z

end AnonModel.WireBn

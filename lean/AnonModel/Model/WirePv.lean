/-!
# M14c (the tagged proof value) — `data_types/w3c/proof.rs: impl Serialize / Deserialize for DataIntegrityProofValue`

A proof value travels as the msgpack sequence `[tag, payload]` with tag 1 (credential signature), 2 (credential
presentation) or 3 (presentation). The hand-written visitor reads an `i32` tag, then one element as the structure the tag
names, and refuses the sequence if elements remain (`size_hint() != 0`; msgpack sequences know their length).

The elements of the sequence are abstracted to what the visitor can tell apart: an integer that fits `i32`, a value that
decodes as the payload structure of kind `k` (and of no other kind: the three structures have different required
members), anything else.
-/
namespace AnonModel.WirePv

inductive Item where
  | int (n : Int)          -- an integer within i32
  | payload (k : Nat)      -- decodes as the structure of kind k ∈ {1,2,3} only
  | other                  -- nil, strings, integers outside i32, maps without the required members, …
deriving DecidableEq, Repr, Inhabited

/-- `Serialize`: `[tag, payload]` -/
def ser (k : Nat) : List Item := [.int k, .payload k]

/-- `Deserialize` (`ProofVisitor::visit_seq`): the kind decoded, `none` = any of the four errors -/
def de : List Item → Option Nat
  | [] => none                                   -- "expected tagged DataIntegrityProof"
  | .int n :: rest =>
    if n = 1 ∨ n = 2 ∨ n = 3 then
      match rest with
      | [] => none                               -- `next_element` gives `None`: "invalid tagged DataIntegrityProof"
      | .payload k :: more =>
        if (k : Int) = n then (if more.isEmpty then some k else none)   -- elements remain: refused
        else none                                -- the element does not decode as the structure the tag names
      | _ :: _ => none
    else none                                    -- "unexpected tag for DataIntegrityProof"
  | _ :: _ => none                               -- the first element is not an i32

end AnonModel.WirePv

import AnonModel.Model.Verifier
/-!
# M10 (W3C) — `services/w3c/verifier.rs: verify_presentation` and helpers

The envelope (contexts, types, proof purposes, base64/msgpack proof values) is abstracted to the
booleans the verifier derives from it (`validate`, `get_credential_presentation_proof`,
`get_presentation_proof`); the codecs themselves are C14/C15. There is no panicking expression in
the non-test code of this file (checked by the regenerated panic-site table, C12).
-/
namespace AnonModel.VerifierW3C
open AnonModel.Query (Query Filter)
open AnonModel.Interval (Ivl Overrides)
open AnonModel.IdealCL
open AnonModel.Verifier

/-- `CredentialAttributeValue` -/
inductive SubjVal where
  | str (s : String)
  | num (n : Int)
  | bool (b : Bool)
deriving DecidableEq, Repr, Inhabited

/-- `CredentialAttributeValue::to_string` -/
def SubjVal.toStr : SubjVal → String
  | .str s => s
  | .num n => Encode.intToDec n
  | .bool true => "true"
  | .bool false => "false"

/-- one `W3CCredential` of a presentation with its decoded `CredentialPresentationProofValue` -/
structure Cred where
  issuer : String
  subject : List (String × SubjVal)
  /-- `get_credential_presentation_proof().is_ok()`: an AnonCreds data-integrity proof exists, has
  purpose `assertionMethod` and its value decodes as a credential *presentation* proof -/
  proofOk : Bool
  verificationMethod : String
  schemaId : String
  credDefId : String
  revRegId : Option String
  timestamp : Option Nat
  sub : SymSub
deriving Repr, Inhabited

structure Presentation where
  /-- `W3CPresentation::validate().is_ok()` (contexts, presentation type) -/
  validateOk : Bool
  creds : List Cred
  /-- `get_presentation_proof().is_ok()` (purpose `authentication`, presentation proof value) -/
  presProofOk : Bool
  agg : SymAgg
deriving Repr, Inhabited

/-- `get_case_insensitive_attribute` -/
def subjLookup (c : Cred) (name : String) : Option (String × SubjVal) :=
  Names.lookupNorm c.subject name

/-- `W3CCredential::get_attribute`: string or number entries only -/
def getAttribute (c : Cred) (name : String) : Option (String × SubjVal) :=
  match subjLookup c name with
  | some (a, .str s) => some (a, .str s)
  | some (a, .num n) => some (a, .num n)
  | _ => none

/-- `W3CCredential::get_predicate`: boolean entries only -/
def getPredicate (c : Cred) (name : String) : Option String :=
  match subjLookup c name with
  | some (a, .bool _) => some a
  | _ => none

/-- value map of `check_credential_restrictions`: every string/number subject entry -/
def subjectValues (c : Cred) : List (String × Option String) :=
  c.subject.filterMap (fun kv =>
    match kv.2 with
    | .str s => some (kv.1, some s)
    | .num n => some (kv.1, some (Encode.intToDec n))
    | .bool _ => none)

/-- `check_credential_conditions(..).is_ok()` = restrictions ∧ interval -/
def conditionsOk (ctx : Ctx) (r : Request) (c : Cred) (restrictions : Option Query)
    (loc : Option Ivl) : Bool :=
  (match restrictions with
   | none => true
   | some q =>
     match gatherFilter ctx { schemaId := c.schemaId, credDefId := c.credDefId,
                              revRegId := c.revRegId, timestamp := none } with
     | none => false
     | some f => Query.eval Ident.isLegacyDid (subjectValues c) f q) &&
  Interval.checkW3C loc r.nonRevoked c.revRegId ctx.override c.timestamp

/-- first loop of `check_requested_attribute`: a credential whose subject reveals the attribute with
the value its sub-proof reveals, and which meets the conditions -/
def revealedBy (ctx : Ctx) (r : Request) (name : String) (restrictions : Option Query)
    (loc : Option Ivl) (c : Cred) : Bool :=
  match getAttribute c name with
  | none => false
  | some (a, v) =>
    revealedValueOk a c.sub (Encode.encode v.toStr) && conditionsOk ctx r c restrictions loc

/-- second loop of `check_requested_attribute` ("consider the attribute unrevealed"): `none` = the
function returns `Err` because a schema is missing; `some b` = a credential was found or not -/
def heldBy (ctx : Ctx) (r : Request) (name : String) (restrictions : Option Query)
    (loc : Option Ivl) : List Cred → Option Bool
  | [] => some false
  | c :: rest =>
    match ctx.schemas.lookup c.schemaId with
    | none => none
    | some sc =>
      if Names.hasNorm sc.attrNames name && conditionsOk ctx r c restrictions loc then some true
      else heldBy ctx r name restrictions loc rest

/-- `check_requested_attribute(..).is_ok()` -/
def requestedAttributeOk (ctx : Ctx) (r : Request) (p : Presentation) (name : String)
    (restrictions : Option Query) (loc : Option Ivl) : Bool :=
  if p.creds.any (revealedBy ctx r name restrictions loc) then true
  else heldBy ctx r name restrictions loc p.creds == some true

/-- `check_requested_predicate(..).is_ok()` -/
def requestedPredicateOk (ctx : Ctx) (r : Request) (p : Presentation) (q : PredInfo) : Bool :=
  p.creds.any (fun c =>
    match getPredicate c q.name with
    | none => false
    | some a =>
      c.sub.preds.any (fun pr =>
        Names.commonView pr.attr == Names.commonView a && pr.ty == q.ty && pr.value == q.value) &&
      conditionsOk ctx r c q.restrictions q.nonRevoked)

/-- last loop of `check_request_data`: issuer and verification method agree with the definition -/
def issuersOk (ctx : Ctx) (p : Presentation) : Bool :=
  p.creds.all (fun c =>
    match ctx.credDefs.lookup c.credDefId with
    | none => false
    | some cd => cd.issuerId == c.issuer && c.verificationMethod == c.credDefId)

/-- `check_request_data(..).is_ok()` -/
def requestDataOk (ctx : Ctx) (r : Request) (p : Presentation) : Bool :=
  r.attrs.all (fun kv =>
    kv.2.allNames.all (fun n => requestedAttributeOk ctx r p n kv.2.restrictions kv.2.nonRevoked)) &&
  r.preds.all (fun kv => requestedPredicateOk ctx r p kv.2) &&
  issuersOk ctx p

/-- `check_credential_subjects(..).is_ok()`: every string/number subject entry equals the value the
sub-proof reveals for it; every boolean marker is backed by a proven predicate on that attribute -/
def subjectsOk (p : Presentation) : Bool :=
  p.creds.all (fun c =>
    c.subject.all (fun kv =>
      match kv.2 with
      | .bool _ => c.sub.preds.any (fun pr => Names.commonView pr.attr == Names.commonView kv.1)
      | v => revealedValueOk kv.1 c.sub (Encode.encode v.toStr)))

/-- `add_sub_proof` for one credential; `none` = `Err` -/
def subCtxFor (ctx : Ctx) (c : Cred) : Option SubCtx :=
  match ctx.schemas.lookup c.schemaId, ctx.credDefs.lookup c.credDefId with
  | some sc, some cd =>
    match revocationRegistry ctx { schemaId := c.schemaId, credDefId := c.credDefId,
                                   revRegId := c.revRegId, timestamp := c.timestamp } with
    | none => none
    | some (regKey, acc) =>
      let sctx : SubCtx := { schemaAttrs := sc.attrNames.map Names.commonView, key := cd.key,
                             hasRevKey := cd.revocable, regKey := regKey, acc := acc }
      if addSubProofRequestOk sctx c.sub then some sctx else none
  | _, _ => none

/-- `services/w3c/verifier.rs: verify_presentation` (never panics: `Outcome.panic` is not produced) -/
def verifyW3C (ctx : Ctx) (r : Request) (p : Presentation) : Outcome :=
  if !p.validateOk then .err
  else if !p.creds.all (·.proofOk) then .err
  else if !requestDataOk ctx r p then .err
  else if !subjectsOk p then .err
  else if !p.presProofOk then .err
  else if !listsOk ctx then .err
  else
    match p.creds.mapM (subCtxFor ctx) with
    | none => .err
    | some cs =>
      match IdealCL.verify cs (p.creds.map (·.sub)) p.agg r.nonce true with
      | none => .err
      | some b => .ok b

end AnonModel.VerifierW3C

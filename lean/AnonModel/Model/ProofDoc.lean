/-!
# M11b (the `proof` member of a W3C credential document) — `data_types/w3c/one_or_many.rs`,
# `data_types/w3c/credential.rs` (`CredentialProof`, `get_data_integrity_proof`), `data_types/w3c/proof.rs`
# (`get_credential_signature_proof`, `get_credential_presentation_proof`)

Two untagged enums decide what a stored W3C credential still "has" after it was read back:

* `OneOrMany<T>` = `Many(Vec<T>) | One(T)`: serde tries the variants in declaration order, so a JSON array is a
  `Many`, anything else a `One`;
* `CredentialProof` = `AnonCredsDataIntegrityProof(DataIntegrityProof) | NonAnonCredsDataIntegrityProof(Value)`:
  a value that has every member of an AnonCreds data-integrity proof is one, *every* other value (an array too)
  is kept verbatim as a foreign proof — this variant never refuses.

`get_data_integrity_proof` takes the **first** AnonCreds proof (`find_map`), and the two getters then demand
purpose `assertionMethod` and the right kind of proof value of *that* proof (a later proof is never consulted).

The JSON in the `proof` position is abstracted to its shape: which values are AnonCreds proofs (with purpose,
kind of proof value and an identity `id` that stands for the payload), which are other non-array values, which
are arrays. What makes an object an AnonCreds proof (cryptosuite tag, `type`, purpose vocabulary, string method,
base64/msgpack proof value with tag 1–3) is serde-derived code: the harness supplies objects of both sorts,
including near misses, and the correspondence (op `proof_doc`) checks the classification on them.
-/
namespace AnonModel.ProofDoc

inductive Purpose where | assertion | authentication
deriving DecidableEq, Repr, Inhabited

inductive Kind where | signature | credPresentation | presentation
deriving DecidableEq, Repr, Inhabited

/-- an AnonCreds data-integrity proof: what the getters look at, and `id` for everything else it carries -/
structure Anon where
  purpose : Purpose
  kind : Kind
  id : Nat
deriving DecidableEq, Repr, Inhabited

/-- a JSON value that is not an array -/
inductive Scalar where
  | anon (a : Anon)      -- deserialises as `DataIntegrityProof`
  | other (id : Nat)     -- any other non-array value (foreign proof object, `{}`, number, string, `null`, near miss)
deriving DecidableEq, Repr, Inhabited

/-- an element of a JSON array -/
inductive Entry where
  | sc (s : Scalar)
  | nested (id : Nat)    -- an array inside the array (opaque)
deriving DecidableEq, Repr, Inhabited

/-- the JSON value of the `proof` member -/
inductive Doc where
  | arr (es : List Entry)
  | val (s : Scalar)
deriving DecidableEq, Repr, Inhabited

/-- `CredentialProof` -/
inductive CP where
  | anon (a : Anon)
  | non (e : Entry)      -- the JSON value, verbatim
deriving DecidableEq, Repr, Inhabited

/-- `OneOrMany<CredentialProof>` -/
inductive OM where
  | many (l : List CP)
  | one (c : CP)
deriving DecidableEq, Repr, Inhabited

/-- `CredentialProof::deserialize` (untagged: AnonCreds first, then the catch-all) -/
def parseCP : Entry → CP
  | .sc (.anon a) => .anon a
  | e => .non e

/-- `OneOrMany::<CredentialProof>::deserialize` (untagged: `Many` first) -/
def parse : Doc → OM
  | .arr es => .many (es.map parseCP)
  | .val s => .one (parseCP (.sc s))

def emitCP : CP → Entry
  | .anon a => .sc (.anon a)
  | .non e => e

/-- `Serialize`; `none` stands for the one in-memory shape whose document the abstraction cannot name
(`One(NonAnonCreds(<array>))`, which no document parses to: `parse_no_one_nested`) -/
def emit : OM → Option Doc
  | .many l => some (.arr (l.map emitCP))
  | .one c => match emitCP c with
    | .sc s => some (.val s)
    | .nested _ => none

def anonOfCP : CP → Option Anon
  | .anon a => some a
  | .non _ => none

/-- `W3CCredential::get_data_integrity_proof` (`OneOrMany::find_value`) -/
def find : OM → Option Anon
  | .one c => anonOfCP c
  | .many l => l.findSome? anonOfCP

/-- `DataIntegrityProof::get_credential_signature_proof().ok()` (identity of the value found) -/
def sigOf (a : Anon) : Option Nat :=
  if a.purpose = .assertion ∧ a.kind = .signature then some a.id else none

/-- `DataIntegrityProof::get_credential_presentation_proof().ok()` -/
def presOf (a : Anon) : Option Nat :=
  if a.purpose = .assertion ∧ a.kind = .credPresentation then some a.id else none

/-- `W3CCredential::get_credential_signature_proof().ok()` -/
def sigProof (m : OM) : Option Nat := (find m).bind sigOf

/-- `W3CCredential::get_credential_presentation_proof().ok()` -/
def presProof (m : OM) : Option Nat := (find m).bind presOf

def anonOfEntry : Entry → Option Anon
  | .sc (.anon a) => some a
  | _ => none

/-- the first AnonCreds proof the document shows, read off the document itself (the specification side) -/
def firstAnon : Doc → Option Anon
  | .arr es => es.findSome? anonOfEntry
  | .val (.anon a) => some a
  | .val (.other _) => none

/-- `W3CCredential::new` (issued or converted credential): an array of one signature proof -/
def newCredential (id : Nat) : OM := .many [.anon ⟨.assertion, .signature, id⟩]

/-- `W3CCredential::derive` (credential inside a presentation): a single presentation proof -/
def derivedCredential (id : Nat) : OM := .one (.anon ⟨.assertion, .credPresentation, id⟩)

end AnonModel.ProofDoc

import AnonModel.Model.Json
import AnonModel.Model.Query
import AnonModel.Model.Interval
import AnonModel.Model.Wire
/-!
# M11b (wire) — the codec of `PresentationRequest`

Models, as they are in `/repo/src/data_types/pres_request.rs`:
* `impl Deserialize for PresentationRequest` (`reqDe`) and `impl Serialize for PresentationRequest`
  (`reqSer`);
* the `#[derive(Deserialize, Serialize)]` code of `PresentationRequestPayload`, `AttributeInfo`,
  `PredicateInfo`, `PredicateTypes`, `NonRevokedInterval`, read through `serde_json::Value`
  (`impl Deserializer for Value`, serde_json 1.0.151 without `arbitrary_precision`).

Reused, not re-modelled: `Wire.nonceDe` (`Deserialize for Nonce`), `Wire.verDe` (the `ver` member),
`Query.parseRestriction` / `Query.print` (`Deserialize` / `Serialize for Query`).

## How `serde` reads a struct from a `Value` (all observed on the real code)

`Deserialize for PresentationRequest` first reads the whole document into a `Value`
(`Value::deserialize(deserializer)?`): objects are `BTreeMap`s, so a duplicate member never reaches
the derived visitors (the last one wins in the JSON reader, before this model starts). The model
reads a member with first-match `List.lookup`; on a value with unique keys (`Json.WF`) this *is* the
map lookup.

* a struct is accepted from an **object** (members by name, unknown members ignored
  (`IgnoredAny`), a missing `Option<_>` member is `None`, a missing `#[serde(default)]` member is
  the default, any other missing member is an error) **and from an array** (`visit_seq`: the
  members in declaration order; the length must be exactly the number of fields for the three
  inner structs — `Option` fields are *not* optional in this form). The top-level array form can
  never succeed (`Helper` needs exactly one element, the payload needs six), so `reqDe` rejects
  arrays.
* `Option<T>`: `null` → `None`, anything else → `Some(T::deserialize(..)?)`.
* `HashMap<String, T>`: only from an object (`null` is an error even with `#[serde(default)]`).
* `String`: only from a JSON string. `Vec<String>`: only from an array of strings.
* `u64`: `Number::PosInt` only; `i32`: `PosInt ≤ i32::MAX` or `NegInt ≥ i32::MIN`; a float is an error
  for both. serde_json reads an integer literal outside `[-2^63, 2^64)` as a float, so in
  `Json.num (n : Int)` "float" is represented by such an `n` (the driver maps literals with a
  fraction or exponent to an out-of-range integer, see `Driver/OpsWireReq.lean`).
* a unit-variant enum (`PredicateTypes`): from the string naming the variant **or from an object
  with exactly one member whose key names the variant and whose value is `null`**
  (`{">=": null}`).

Maps (`HashMap` in Rust, unique keys, no order) are association lists in document order. What
`serde_json::to_value` produces are `BTreeMap`s (sorted by key); `reqSer` writes the fixed member
names in sorted order and the two referent maps in list order, so its result is `Json.WF` iff the
referent lists are strictly increasing (`Lemmas/WireReq.lean: reqSer_wf`).
-/
namespace AnonModel.WireReq
open AnonModel.Json
open AnonModel.Query (Query parseRestriction print)
open AnonModel.Interval (Ivl)

/-! ## Data -/

/-- `pres_request.rs: PredicateTypes` -/
inductive PType where
  | ge
  | le
  | gt
  | lt
deriving DecidableEq, Repr, Inhabited

/-- `pres_request.rs: AttributeInfo` -/
structure AttrInfo where
  name : Option String
  names : Option (List String)
  restrictions : Option Query
  nonRevoked : Option Ivl
deriving Repr

/-- `pres_request.rs: PredicateInfo` (`pValue` is an `i32` in Rust) -/
structure PredInfo where
  name : String
  pType : PType
  pValue : Int
  restrictions : Option Query
  nonRevoked : Option Ivl
deriving Repr

/-- `pres_request.rs: PresentationRequest` = version tag + `PresentationRequestPayload`.
`nonce` is the decimal string the `Nonce` serialises to (`Nonce::strval`); `v2` = the variant is
`PresentationRequestV2`. -/
structure ReqDoc where
  nonce : String
  name : String
  version : String
  attrs : List (String × AttrInfo)
  preds : List (String × PredInfo)
  nonRevoked : Option Ivl
  v2 : Bool
deriving Repr

/-! ## `Json` → `Wire.WJson` (the view `Wire.nonceDe` / `Wire.verDe` work on) -/

/-- `serde_json::Number` as a visitor sees it: `PosInt(u64)`, `NegInt(i64)` (always negative), or a
float (here: an integer outside both ranges) -/
def numView (n : Int) : Wire.Num :=
  if 0 ≤ n ∧ n < 2 ^ 64 then .pos n.toNat
  else if -(2 ^ 63 : Int) ≤ n ∧ n < 0 then .neg n
  else .float

mutual
/-- the same value in the small JSON type of `Model/Wire.lean` (objects lose their content:
neither a nonce nor `ver` can be read from one) -/
def toW : Json → Wire.WJson
  | .null => .null
  | .bool b => .bool b
  | .num n => .num (numView n)
  | .str s => .str s
  | .arr xs => .arr (toWList xs)
  | .obj _ => .obj
def toWList : List Json → List Wire.WJson
  | [] => []
  | j :: r => toW j :: toWList r
end

/-! ## Deserialize: leaves -/

/-- `u64::deserialize` on a `Value`: exactly the integers `0 ≤ n < 2^64`; rejected: negative,
out of range (a float for serde_json), string, boolean, null, array, object -/
def u64De : Json → Option Nat
  | .num n => if 0 ≤ n ∧ n < 2 ^ 64 then some n.toNat else none
  | _ => none

/-- `i32::deserialize` on a `Value` (`PredicateValue = i32`): exactly `-2^31 ≤ n < 2^31` -/
def i32De : Json → Option Int
  | .num n => if -(2 ^ 31 : Int) ≤ n ∧ n < 2 ^ 31 then some n else none
  | _ => none

/-- `String::deserialize` on a `Value`: a JSON string, nothing else -/
def strDe : Json → Option String
  | .str s => some s
  | _ => none

/-- `Vec<String>::deserialize` on a `Value`: an array all of whose members are strings -/
def strVecDe : Json → Option (List String)
  | .arr xs => strList? xs
  | _ => none

/-- `Nonce::deserialize` on a `Value` (`data_types/nonce.rs`), via `Wire.nonceDe` -/
def nonceOf (j : Json) : Option String := Wire.nonceDe (toW j)

/-- `Option<T>::deserialize` on a `Value` (`deserialize_option`): `null` is `None` -/
def optVal {α : Type} (de : Json → Option α) : Json → Option (Option α)
  | .null => some none
  | j =>
    match de j with
    | some a => some (some a)
    | none => none

/-- an `Option<T>` field of a derived struct read from an object: a missing member is `None`
(`serde::__private::de::missing_field`), a present one is read with `optVal` -/
def optMember {α : Type} (de : Json → Option α) : Option Json → Option (Option α)
  | none => some none
  | some j => optVal de j

/-- a field without `Option` / `default` read from an object: a missing member is an error -/
def reqMember {α : Type} (de : Json → Option α) : Option Json → Option α
  | none => none
  | some j => de j

/-- the variant names of `PredicateTypes` (`#[serde(rename = ..)]`) -/
def pTypeOfStr (s : String) : Option PType :=
  if s = ">=" then some .ge
  else if s = "<=" then some .le
  else if s = ">" then some .gt
  else if s = "<" then some .lt
  else none

/-- derived `Deserialize for PredicateTypes` on a `Value` (`Value::deserialize_enum`): the variant
name as a string, or `{"<name>": null}`; rejected: any other string (`"GE"`, `"=="`), an object
with ≠ 1 members or a non-null member value, number, boolean, null, array -/
def pTypeDe : Json → Option PType
  | .str s => pTypeOfStr s
  | .obj [(k, .null)] => pTypeOfStr k
  | _ => none

/-! ## Deserialize: structs -/

/-- derived `Deserialize for NonRevokedInterval` on a `Value`: an object (`from`, `to` optional,
anything else ignored) or an array of exactly two members -/
def ivlDe : Json → Option Ivl
  | .obj m =>
    match optMember u64De (m.lookup "from") with
    | none => none
    | some lo =>
      match optMember u64De (m.lookup "to") with
      | none => none
      | some hi => some ⟨lo, hi⟩
  | .arr [a, b] =>
    match optVal u64De a with
    | none => none
    | some lo =>
      match optVal u64De b with
      | none => none
      | some hi => some ⟨lo, hi⟩
  | _ => none

/-- derived `Deserialize for AttributeInfo` on a `Value`: an object (all four members optional)
or an array of exactly four members (`name`, `names`, `restrictions`, `non_revoked`) -/
def attrDe : Json → Option AttrInfo
  | .obj m =>
    match optMember strDe (m.lookup "name") with
    | none => none
    | some n =>
      match optMember strVecDe (m.lookup "names") with
      | none => none
      | some ns =>
        match optMember parseRestriction (m.lookup "restrictions") with
        | none => none
        | some r =>
          match optMember ivlDe (m.lookup "non_revoked") with
          | none => none
          | some i => some ⟨n, ns, r, i⟩
  | .arr [a, b, c, d] =>
    match optVal strDe a with
    | none => none
    | some n =>
      match optVal strVecDe b with
      | none => none
      | some ns =>
        match optVal parseRestriction c with
        | none => none
        | some r =>
          match optVal ivlDe d with
          | none => none
          | some i => some ⟨n, ns, r, i⟩
  | _ => none

/-- derived `Deserialize for PredicateInfo` on a `Value`: an object (`name`, `p_type`, `p_value`
required; `restrictions`, `non_revoked` optional) or an array of exactly five members -/
def predDe : Json → Option PredInfo
  | .obj m =>
    match reqMember strDe (m.lookup "name") with
    | none => none
    | some n =>
      match reqMember pTypeDe (m.lookup "p_type") with
      | none => none
      | some t =>
        match reqMember i32De (m.lookup "p_value") with
        | none => none
        | some v =>
          match optMember parseRestriction (m.lookup "restrictions") with
          | none => none
          | some r =>
            match optMember ivlDe (m.lookup "non_revoked") with
            | none => none
            | some i => some ⟨n, t, v, r, i⟩
  | .arr [a, b, c, d, e] =>
    match strDe a with
    | none => none
    | some n =>
      match pTypeDe b with
      | none => none
      | some t =>
        match i32De c with
        | none => none
        | some v =>
          match optVal parseRestriction d with
          | none => none
          | some r =>
            match optVal ivlDe e with
            | none => none
            | some i => some ⟨n, t, v, r, i⟩
  | _ => none

/-- `HashMap<String, T>::deserialize` on the entries of an object, in document order; the first
member that fails makes the whole map fail -/
def mapDe {α : Type} (de : Json → Option α) : List (String × Json) → Option (List (String × α))
  | [] => some []
  | (k, v) :: r =>
    match de v with
    | none => none
    | some a =>
      match mapDe de r with
      | none => none
      | some l => some ((k, a) :: l)

/-- a `#[serde(default)] HashMap<String, T>` field read from an object: missing → empty map;
present → must be an object (`null`, arrays, … are errors) -/
def mapMember {α : Type} (de : Json → Option α) : Option Json → Option (List (String × α))
  | none => some []
  | some (.obj m) => mapDe de m
  | some _ => none

/-- which variant the `ver` tag selects: `PresentationRequestV2`? -/
def verFlag : Wire.Ver → Bool
  | .v1 => false
  | .v2 => true

/-- `pres_request.rs: impl Deserialize for PresentationRequest` (`none` = `Err`).
`Helper { ver: Option<String> }` is read first (`Wire.verDe`: member absent or `null` → V1,
`"1.0"` → V1, `"2.0"` → V2, any other string → `unknown_variant`, any non-string → error), then
the derived `PresentationRequestPayload::deserialize` on the same value (the member `ver` is an
unknown member for it and is ignored). Rejected: everything that is not an object; a missing or
malformed `nonce`, `name`, `version`; `requested_attributes` / `requested_predicates` present and
not objects or with a malformed member; a malformed `non_revoked`. -/
def reqDe : Json → Option ReqDoc
  | .obj m =>
    match Wire.verDe ((m.lookup "ver").map toW) with
    | none => none
    | some ver =>
      match reqMember nonceOf (m.lookup "nonce") with
      | none => none
      | some nonce =>
        match reqMember strDe (m.lookup "name") with
        | none => none
        | some name =>
          match reqMember strDe (m.lookup "version") with
          | none => none
          | some version =>
            match mapMember attrDe (m.lookup "requested_attributes") with
            | none => none
            | some attrs =>
              match mapMember predDe (m.lookup "requested_predicates") with
              | none => none
              | some preds =>
                match optMember ivlDe (m.lookup "non_revoked") with
                | none => none
                | some i =>
                  some { nonce := nonce, name := name, version := version, attrs := attrs,
                         preds := preds, nonRevoked := i,
                         v2 := verFlag ver }
  | _ => none

/-! ## Serialize (`serde_json::to_value`) -/

/-- `Option<T>::serialize`: `None` is `null` -/
def optSer {α : Type} (ser : α → Json) : Option α → Json
  | none => .null
  | some a => ser a

/-- `u64::serialize` -/
def natSer (n : Nat) : Json := .num (n : Int)

/-- derived `Serialize for NonRevokedInterval`: both members always written -/
def ivlSer (i : Ivl) : Json :=
  .obj [("from", optSer natSer i.lo), ("to", optSer natSer i.hi)]

/-- derived `Serialize for PredicateTypes` (`#[serde(rename = ..)]`) -/
def pTypeStr : PType → String
  | .ge => ">="
  | .le => "<="
  | .gt => ">"
  | .lt => "<"

/-- derived `Serialize for AttributeInfo`: `name` and `names` are skipped when `None`
(`skip_serializing_if = "Option::is_none"`), `restrictions` and `non_revoked` are always written
(`null` when `None`) -/
def attrSer (a : AttrInfo) : Json :=
  .obj ((match a.name with | some s => [("name", Json.str s)] | none => []) ++
        (match a.names with | some l => [("names", Json.arr (l.map Json.str))] | none => []) ++
        [("non_revoked", optSer ivlSer a.nonRevoked), ("restrictions", optSer print a.restrictions)])

/-- derived `Serialize for PredicateInfo`: all five members always written -/
def predSer (p : PredInfo) : Json :=
  .obj [("name", .str p.name), ("non_revoked", optSer ivlSer p.nonRevoked),
        ("p_type", .str (pTypeStr p.pType)), ("p_value", .num p.pValue),
        ("restrictions", optSer print p.restrictions)]

/-- the entries of a serialised `HashMap<String, T>`, in list order -/
def mapSer {α : Type} (ser : α → Json) : List (String × α) → List (String × Json)
  | [] => []
  | (k, a) :: r => (k, ser a) :: mapSer ser r

/-- `Serialize for PresentationRequest` always writes `ver` -/
def verStr (v2 : Bool) : String := if v2 then "2.0" else "1.0"

/-- `pres_request.rs: impl Serialize for PresentationRequest`: `to_value(payload)` (all six
members of the payload, `non_revoked` as `null` when `None`), then
`insert("ver", "1.0" | "2.0")`. Members in `BTreeMap` order. -/
def reqSer (r : ReqDoc) : Json :=
  .obj [("name", .str r.name), ("non_revoked", optSer ivlSer r.nonRevoked),
        ("nonce", .str r.nonce), ("requested_attributes", .obj (mapSer attrSer r.attrs)),
        ("requested_predicates", .obj (mapSer predSer r.preds)),
        ("ver", .str (verStr r.v2)), ("version", .str r.version)]

end AnonModel.WireReq

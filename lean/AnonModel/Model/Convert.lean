import AnonModel.Model.Encode
import AnonModel.Model.Ident
import AnonModel.Model.VerifierW3C
/-!
# M11 (conversion) — `services/w3c/credential_conversion.rs`

`credential_to_w3c` / `credential_from_w3c`, `CredentialSubject::from(&CredentialValues)`,
`CredentialSubject::encode`, `Credential::validate`, `W3CCredential::validate`. Signature material,
identifiers and revocation data are copied field by field by the Rust code (struct literals); the
model keeps them as an opaque payload `π` that both directions pass through unchanged.
-/
namespace AnonModel.Convert
open AnonModel.VerifierW3C (SubjVal)

/-- what `Credential::validate` looks at besides the values -/
structure LegacyMeta where
  schemaId : String
  credDefId : String
  revRegId : Option String
  hasWitness : Bool
  hasRevReg : Bool
deriving Repr, Inhabited

abbrev Values := List (String × (String × String))   -- name ↦ (raw, encoded)
abbrev Subject := List (String × SubjVal)

/-- `Credential::validate().is_ok()` -/
def legacyValid (m : LegacyMeta) (values : Values) : Bool :=
  !values.isEmpty &&
  Ident.idValid .schema m.schemaId && Ident.idValid .credDef m.credDefId &&
  (match m.revRegId with | some r => Ident.idValid .revRegDef r | none => true) &&
  !(m.revRegId.isSome && !(m.hasWitness && m.hasRevReg))

/-- `CredentialSubject::from(&CredentialValues)`: a raw value that parses as `i32` becomes a number -/
def toSubject (values : Values) : Subject :=
  values.map (fun nv =>
    (nv.1, match Encode.parseI32 nv.2.1.toList with
           | some k => SubjVal.num k
           | none => SubjVal.str nv.2.1))

/-- `CredentialSubject::encode`: strings and numbers are re-encoded from their printed form; a boolean
(predicate marker) cannot be encoded -/
def subjectEncode (subj : Subject) : Option Values :=
  subj.mapM (fun nv =>
    match nv.2 with
    | .str s => some (nv.1, (s, Encode.encode s))
    | .num k => some (nv.1, (Encode.intToDec k, Encode.encode (Encode.intToDec k)))
    | .bool _ => none)

/-- `credential_to_w3c`: `none` = refused -/
def toW3C (m : LegacyMeta) (values : Values) : Option Subject :=
  if legacyValid m values then some (toSubject values) else none

/-- what `W3CCredential::validate` and `get_credential_signature_proof` look at -/
structure W3CMeta where
  /-- the `@context` names a known data-model version and contains the AnonCreds contexts -/
  contextOk : Bool
  /-- `type` contains `VerifiableCredential` -/
  hasW3CType : Bool
  /-- data model 1.1 -/
  v11 : Bool
  hasIssuanceDate : Bool
  /-- there is an AnonCreds data-integrity proof with purpose `assertionMethod` holding a credential *signature* proof value -/
  signatureProofOk : Bool
deriving Repr, Inhabited

/-- `W3CCredential::validate().is_ok()` -/
def w3cValid (m : W3CMeta) : Bool :=
  m.contextOk && m.hasW3CType && !(m.v11 && !m.hasIssuanceDate)

/-- `credential_from_w3c`: `none` = refused -/
def fromW3C (m : W3CMeta) (subj : Subject) : Option Values :=
  if !w3cValid m then none
  else if !m.signatureProofOk then none
  else subjectEncode subj

end AnonModel.Convert

import AnonModel.Model.Encode
/-!
# M11 (wire) — the hand-written (de)serialisers

`data_types/nonce.rs` (`Nonce`), `data_types/rev_status_list.rs: serde_revocation_list`,
`data_types/pres_request.rs` (`ver`), `data_types/w3c/credential_attributes.rs`
(untagged `CredentialAttributeValue`). Derive-generated and CL-crate (de)serialisers are outside
the model (C15 is partial in that sense; they are exercised by the hop streams).

JSON numbers as `serde_json` presents them to a visitor: an unsigned 64-bit integer, a negative
64-bit integer, or a float (anything with a fraction or exponent, or out of those ranges).
-/
namespace AnonModel.Wire

inductive Num where
  | pos (n : Nat)      -- 0 ≤ n < 2^64  (`visit_u64`)
  | neg (n : Int)      -- -2^63 ≤ n < 0 (`visit_i64`)
  | float              -- `visit_f64`
deriving DecidableEq, Repr, Inhabited

inductive WJson where
  | null
  | bool (b : Bool)
  | num (n : Num)
  | str (s : String)
  | arr (xs : List WJson)
  | obj
deriving Repr, Inhabited

/-! ## Nonce -/

/-- `Nonce::from_dec`: non-empty, ASCII digits only; the string is kept as given -/
def nonceFromDec (s : String) : Option String :=
  if s.isEmpty then none
  else if s.toList.all Char.isDigit then some s else none

/-- the byte-array form: numbers are taken while they last (`as u8` truncates); a negative or
fractional number is an error; a non-number member ends the loop — it is tolerated only as the
very last member (the sequence must be consumed completely) -/
def nonceBytes : List WJson → Option (List Nat)
  | [] => some []
  | .num (.pos n) :: rest => (nonceBytes rest).map (fun bs => n % 256 :: bs)
  | .num _ :: _ => none
  | [_] => some []
  | _ :: _ :: _ => none

/-- `Deserialize for Nonce` followed by `Serialize` (the decimal string) -/
def nonceDe : WJson → Option String
  | .str s => nonceFromDec s
  | .num (.pos n) => some (Nat.repr n)
  | .num (.neg _) => none          -- "-5" is not a digit string
  | .num .float => none
  | .arr xs => (nonceBytes xs).map (fun bs => Nat.repr (bs.foldl (fun a b => a * 256 + b) 0))
  | _ => none

/-- `Serialize for Nonce` writes `strval`; reading it back -/
def nonceRoundTrip (s : String) : Option String := nonceDe (.str s)

/-! ## revocation list -/

/-- `serde_revocation_list::deserialize`: a sequence of JSON integers 0 / 1 -/
def revListDe : WJson → Option (List Bool)
  | .arr xs => xs.mapM (fun x =>
      match x with
      | .num (.pos 0) => some false
      | .num (.pos 1) => some true
      | _ => none)
  | _ => none

/-- `serde_revocation_list::serialize` -/
def revListSer (bits : List Bool) : WJson :=
  .arr (bits.map (fun b => .num (.pos (if b then 1 else 0))))

/-! ## presentation request version -/

inductive Ver where
  | v1
  | v2
deriving DecidableEq, Repr, Inhabited

/-- `Deserialize for PresentationRequest`: the `ver` member (`none` = absent) -/
def verDe : Option WJson → Option Ver
  | none => some .v1
  | some .null => some .v1
  | some (.str s) => if s = "1.0" then some .v1 else if s = "2.0" then some .v2 else none
  | some _ => none

/-- `Serialize for PresentationRequest` always writes `ver` -/
def verSer : Ver → WJson
  | .v1 => .str "1.0"
  | .v2 => .str "2.0"

/-! ## untagged attribute value -/

inductive AttrVal where
  | str (s : String)
  | num (n : Int)
  | bool (b : Bool)
deriving DecidableEq, Repr, Inhabited

/-- `#[serde(untagged)] enum CredentialAttributeValue { String, Number(i32), Bool }` -/
def attrValDe : WJson → Option AttrVal
  | .str s => some (.str s)
  | .num (.pos n) => if (n : Int) ≤ Encode.i32Max then some (.num n) else none
  | .num (.neg n) => if Encode.i32Min ≤ n then some (.num n) else none
  | .bool b => some (.bool b)
  | _ => none

def attrValSer : AttrVal → WJson
  | .str s => .str s
  | .num n => if n < 0 then .num (.neg n) else .num (.pos n.toNat)
  | .bool b => .bool b

end AnonModel.Wire

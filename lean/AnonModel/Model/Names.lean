/-!
# M2 — attribute-name normalisation and case-insensitive lookups

Models `services/helpers.rs: attr_common_view` (`attr.replace(' ', "").to_lowercase()`),
`services/prover.rs: get_credential_values_for_attribute`,
`services/w3c/helpers.rs: get_case_insensitive_attribute / has_case_insensitive_attribute`.

Rust lower-cases with full Unicode rules; this executable instance is exact on ASCII and on caseless
scripts (the correspondence generators restrict cased letters to ASCII; a separate stream compares
Rust with Rust for cased Unicode). Theorems that depend on normalisation use only that it is a
function (and, where stated, idempotent).
-/
namespace AnonModel.Names

/-- `attr_common_view` -/
def commonView (s : String) : String :=
  String.ofList ((s.toList.filter (· ≠ ' ')).map Char.toLower)

/-- first entry of an association list whose key has the same normal form as `name`
(`find(|(k, _)| attr_common_view(k) == attr_common_view(name))`) -/
def lookupNorm {α : Type} (kvs : List (String × α)) (name : String) : Option (String × α) :=
  kvs.find? (fun kv => commonView kv.1 == commonView name)

/-- `Schema::has_case_insensitive_attribute` -/
def hasNorm (names : List String) (name : String) : Bool :=
  names.any (fun a => commonView a == commonView name)

end AnonModel.Names

/-!
# M6 — revocation status list state machine and holder witness derivations

Models (anoncreds-rs, `/repo/src`)
* `services/issuer.rs`: `create_revocation_status_list`,
  `update_revocation_status_list_timestamp_only`, `update_revocation_status_list`
  (with its two filters against the *current* list), the revocation branch of
  `CLCredentialIssuer::create_credential`;
* `data_types/rev_status_list.rs`: `RevocationStatusList::{new, get, update}`;
* `services/prover.rs`: `create_or_update_revocation_state`, `create_index_deltas`,
  `create_revocation_state_with_witness`;

and, as an **ideal functionality** (trusted base, validated by the correspondence
harness), the accumulator arithmetic of `anoncreds-clsignatures 0.3.2`
(`issuer.rs`: `update_revocation_registry`, `_update_revocation_accumulator`,
`_new_non_revocation_credential`; `types.rs`: `RevocationRegistry::initial_state`,
`Witness::{new, update, issued_indices}`).

## The abstraction

The accumulator of a registry of size `L` is the group element
`Π_j g'^(γ^(L+1-j) · m_j)`.  It is modelled by its exponent-multiplicity vector
`Acc = Nat → Int`, `j ↦ m_j`.  Two accumulators are equal iff the vectors are equal
as functions (distinct vectors give distinct group elements — generic-group
idealisation).  A witness `ω` for credential index `k` is the element
`Π_j g'^(γ^(L+1-j+k) · w_j)`; it is modelled by the vector `j ↦ w_j` *relative to
its own `k`* (the shift by `γ^k` is not represented, so a witness vector must only be
used with the `k` it was derived for; see `tailVec` for the shift-aware view).

Executable equality is decided on a bounded index range (`accEqB`,
`witnessValidB`); `Lemmas/StatusList.lean` proves that every vector the model can
produce for a registry of size `L` vanishes above `L`, so the bound `L+1` is exact.

Indices: status-list *positions* are `0 … L-1` (bit `true` = revoked / not issued);
CL credential indices must satisfy `1 ≤ k ≤ L`; `create_credential` additionally
needs position `k` to exist, so credentials live at `1 ≤ k ≤ L-1`.

Not modelled: a status list without accumulator (`accum = None`; every function
here returns `Err` for it, and no list produced by `create_revocation_status_list`
has that shape).
-/
namespace AnonModel.StatusList

/-- exponent-multiplicity vector of an accumulator / of a witness -/
abbrev Acc : Type := Nat → Int

/-- `RevocationStatusList` (`revocation_list`, `accum`, `timestamp`) -/
structure SL where
  bits : List Bool
  acc : Acc
  ts : Option Nat

/-- `A · g'^(±γ^(L+1-k))`: add `d` to the multiplicity of index `k` -/
def accAdd (A : Acc) (k : Nat) (d : Int) : Acc := fun j => if j = k then A j + d else A j

/-- `RevocationRegistry::initial_state`: by default `Tail::accum_range(1..=L)`, i.e.
`m_j = 1` for `1 ≤ j ≤ L` (not `j = 0`); on demand the point at infinity. -/
def accInit (L : Nat) (byDefault : Bool) : Acc :=
  fun j => if byDefault = true ∧ 1 ≤ j ∧ j ≤ L then 1 else 0

/-- `create_revocation_status_list`: `bitvec![if issuance_by_default {0} else {1}; L]` -/
def create (L : Nat) (byDefault : Bool) (ts : Option Nat) : SL :=
  { bits := List.replicate L (!byDefault), acc := accInit L byDefault, ts := ts }

/-- `update_revocation_status_list_timestamp_only` (`list.update(None, None, None, Some(t))`) -/
def updateTsOnly (s : SL) (t : Nat) : SL := { s with ts := some t }

/-- first filter of `update_revocation_status_list`:
`filter(|&i| current_list.get(i).unwrap_or(false))` — keeps only positions that exist
and are currently revoked -/
def filterIssued (bits : List Bool) (l : List Nat) : List Nat :=
  l.filter fun i => bits.getD i false

/-- second filter: `filter(|&i| !current_list.get(i).unwrap_or(true))` — keeps only
positions that exist and are currently not revoked -/
def filterRevoked (bits : List Bool) (l : List Nat) : List Nat :=
  l.filter fun i => !(bits.getD i true)

/-- `Issuer::update_revocation_registry` / `_update_revocation_accumulator`: every
member of the `issued` *set* contributes `+γ^(L+1-j)`, every member of `revoked`
`-γ^(L+1-j)`; no range check on `j`.  Lists are read as sets (membership). -/
def accUpdate (A : Acc) (issued revoked : List Nat) : Acc :=
  fun j => A j + (if j ∈ issued then 1 else 0) - (if j ∈ revoked then 1 else 0)

/-- `for i in set { revocation_list.set(i, v) }` -/
def setAll (bits : List Bool) (idx : List Nat) (v : Bool) : List Bool :=
  idx.foldl (fun b i => b.set i v) bits

/-- bit part of `RevocationStatusList::update` without its range check: issued
positions become `false`, then revoked positions become `true` -/
def setBits (bits : List Bool) (issued revoked : Option (List Nat)) : List Bool :=
  setAll (setAll bits (issued.getD []) false) (revoked.getD []) true

/-- bit part of `RevocationStatusList::update` as written: `Err` (`none`) when the
largest member of either set is `≥ revocation_list.len()` -/
def setBits? (bits : List Bool) (issued revoked : Option (List Nat)) : Option (List Bool) :=
  if (issued.getD []).any (fun i => bits.length ≤ i) then none
  else if (revoked.getD []).any (fun i => bits.length ≤ i) then none
  else some (setBits bits issued revoked)

/-- timestamp part of `RevocationStatusList::update`: replaced only if supplied -/
def newTs (old new : Option Nat) : Option Nat :=
  match new with
  | some t => some t
  | none => old

/-- `update_revocation_status_list` as written (the `?` on `new_list.update`). -/
def update? (s : SL) (issued revoked : Option (List Nat)) (ts : Option Nat) : Option SL :=
  let i := issued.map (filterIssued s.bits)
  let r := revoked.map (filterRevoked s.bits)
  let acc := accUpdate s.acc (i.getD []) (r.getD [])
  match setBits? s.bits i r with
  | none => none
  | some bits => some { bits := bits, acc := acc, ts := newTs s.ts ts }

/-- `update_revocation_status_list`, total form: after the two filters nothing is out
of range, so the range check of `RevocationStatusList::update` cannot fire
(`Lemmas`: `update?_eq_some`). The accumulator is updated with the *filtered* sets. -/
def update (s : SL) (issued revoked : Option (List Nat)) (ts : Option Nat) : SL :=
  let i := issued.map (filterIssued s.bits)
  let r := revoked.map (filterRevoked s.bits)
  { bits := setBits s.bits i r
    acc := accUpdate s.acc (i.getD []) (r.getD [])
    ts := newTs s.ts ts }

/-- Revocation branch of `CLCredentialIssuer::create_credential` +
`Issuer::_new_non_revocation_credential`: returns (accumulator embedded in the
credential, issuer witness).
Rejected (`none`): position `k` not in the list; `k = 0`; `k > L`.
`issuance_by_default = !status`.  On demand the accumulator gets `k` added
(`accum + tail[L+1-k]`) and the witness is the *previous* accumulator; by default the
accumulator is unchanged and the witness is the previous accumulator minus `k`
(`omega = prev_acc [- index_tail]`, then `· γ^k`). -/
def issueAgainst (L : Nat) (s : SL) (k : Nat) : Option (Acc × Acc) :=
  match s.bits[k]? with
  | none => none
  | some status =>
    if k = 0 ∨ L < k then none
    else if status then some (accAdd s.acc k 1, s.acc)
    else some (s.acc, accAdd s.acc k (-1))

/-- `create_index_deltas(new ^ old, new, …)`: positions where the lists differ go to
`revoked` if the new bit is set, else to `issued`.  Result `(issued, revoked)`.
(`BitVec ^ BitVec` keeps the length of the left operand — the new list — and leaves
positions beyond the right operand unchanged, i.e. reads a missing old bit as `0`.) -/
def indexDeltas (old new : List Bool) : List Nat × List Nat :=
  let changed := (List.range new.length).filter fun i => new.getD i false != old.getD i false
  (changed.filter fun i => !(new.getD i false), changed.filter fun i => new.getD i false)

/-- `Witness::issued_indices` as a membership predicate -/
def issuedIndices (L : Nat) (byDefault : Bool) (issued revoked : List Nat) (j : Nat) : Bool :=
  if byDefault then decide (1 ≤ j) && decide (j ≤ L) && !(decide (j ∈ revoked))
  else decide (j ∈ issued)

/-- `Witness::new(k, L, issuance_by_default, delta, tails)`: `Err` for `k = 0` or
`k > L`; otherwise the sum of `tail[L+1-j+k]` over the issued indices `j ≠ k`. (For
`1 ≤ j, k ≤ L` every tail index is in `2 … 2L`, inside the tails file.) -/
def witnessNew (k L : Nat) (byDefault : Bool) (issued revoked : List Nat) : Option Acc :=
  if k = 0 ∨ L < k then none
  else some fun j => if j ≠ k ∧ issuedIndices L byDefault issued revoked j = true then 1 else 0

/-- From-scratch branch of `create_or_update_revocation_state` (no `rev_state` / old
list): `Err` if the list has no timestamp; the delta is taken against an all-zero
list of length `L` and `Witness::new` is called with `issuance_by_default = true`
**unconditionally**. -/
def witnessScratch (L : Nat) (s : SL) (k : Nat) : Option Acc :=
  match s.ts with
  | none => none
  | some _ =>
    let d := indexDeltas (List.replicate L false) s.bits
    witnessNew k L true d.1 d.2

/-- tail index `L+1-j+k` is computable in `u32` and inside the tails file
(`2L+1` entries, `0 … 2L`) -/
def tailOk (L k j : Nat) : Bool := decide (j ≤ L + 1) && decide (L + 1 - j + k ≤ 2 * L)

/-- `Witness::update(k, L, delta, tails)`: `Err` for `k = 0` or `k > L`; a `BTreeMap`
`j ↦ add?` is built from `issued` (true) then `revoked` (false, overriding); entries
with `j = k` are skipped; `Err` if a needed tail is outside the file (only possible
for `k = L` with position 0 in the delta, or for lists longer than the registry —
there the Rust `u32` subtraction would overflow; also mapped to `none`). -/
def witnessUpd (k L : Nat) (w : Acc) (issued revoked : List Nat) : Option Acc :=
  if k = 0 ∨ L < k then none
  else if (issued ++ revoked).any (fun j => j != k && !(tailOk L k j)) then none
  else some fun j =>
    if j = k then w j
    else if j ∈ revoked then w j - 1
    else if j ∈ issued then w j + 1
    else w j

/-- Incremental branch of `create_or_update_revocation_state` (`rev_state` and
`old_rev_status_list` supplied): `Err` if the *new* list has no timestamp; delta of
the two lists; `Witness::update`. -/
def witnessUpdate (L : Nat) (w : Acc) (old new : SL) (k : Nat) : Option Acc :=
  match new.ts with
  | none => none
  | some _ =>
    let d := indexDeltas old.bits new.bits
    witnessUpd k L w d.1 d.2

/-- **Idealised verification** (trusted base): a non-revocation proof for index `k`
built from witness `w` verifies against accumulator `A` iff `A_k = 1` and `w` agrees
with `A` off `k`.  (Pairing equation `e(g_k, acc) / e(g, ω) = z` under the
idealisation that distinct powers of `γ` are independent; every derivation in this
file yields `w_k = 0`, see `Lemmas`: `wk_zero_*` and `witnessValid_iff_pairing`.) -/
def WitnessValid (k : Nat) (A w : Acc) : Prop := A k = 1 ∧ ∀ j, j ≠ k → w j = A j

/-- `WitnessValid` checked on indices `< n` (exact when `A` and `w` vanish from `n`
on: `Lemmas`: `witnessValidB_iff`) -/
def witnessValidB (n k : Nat) (A w : Acc) : Bool :=
  decide (A k = 1) && (List.range n).all fun j => j == k || w j == A j

/-- equality of vectors on indices `< n` (exact for vectors vanishing from `n` on:
`Lemmas`: `accEqB_iff`) -/
def accEqB (n : Nat) (a b : Acc) : Bool := (List.range n).all fun j => a j == b j

/-- shift-aware view of a witness vector for index `k`: multiplicity of each *tail*
`t = L+1-j+k`.  Two witnesses (possibly for different `k`) are the same group
element iff these agree. Used by the driver to compare witnesses across queries. -/
def tailVec (L k : Nat) (w : Acc) : Acc := fun t => if t ≤ L + 1 + k then w (L + 1 + k - t) else 0

/-! ### histories -/

/-- one issuer operation on a status list -/
inductive Op where
  | update (issued revoked : Option (List Nat)) (ts : Option Nat)
  | tsOnly (ts : Nat)

def applyOp (s : SL) : Op → SL
  | .update i r t => update s i r t
  | .tsOnly t => updateTsOnly s t

/-- state after all operations -/
def final (s : SL) (ops : List Op) : SL := ops.foldl applyOp s

/-- the start state followed by the state after every operation -/
def runFrom (s : SL) : List Op → List SL
  | [] => [s]
  | op :: ops => s :: runFrom (applyOp s op) ops

/-- history of a registry: the created list, then the list after every operation -/
def run (L : Nat) (byDefault : Bool) (ts : Option Nat) (ops : List Op) : List SL :=
  runFrom (create L byDefault ts) ops

end AnonModel.StatusList

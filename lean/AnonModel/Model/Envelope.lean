/-!
# M11c (the W3C envelope: `@context`, `type`, `issuanceDate`) — `data_types/w3c/context.rs`
# (`Contexts::version`, `Contexts::validate`), `data_types/w3c/credential.rs` (`W3CCredential::validate`),
# `data_types/w3c/presentation.rs` (`W3CPresentation::validate`)

An entry of `@context` is, by the untagged enum `Context`, a URI (a string matching the URI pattern) or *any other*
JSON value, kept verbatim. The three URIs the library compares with (exact string equality) are named; every other
URI, and every other value, only has an identity. Value `obj 0` is the issuer-dependent vocabulary object
`{"@vocab": "https://www.w3.org/ns/credentials/issuer-dependent#"}`.
-/
namespace AnonModel.Envelope

inductive Uri where
  | v11Base          -- https://www.w3.org/2018/credentials/v1
  | v20Base          -- https://www.w3.org/ns/credentials/v2
  | dataIntegrity    -- https://w3id.org/security/data-integrity/v2
  | other (id : Nat)
deriving DecidableEq, Repr, Inhabited

inductive Ctx where
  | uri (u : Uri)
  | obj (id : Nat)   -- a value that is not a URI string; 0 = the issuer-dependent vocabulary
deriving DecidableEq, Repr, Inhabited

inductive Ver where | v11 | v20
deriving DecidableEq, Repr, Inhabited

def vocab : Ctx := .obj 0

/-- `Contexts::version().ok()`: the first entry alone decides -/
def version : List Ctx → Option Ver
  | .uri .v11Base :: _ => some .v11
  | .uri .v20Base :: _ => some .v20
  | _ => none

/-- `Contexts::validate().is_ok()` -/
def ctxValid (cs : List Ctx) : Bool :=
  match version cs with
  | none => false
  | some v => (v == .v20 || cs.contains (.uri .dataIntegrity)) && cs.contains vocab

/-- `Contexts::get` -/
def libraryContexts : Ver → List Ctx
  | .v11 => [.uri .v11Base, .uri .dataIntegrity, vocab]
  | .v20 => [.uri .v20Base, vocab]

/-- what `W3CCredential::validate` reads -/
structure CredEnv where
  contexts : List Ctx
  types : List String
  hasIssuanceDate : Bool
deriving Repr, Inhabited

def credentialType : String := "VerifiableCredential"
def presentationType : String := "VerifiablePresentation"

/-- `W3CCredential::validate().is_ok()` -/
def credValid (e : CredEnv) : Bool :=
  match version e.contexts with
  | none => false
  | some v => ctxValid e.contexts && e.types.contains credentialType && !(v == .v11 && !e.hasIssuanceDate)

/-- `W3CPresentation::validate().is_ok()` -/
def presValid (contexts : List Ctx) (types : List String) : Bool :=
  ctxValid contexts && types.contains presentationType

end AnonModel.Envelope

import AnonModel.Model.Json
/-!
# M — the WQL restriction language

Models, function by function,
* `utils/query.rs`: `AbstractQuery`, `impl Deserialize for Query`, `parse_query`,
  `parse_operator`, `parse_list_operators`, `parse_single_operator`, `to_value`, `get_name`;
* `services/verifier.rs`: `process_operator`, `process_filter`, `precess_filed`,
  `is_attr_internal_tag`, `check_internal_tag_revealed_value`, `is_attr_operator`,
  `is_self_attested`, `INTERNAL_TAG_MATCHER`;
* `data_types/pres_request.rs`: `impl Validatable for PresentationRequest`,
  `_process_operator`, `_check_restriction`.

Errors carry no information on the wire (`{"err":true}`), so `Result<T, &str>` is
`Option T`; `Result<(), _>` of the evaluation / validation functions is `Bool` (`is_ok`).
All functions are total by construction (structural recursion on `Json` / `Query`).

Two regular expressions are *parameters* here (they are modelled elsewhere):
`legacyDid` = `LEGACY_DID_IDENTIFIER.captures(_).is_some()` and
`isUri` = `validation::is_uri_identifier`.
-/
namespace AnonModel.Query
open AnonModel.Json

/-- `utils/query.rs: AbstractQuery<String, String>` (`isIn` is Rust's `In`) -/
inductive Query where
  | and (qs : List Query)
  | or (qs : List Query)
  | not (q : Query)
  | eq (k v : String)
  | neq (k v : String)
  | gt (k v : String)
  | gte (k v : String)
  | lt (k v : String)
  | lte (k v : String)
  | like (k v : String)
  | isIn (k : String) (vs : List String)
  | exist (ks : List String)
deriving Repr, Inhabited

/-! ## Parsing (`Deserialize for Query`) -/

/-- `utils/query.rs: parse_single_operator`. Rejected: an operator name other than the
seven below; a non-string operand of `$neq … $like`; a `$in` operand which is not an
array or has a member which is not a string. -/
def parseSingleOperator (op key : String) (v : Json) : Option Query :=
  if op = "$neq" then (match v with | .str s => some (.neq key s) | _ => none)
  else if op = "$gt" then (match v with | .str s => some (.gt key s) | _ => none)
  else if op = "$gte" then (match v with | .str s => some (.gte key s) | _ => none)
  else if op = "$lt" then (match v with | .str s => some (.lt key s) | _ => none)
  else if op = "$lte" then (match v with | .str s => some (.lte key s) | _ => none)
  else if op = "$like" then (match v with | .str s => some (.like key s) | _ => none)
  else if op = "$in" then
    (match v with
     | .arr vs => (match strList? vs with | some l => some (.isIn key l) | none => none)
     | _ => none)
  else none

/-- tail of `utils/query.rs: parse_query`: a vector of exactly one operator is
unwrapped, any other vector (empty included) becomes `And` -/
def finish : List Query → Query
  | [q] => q
  | qs => .and qs

mutual
/-- `utils/query.rs: parse_operator` (`Ok(None)` = `some none`: the entry contributes
nothing). The Rust `match (key, value)` is read arm by arm for each kind of value.
Rejected: `$and`/`$or` with a non-array or with a non-object member; `$not` with a
non-object; `$exist` with anything but a string or an array of strings; for every
other key a number, boolean, null or array value, an object value with ≠ 1 entries,
and whatever `parseSingleOperator` rejects. -/
def parseOperator (key : String) : Json → Option (Option Query)
  | .arr vs =>
    if key = "$and" then
      (if vs.isEmpty then some none
       else match parseListOperators vs with
         | some l => some (some (.and l))
         | none => none)
    else if key = "$or" then
      (if vs.isEmpty then some none
       else match parseListOperators vs with
         | some l => some (some (.or l))
         | none => none)
    else if key = "$not" then none
    else if key = "$exist" then
      (if vs.isEmpty then some none
       else match strList? vs with
         | some ks => some (some (.exist ks))
         | none => none)
    else none
  | .obj m =>
    if key = "$and" then none
    else if key = "$or" then none
    else if key = "$not" then
      (match parseEntries m with
       | some ops => some (some (.not (finish ops)))
       | none => none)
    else if key = "$exist" then none
    else
      (match m with
       | [(op, x)] => (match parseSingleOperator op key x with | some q => some (some q) | none => none)
       | _ => none)
  | .str s =>
    if key = "$and" then none
    else if key = "$or" then none
    else if key = "$not" then none
    else if key = "$exist" then some (some (.exist [s]))
    else some (some (.eq key s))
  | _ => none
/-- the `for (key, value) in map` loop of `parse_query`, in list order -/
def parseEntries : List (String × Json) → Option (List Query)
  | [] => some []
  | (k, v) :: r =>
    match parseOperator k v with
    | none => none
    | some o =>
      match parseEntries r with
      | none => none
      | some qs => some (match o with | some q => q :: qs | none => qs)
/-- `utils/query.rs: parse_list_operators` -/
def parseListOperators : List Json → Option (List Query)
  | [] => some []
  | .obj m :: r =>
    match parseEntries m with
    | none => none
    | some ops =>
      match parseListOperators r with
      | none => none
      | some qs => some (finish ops :: qs)
  | _ :: _ => none
end

/-- `utils/query.rs: parse_query` -/
def parseQuery (m : List (String × Json)) : Option Query :=
  match parseEntries m with
  | some ops => some (finish ops)
  | none => none

/-- the `.filter(|(_, v)| !v.is_null())` of the legacy branch -/
def dropNulls (m : List (String × Json)) : List (String × Json) :=
  m.filter (fun kv => !kv.2.isNull)

/-- the loop of the legacy (array) branch of `Deserialize for Query`: every member
must be an object; null-valued entries are removed; objects left empty are dropped -/
def legacyFilters : List Json → Option (List Json)
  | [] => some []
  | .obj m :: r =>
    match legacyFilters r with
    | none => none
    | some res => some (if (dropNulls m).isEmpty then res else .obj (dropNulls m) :: res)
  | _ :: _ => none

/-- `impl Deserialize for Query`: an object is a WQL query, an array is the legacy
list of filters (rewritten to `{"$or": [...]}`), anything else is an error -/
def parseRestriction : Json → Option Query
  | .obj m => parseQuery m
  | .arr a =>
    match legacyFilters a with
    | none => none
    | some res => parseQuery [("$or", .arr res)]
  | _ => none

/-! ## Printing (`Serialize for Query`) -/

mutual
/-- `utils/query.rs: to_value`. Every object produced has at most one key. -/
def print : Query → Json
  | .eq k v => .obj [(k, .str v)]
  | .neq k v => .obj [(k, .obj [("$neq", .str v)])]
  | .gt k v => .obj [(k, .obj [("$gt", .str v)])]
  | .gte k v => .obj [(k, .obj [("$gte", .str v)])]
  | .lt k v => .obj [(k, .obj [("$lt", .str v)])]
  | .lte k v => .obj [(k, .obj [("$lte", .str v)])]
  | .like k v => .obj [(k, .obj [("$like", .str v)])]
  | .isIn k vs => .obj [(k, .obj [("$in", .arr (vs.map .str))])]
  | .exist ks => .obj [("$exist", .arr (ks.map .str))]
  | .and [] => .obj []
  | .and (q :: qs) => .obj [("$and", .arr (print q :: printList qs))]
  | .or [] => .obj []
  | .or (q :: qs) => .obj [("$or", .arr (print q :: printList qs))]
  | .not q => .obj [("$not", print q)]
/-- `queries.iter().map(Self::to_value).collect()` -/
def printList : List Query → List Json
  | [] => []
  | q :: qs => print q :: printList qs
end

mutual
/-- `utils/query.rs: get_name` -/
def names : Query → List String
  | .and qs => namesList qs
  | .or qs => namesList qs
  | .not q => names q
  | .exist ks => ks
  | .eq k _ => [k]
  | .neq k _ => [k]
  | .gt k _ => [k]
  | .gte k _ => [k]
  | .lt k _ => [k]
  | .lte k _ => [k]
  | .like k _ => [k]
  | .isIn k _ => [k]
/-- `subqueries.iter().flat_map(Self::get_name)` -/
def namesList : List Query → List String
  | [] => []
  | q :: qs => names q ++ namesList qs
end

/-! ## Evaluation (`services/verifier.rs`) -/

/-- `services/verifier.rs: Filter` — what is known about the credential behind a referent -/
structure Filter where
  schemaId : String
  schemaIssuerId : String
  schemaName : String
  schemaVersion : String
  issuerId : String
  credDefId : String
deriving Repr, Inhabited

/-- `services/verifier.rs: precess_filed` (sic). The legacy-identifier test is applied
to the *filter* value (the credential's issuer), not to the value in the restriction. -/
def processField (legacyDid : String → Bool) (field filterValue tagValue : String) : Bool :=
  if (field = "schema_issuer_did" ∨ field = "issuer_did") ∧ legacyDid filterValue = false then false
  else decide (filterValue = tagValue)

/-- `l` without the prefix `p`, if it has it -/
def stripPrefix : List Char → List Char → Option (List Char)
  | [], l => some l
  | _ :: _, [] => none
  | a :: p, b :: l => if a = b then stripPrefix p l else none

/-- capture group 1 of `INTERNAL_TAG_MATCHER = ^attr::([^:]+)::(value|marker)$` on `key`
(`none`: no match). After the prefix the name is the maximal run of characters other
than `:` (any character, newline included); it must be non-empty and be followed by
exactly `::value` or `::marker` up to the end of the string. -/
def internalTagName (key : String) : Option String :=
  match stripPrefix "attr::".toList key.toList with
  | none => none
  | some rest =>
    let name := rest.takeWhile (fun c => c != ':')
    let tail := rest.dropWhile (fun c => c != ':')
    if name ≠ [] ∧ (tail = "::value".toList ∨ tail = "::marker".toList) then some (String.ofList name)
    else none

/-- `HashMap::contains_key` on the association list -/
def hasKey (vals : List (String × Option String)) (n : String) : Bool :=
  vals.any (fun p => p.1 == n)

/-- `services/verifier.rs: is_attr_internal_tag` -/
def isAttrInternalTag (key : String) (vals : List (String × Option String)) : Bool :=
  match internalTagName key with
  | some n => hasKey vals n
  | none => false

/-- `services/verifier.rs: check_internal_tag_revealed_value` (`HashMap::get` = first
match in the association list): a revealed value must equal the tag value; an
unrevealed (`Some(None)`) or absent attribute passes. -/
def checkInternalTagRevealedValue (key tagValue : String) (vals : List (String × Option String)) : Bool :=
  match internalTagName key with
  | none => false
  | some n =>
    match vals.lookup n with
    | some (some revealed) => decide (revealed = tagValue)
    | _ => true

/-- `services/verifier.rs: is_attr_operator`:
`key.starts_with("attr::") && key.ends_with("::marker")` (the two may overlap) -/
def isAttrOperator (key : String) : Bool :=
  "attr::".toList.isPrefixOf key.toList && "::marker".toList.isSuffixOf key.toList

/-- `services/verifier.rs: process_filter(..).is_ok()`; the arms in the order of the Rust `match` -/
def processFilter (legacyDid : String → Bool) (vals : List (String × Option String)) (f : Filter)
    (tag tagValue : String) : Bool :=
  if tag = "schema_id" then processField legacyDid tag f.schemaId tagValue
  else if tag = "schema_issuer_did" ∨ tag = "schema_issuer_id" then
    processField legacyDid tag f.schemaIssuerId tagValue
  else if tag = "schema_name" then processField legacyDid tag f.schemaName tagValue
  else if tag = "schema_version" then processField legacyDid tag f.schemaVersion tagValue
  else if tag = "cred_def_id" then processField legacyDid tag f.credDefId tagValue
  else if tag = "issuer_did" ∨ tag = "issuer_id" then processField legacyDid tag f.issuerId tagValue
  else if isAttrInternalTag tag vals then checkInternalTagRevealedValue tag tagValue vals
  else if isAttrOperator tag then true
  else false

mutual
/-- `services/verifier.rs: process_operator(..).is_ok()` -/
def eval (legacyDid : String → Bool) (vals : List (String × Option String)) (f : Filter) : Query → Bool
  | .eq k v => processFilter legacyDid vals f k v
  | .neq k v => !processFilter legacyDid vals f k v
  | .isIn k vs => vs.any (fun v => processFilter legacyDid vals f k v)
  | .and qs => evalAll legacyDid vals f qs
  | .or qs => evalAny legacyDid vals f qs
  | .not q => !eval legacyDid vals f q
  | .gt _ _ => false
  | .gte _ _ => false
  | .lt _ _ => false
  | .lte _ _ => false
  | .like _ _ => false
  | .exist _ => false
/-- `operators.iter().map(process_operator).collect::<Result<Vec<()>>>().is_ok()` -/
def evalAll (legacyDid : String → Bool) (vals : List (String × Option String)) (f : Filter) : List Query → Bool
  | [] => true
  | q :: qs => eval legacyDid vals f q && evalAll legacyDid vals f qs
/-- `operators.iter().any(|op| process_operator(op).is_ok())` -/
def evalAny (legacyDid : String → Bool) (vals : List (String × Option String)) (f : Filter) : List Query → Bool
  | [] => false
  | q :: qs => eval legacyDid vals f q || evalAny legacyDid vals f qs
end

/-- `services/verifier.rs: is_self_attested(referent, info, set)`;
`inSet` = `set.contains(referent)`, `restrictions` = `info.restrictions` -/
def isSelfAttested (restrictions : Option Query) (inSet : Bool) : Bool :=
  match restrictions with
  | some (.and []) => inSet
  | some (.or []) => inSet
  | none => inSet
  | some _ => false

/-! ## Request validation (`data_types/pres_request.rs`) -/

/-- `data_types/credential.rs: Credential::QUALIFIABLE_TAGS` -/
def qualifiableTags : List String :=
  ["issuer_did", "cred_def_id", "schema_id", "schema_issuer_did", "rev_reg_id"]

/-- `data_types/pres_request.rs: _check_restriction(..).is_ok()`; `v1` = `version == V1` -/
def checkRestriction (isUri : String → Bool) (v1 : Bool) (tagName tagValue : String) : Bool :=
  !(v1 && qualifiableTags.contains tagName && isUri tagValue)

mutual
/-- `data_types/pres_request.rs: _process_operator(..).is_ok()` -/
def validateQuery (isUri : String → Bool) (v1 : Bool) : Query → Bool
  | .eq k v => checkRestriction isUri v1 k v
  | .neq k v => checkRestriction isUri v1 k v
  | .gt k v => checkRestriction isUri v1 k v
  | .gte k v => checkRestriction isUri v1 k v
  | .lt k v => checkRestriction isUri v1 k v
  | .lte k v => checkRestriction isUri v1 k v
  | .like k v => checkRestriction isUri v1 k v
  | .isIn k vs => vs.all (fun v => checkRestriction isUri v1 k v)
  | .exist ks => ks.all (fun k => checkRestriction isUri v1 k "")
  | .and qs => validateAll isUri v1 qs
  | .or qs => validateAll isUri v1 qs
  | .not q => validateQuery isUri v1 q
def validateAll (isUri : String → Bool) (v1 : Bool) : List Query → Bool
  | [] => true
  | q :: qs => validateQuery isUri v1 q && validateAll isUri v1 qs
end

/-- `if let Some(ref restrictions) = … { _process_operator(restrictions, &version)?; }` -/
def validateOptQuery (isUri : String → Bool) (v1 : Bool) : Option Query → Bool
  | none => true
  | some q => validateQuery isUri v1 q

/-- body of the `requested_attributes` loop: exactly one of a non-empty `name` and a
non-empty `names`, and admissible restrictions -/
def validateAttr (isUri : String → Bool) (v1 : Bool)
    (a : Option String × Option (List String) × Option Query) : Bool :=
  let hasName := !(match a.1 with | none => true | some s => decide (s = ""))
  let hasNames := !(match a.2.1 with | none => true | some l => l.isEmpty)
  if !hasName && !hasNames then false
  else if hasName && hasNames then false
  else validateOptQuery isUri v1 a.2.2

/-- body of the `requested_predicates` loop -/
def validatePred (isUri : String → Bool) (v1 : Bool) (p : String × Option Query) : Bool :=
  if p.1 = "" then false else validateOptQuery isUri v1 p.2

/-- `impl Validatable for PresentationRequest: validate(..).is_ok()`, clauses on
requested attributes / predicates (the maps are given as the lists of their values;
the order is irrelevant for `is_ok`). `attrs`: `(name, names, restrictions)`;
`preds`: `(name, restrictions)`. -/
def validateRequest (isUri : String → Bool) (v1 : Bool)
    (attrs : List (Option String × Option (List String) × Option Query))
    (preds : List (String × Option Query)) : Bool :=
  if attrs.isEmpty && preds.isEmpty then false
  else attrs.all (validateAttr isUri v1) && preds.all (validatePred isUri v1)

end AnonModel.Query

/-!
# M4 — non-revocation intervals

Models, as they are in `/repo`:
* `data_types/pres_request.rs: NonRevokedInterval::{compare_and_set, update_with_override, is_valid}`;
* `services/helpers.rs: get_requested_non_revoked_interval` (verifier side),
  `get_non_revoked_interval` (prover side), and the interval fold of
  `PresentationRequestPayload::{get_requested_attributes, get_requested_predicates}`;
* `services/verifier.rs: check_non_revoked_interval` (legacy format);
* `services/w3c/verifier.rs: check_credential_non_revoked_interval` (W3C format).

Timestamps are `u64` in Rust and `Nat` here. The only place where the width matters is
`to.unwrap_or(u64::MAX)` in `is_valid`; theorems that depend on it carry `t < 2^64`.
The override maps are `HashMap`s (unique keys): association lists with first-match lookup.
All functions are total: the only `Err`s of the Rust code are the two verdicts, modelled
as `Bool` (`true` = `Ok(())`).
-/
namespace AnonModel.Interval

/-- `u64::MAX` -/
def u64Max : Nat := 18446744073709551615

/-- `pres_request.rs: NonRevokedInterval { from, to }` (`from` is a keyword: `lo`, `hi`) -/
structure Ivl where
  lo : Option Nat
  hi : Option Nat
deriving DecidableEq, Repr

/-- verifier's override: registry id ↦ (requested `from` ↦ accepted `from`) -/
abbrev Overrides := List (String × List (Nat × Nat))

/-- `compare_and_set`, first `match`: the later `from` wins, `Some` replaces `None` -/
def mergeLo : Option Nat → Option Nat → Option Nat
  | some a, some b => if a < b then some b else some a
  | none, some b => some b
  | some a, none => some a
  | none, none => none

/-- `compare_and_set`, second `match`: the earlier `to` wins, `Some` replaces `None` -/
def mergeHi : Option Nat → Option Nat → Option Nat
  | some a, some b => if b < a then some b else some a
  | none, some b => some b
  | some a, none => some a
  | none, none => none

/-- `NonRevokedInterval::compare_and_set(&mut self, to_compare)`: the value of `self` afterwards -/
def merge (self toCompare : Ivl) : Ivl :=
  ⟨mergeLo self.lo toCompare.lo, mergeHi self.hi toCompare.hi⟩

/-- `NonRevokedInterval::update_with_override`: if `from` is `Some(f)` and the map has key `f`,
`from` becomes the mapped value; `to` is never touched -/
def applyOverride (m : List (Nat × Nat)) (i : Ivl) : Ivl :=
  match i.lo with
  | none => i
  | some f =>
    match m.lookup f with
    | some v => { i with lo := some v }
    | none => i

/-- `NonRevokedInterval::is_valid(timestamp).is_ok()`:
`Err` iff `timestamp < from.unwrap_or(0) || timestamp > to.unwrap_or(u64::MAX)` -/
def valid (i : Ivl) (t : Nat) : Bool :=
  !(decide (t < (match i.lo with | some f => f | none => 0)) ||
    decide (t > (match i.hi with | some u => u | none => u64Max)))

/-- Combination of two optional intervals. Two code sites, same function:
* the loop body of `get_requested_attributes` / `get_requested_predicates`
  (`acc`, next referent's `non_revoked`): skip `None`, start from the first `Some`,
  then `acc.compare_and_set(next)`;
* the `match (attrs_nonrevoked_interval, pred_nonrevoked_interval)` of
  `check_non_revoked_interval` and `get_non_revoked_interval`. -/
def mergeOpt : Option Ivl → Option Ivl → Option Ivl
  | some a, some b => some (merge a b)
  | some a, none => some a
  | none, some b => some b
  | none, none => none

/-- interval returned by `get_requested_attributes` / `get_requested_predicates` for the
referents of one credential, given their `non_revoked` fields in iteration order
(the Rust iteration is over a `HashSet`, i.e. in an arbitrary order) -/
def foldLocals (locals : List (Option Ivl)) : Option Ivl :=
  locals.foldl mergeOpt none

/-- the part of `get_requested_non_revoked_interval` / `get_non_revoked_interval` starting at
`nonrevoke_interval_override.map(|maps| maps.get(rev_reg_id).map(|map| int.update_with_override(map)))` -/
def overrideFor (regId : String) (ovr : Option Overrides) (i : Ivl) : Ivl :=
  match ovr with
  | none => i
  | some maps =>
    match maps.lookup regId with
    | none => i
    | some m => applyOverride m i

/-- `helpers.rs: get_requested_non_revoked_interval(rev_reg_id, local, global, override)`.
Without a registry id the local interval is returned as is (no global fallback, no override). -/
def requested (regId : Option String) (loc glob : Option Ivl) (ovr : Option Overrides) :
    Option Ivl :=
  match regId with
  | none => loc
  | some id =>
    let i := match loc with
      | some l => some l
      | none => glob
    match i with
    | some i => some (overrideFor id ovr i)
    | none => none

/-- `helpers.rs: get_non_revoked_interval(attrs, preds, pres_req, rev_reg_id, override)`
(prover side). Without a registry id the result is `None` whatever the intervals. -/
def proverInterval (attrs preds glob : Option Ivl) (regId : Option String)
    (ovr : Option Overrides) : Option Ivl :=
  match regId with
  | none => none
  | some id =>
    let i := match mergeOpt attrs preds with
      | some l => some l
      | none => glob
    match i with
    | some i => some (overrideFor id ovr i)
    | none => none

/-- common tail of both verifier checks: if an interval results, the timestamp must be
present (`ok_or_else(..)?`) and pass `is_valid` -/
def checkTs (i : Option Ivl) (ts : Option Nat) : Bool :=
  match i with
  | none => true
  | some i =>
    match ts with
    | none => false
    | some t => valid i t

/-- `services/verifier.rs: check_non_revoked_interval(..).is_ok()`;
`revocable` is `cred_def.value.revocation.is_some()`, `attrs`/`preds` are the intervals
returned by `get_requested_attributes`/`get_requested_predicates`, `glob` is
`pres_req.non_revoked`, `regId`/`ts` are the identifier's `rev_reg_id`/`timestamp`. -/
def checkLegacy (revocable : Bool) (attrs preds glob : Option Ivl) (regId : Option String)
    (ovr : Option Overrides) (ts : Option Nat) : Bool :=
  if revocable then checkTs (requested regId (mergeOpt attrs preds) glob ovr) ts else true

/-- `services/w3c/verifier.rs: check_credential_non_revoked_interval(..).is_ok()`;
`loc` is the `non_revoked` of the requested attribute / predicate being checked, `regId`/`ts`
are `proof.rev_reg_id`/`proof.timestamp`. Keyed on the presentation's registry id, not on the
credential definition. -/
def checkW3C (loc glob : Option Ivl) (regId : Option String) (ovr : Option Overrides)
    (ts : Option Nat) : Bool :=
  match regId with
  | none => true
  | some id => checkTs (requested (some id) loc glob ovr) ts

end AnonModel.Interval

import AnonModel.Model.Issuance
import AnonModel.Model.Convert
/-!
# M8 (issuance, W3C form) — `services/w3c/issuer.rs: create_credential`, `services/w3c/prover.rs:
process_credential`

Both first turn the credential subject into encoded values with `CredentialSubject::encode`
(`Convert.subjectEncode`: strings and numbers are encoded from their printed form, a boolean cannot be
encoded and makes the call fail) and then run the legacy logic on those values. The issued W3C
credential carries the subject *as given*; the holder's processing additionally needs the credential's
data-integrity proof to hold a credential *signature* (not a presentation proof).
-/
namespace AnonModel.IssuanceW3C
open AnonModel.Issuance AnonModel.Convert

/-- name ↦ encoded of the encoded subject -/
def encodedOf (v : Values) : List (String × String) := v.map (fun x => (x.1, x.2.2))

structure CredentialW3C where
  subject : Subject
  sig : Signature
deriving Repr, Inhabited

/-- `w3c::issuer::create_credential(..)` -/
def createCredentialW3C (cd : CredDef) (offer : Offer) (req : CredRequest) (subject : Subject) :
    Option CredentialW3C :=
  match subjectEncode subject with
  | none => none
  | some v =>
    match createCredential cd offer req (encodedOf v) with
    | none => none
    | some c => some { subject := subject, sig := c.sig }

/-- `w3c::prover::process_credential(..).is_ok()`; `sigProofOk`: the proof of the credential is an
AnonCreds data-integrity proof holding a credential signature -/
def processCredentialW3C (c : CredentialW3C) (sigProofOk : Bool) (m : ReqMeta) (holder : Nat) (cd : CredDef) : Bool :=
  match subjectEncode c.subject with
  | none => false
  | some v => sigProofOk && processCredential { values := encodedOf v, sig := c.sig } m holder cd

end AnonModel.IssuanceW3C

import AnonModel.Model.Sha256
/-!
# M7 — tails file: layout, reader offsets, base58 name, writer as a fault machine

Models `/repo/src/services/tails.rs`:
* `TailsFileWriter::write` — temp file `<20 digits>.tmp` opened with `create_new`, a
  `TempFile` drop guard, `BufWriter`, the version tag `[0,2]`, every tail's bytes,
  `into_inner` (flush), `stream_position`, `hash = base58(sha256(all bytes))`,
  `drop(file)`, `rename(temp, root/hash)`; every `?` runs the guard's `Drop`
  (`remove_file(temp)`), also when `rename` itself fails (the guard is forgotten only
  after a successful rename);
* `TailsFileReader::read` / `access_tail` — `seek(TAIL_SIZE * k + TAILS_BLOB_TAG_SZ)`
  then `read_exact(TAIL_SIZE)`;
* `utils/base58.rs: encode` = `bs58::encode(..).into_string()` (`bs58-0.5.1
  encode.rs: encode_into`, Bitcoin alphabet).

Constants: `TAILS_BLOB_TAG_SZ = 2`; `TAIL_SIZE = Tail::BYTES_REPR_SIZE =
PointG2::BYTES_REPR_SIZE = MODBYTES * 4 = 128` (`anoncreds-clsignatures-0.3.2 amcl.rs`,
`amcl-0.2.0 rom_bn254_64.rs: MODBYTES = 32`). The tail size is a parameter of the reader
model (`size`); nothing in the writer depends on it.

Not exhibited by this model (assumptions, see `Props/C19.lean`): durability across power
loss (the code never calls `fsync`), the atomicity of `rename(2)`, and that the
streaming `Sha256::update` calls hash the concatenation of their inputs.
-/
namespace AnonModel.Tails

/-- `TAIL_SIZE` of `services/tails.rs` (128 for BN254) -/
def TAIL_SIZE : Nat := 128

/-- `TAILS_BLOB_TAG_SZ` of `services/tails.rs` -/
def TAG_SZ : Nat := 2

/-- the version tag written first: `let version = &[0u8, 2u8]` -/
def versionTag : List UInt8 := [0, 2]

/-- all bytes `TailsFileWriter::write` hands to the file, in order -/
def fileBytes (tails : List (List UInt8)) : List UInt8 := versionTag ++ tails.flatten

/-- the byte range `TailsFileReader::read(size, size * k + 2)` asks for (what `seek` +
`read` deliver when the file is long enough; shorter when it is not) -/
def readSlice (size : Nat) (bytes : List UInt8) (k : Nat) : List UInt8 :=
  (bytes.drop (TAG_SZ + size * k)).take size

/-- `TailsFileReader::read` as used by `access_tail`: `read_exact` fails (`none`) when
fewer than `size` bytes are available at the offset -/
def readTail (size : Nat) (bytes : List UInt8) (k : Nat) : Option (List UInt8) :=
  let s := readSlice size bytes k
  if s.length = size then some s else none

/-! ### base58 (`bs58::encode`, Bitcoin alphabet) -/

def alphabet : List Char := "123456789ABCDEFGHJKLMNPQRSTUVWXYZabcdefghijkmnopqrstuvwxyz".toList

theorem alphabet_length : alphabet.length = 58 := by decide

/-- `for byte in &mut output[..index] { carry += byte << 8; *byte = carry % 58; carry /= 58 }`
over the little-endian base-58 digits; returns the new digits and the outgoing carry -/
def mulAdd : List (Fin 58) → Nat → List (Fin 58) × Nat
  | [], carry => ([], carry)
  | d :: ds, carry =>
    let c := carry + d.val * 256
    let r := mulAdd ds (c / 58)
    (⟨c % 58, Nat.mod_lt _ (by decide)⟩ :: r.1, r.2)

/-- `while carry > 0 { output[index] = carry % 58; index += 1; carry /= 58 }` -/
def pushCarry (carry : Nat) : List (Fin 58) :=
  if h : carry = 0 then [] else
    ⟨carry % 58, Nat.mod_lt _ (by decide)⟩ :: pushCarry (carry / 58)
termination_by carry
decreasing_by omega

/-- one iteration of the outer `for &val in input` loop -/
def feedByte (digits : List (Fin 58)) (b : UInt8) : List (Fin 58) :=
  let r := mulAdd digits b.toNat
  r.1 ++ pushCarry r.2

/-- `bs58::encode(bytes).into_string()`: base-58 digits of the big-endian number, one
extra zero digit per leading zero byte, mapped through the alphabet, reversed -/
def base58 (bytes : List UInt8) : String :=
  let digits := bytes.foldl feedByte []
  let zeros : List (Fin 58) := (bytes.takeWhile (· == 0)).map (fun _ => (0 : Fin 58))
  String.ofList ((digits ++ zeros).map (fun d => alphabet[d.val]'(by rw [alphabet_length]; exact d.isLt))).reverse

def toByteArray (bs : List UInt8) : ByteArray := ⟨bs.toArray⟩

/-- SHA-256 of a byte list -/
def sha256 (bs : List UInt8) : List UInt8 := (Sha256.sha256 (toByteArray bs)).toList

/-- `hash` of `TailsFileWriter::write`: file name, `tails_hash`, last component of `tails_location` -/
def fileName (tails : List (List UInt8)) : String := base58 (sha256 (fileBytes tails))

/-- `format!("{:020}.tmp", random::<u64>())` -/
def tempName (r : Nat) : String :=
  let ds := (Nat.repr r).toList
  String.ofList (List.replicate (20 - ds.length) '0' ++ ds ++ ".tmp".toList)

/-! ### abstract directory -/

/-- directory: name ↦ content -/
abbrev Dir := List (String × List UInt8)

def dirGet (d : Dir) (name : String) : Option (List UInt8) := List.lookup name d

/-- remove an entry (`remove_file`) -/
def dirDel (d : Dir) (name : String) : Dir := d.filter (fun e => !(e.1 == name))

/-- create or replace an entry -/
def dirPut (d : Dir) (name : String) (c : List UInt8) : Dir := (name, c) :: dirDel d name

/-- `rename(old, new)`: replaces `new` if it exists; a missing `old` is `ENOENT` (no change) -/
def dirRename (d : Dir) (old new : String) : Dir :=
  match dirGet d old with
  | none => d
  | some c => dirPut (dirDel d old) new c

/-! ### writer machine -/

/-- control points of `TailsFileWriter::write` -/
inductive Pc where
  /-- `File::options().create_new(true).open(temp)` and creation of the guard -/
  | create
  /-- `buf.write_all(version)` -/
  | header
  /-- `generator.try_next()?`, `tail.to_bytes()?`, `buf.write_all(&tail_bytes)?` for tail `i` -/
  | tail (i : Nat)
  /-- `buf.into_inner()` -/
  | flush
  /-- `file.stream_position()?` (the only fallible part) and `drop(file)` -/
  | close
  /-- `temp_handle.rename(&target_path)` -/
  | rename
  deriving DecidableEq, Repr

inductive Outcome where
  /-- the step succeeds -/
  | ok
  /-- the step returns `Err`: the `?` path runs (locals dropped, guard removes the temp file) -/
  | error
  /-- the process stops during this step; nothing else runs -/
  | crash
  deriving DecidableEq, Repr

/-- what the environment decides at one step -/
structure Fault where
  outcome : Outcome
  /-- nondeterminism below the model: for buffered writes, how many of the bytes handed to
  the `BufWriter` so far have reached the file after this step (clamped to what is possible);
  for a crash during `create`/`rename`: `0` = before the system call took effect, else after -/
  written : Nat
  /-- `remove_file` in the guard's `Drop` fails too (only logged by the Rust code) -/
  removeFails : Bool
  deriving Repr

def okFault : Fault := ⟨.ok, 0, false⟩

/-- a path as `parent.join(file)` -/
structure Location where
  parent : String
  file : String
  deriving DecidableEq, Repr

inductive Status where
  | running
  /-- `Ok((target_path, hash))` -/
  | ok (location : Location) (hash : String)
  | err
  | crashed
  deriving DecidableEq, Repr

structure WState where
  dir : Dir
  /-- bytes handed to `buf.write_all` (and to `hasher.update`) so far -/
  handed : List UInt8
  pc : Pc
  status : Status

/-- inputs of one `write` call -/
structure Env where
  root : String
  /-- `random::<u64>()` -/
  rand : Nat
  tails : List (List UInt8)

/-- the temporary file name of this call -/
def Env.temp (e : Env) : String := tempName e.rand

def init (dir0 : Dir) : WState := ⟨dir0, [], .create, .running⟩

/-- the `while let Some(tail) = generator.try_next()?` loop head -/
def nextTail (e : Env) (i : Nat) : Pc := if i < e.tails.length then .tail i else .flush

/-- content of the temp file after a buffered operation: some prefix of everything handed
over so far, never shorter than what was already in the file -/
def partialContent (cur handed : List UInt8) (written : Nat) : List UInt8 :=
  handed.take (max written cur.length)

/-- the `?` path after the guard exists: `BufWriter`/`File` locals are dropped, then
`TempFile::drop` calls `remove_file(temp)` -/
def errPath (e : Env) (f : Fault) (dir : Dir) (handed : List UInt8) : WState :=
  ⟨if f.removeFails then dir else dirDel dir e.temp, handed, .create, .err⟩

/-- `write_all(data)` into the `BufWriter` (`data = []` for steps that write nothing) -/
def bufStep (e : Env) (f : Fault) (data : List UInt8) (flushAll : Bool) (next : Pc) (st : WState) : WState :=
  let handed := st.handed ++ data
  let cur := (dirGet st.dir e.temp).getD []
  let dirP := dirPut st.dir e.temp (partialContent cur handed f.written)
  match f.outcome with
  | .ok => ⟨if flushAll then dirPut st.dir e.temp handed else dirP, handed, next, .running⟩
  | .error => errPath e f dirP handed
  | .crash => ⟨dirP, handed, st.pc, .crashed⟩

/-- one step of `TailsFileWriter::write` under fault `f` -/
def stepW (e : Env) (f : Fault) (st : WState) : WState :=
  match st.status with
  | .running =>
    match st.pc with
    | .create =>
      match dirGet st.dir e.temp with
      | some _ =>
        -- `create_new` on an existing name: `EEXIST`, returned before the guard exists
        match f.outcome with
        | .crash => { st with status := .crashed }
        | _ => { st with status := .err }
      | none =>
        match f.outcome with
        | .ok => ⟨dirPut st.dir e.temp [], [], .header, .running⟩
        | .error => { st with status := .err }
        | .crash => ⟨if f.written = 0 then st.dir else dirPut st.dir e.temp [], [], .create, .crashed⟩
    | .header => bufStep e f versionTag false (nextTail e 0) st
    | .tail i =>
      match e.tails[i]? with
      | some t => bufStep e f t false (nextTail e (i + 1)) st
      | none => { st with pc := .flush }
    | .flush => bufStep e f [] true .close st
    | .close =>
      match f.outcome with
      | .ok => { st with pc := .rename }
      | .error => errPath e f st.dir st.handed
      | .crash => { st with status := .crashed }
    | .rename =>
      let hash := base58 (sha256 st.handed)
      match f.outcome with
      | .ok => ⟨dirRename st.dir e.temp hash, st.handed, .rename, .ok ⟨e.root, hash⟩ hash⟩
      | .error => errPath e f st.dir st.handed
      | .crash => ⟨if f.written = 0 then st.dir else dirRename st.dir e.temp hash, st.handed, .rename, .crashed⟩
  | _ => st

/-- run `k` steps; step number `j` (0 = create, 1 = header, 2.. = tails, then flush, close,
rename) meets fault `faults j`; a finished machine no longer moves -/
def runW (e : Env) (faults : Nat → Fault) : Nat → WState → WState
  | 0, st => st
  | k + 1, st => stepW e (faults k) (runW e faults k st)

/-- number of steps of a fault-free run -/
def totalSteps (e : Env) : Nat := e.tails.length + 5

end AnonModel.Tails

import AnonModel.Model.Sha256
/-!
# M1 — attribute encoding

Models
* `str::parse::<i32>` as `core::num` implements it (sign handling, digit loop with
  checked multiply and checked add — checked *subtract* for negatives), used by
  `services/helpers.rs: encode_credential_attribute` and
  `services/verifier.rs: normalize_encoded_attr`;
* `encode_credential_attribute` (i32 → canonical decimal, else decimal of the
  big-endian SHA-256 digest);
* `normalize_encoded_attr`.

Characters: Rust works on bytes and accepts only `b'0'..=b'9'`, `b'+'`, `b'-'`; a
non-ASCII scalar never contains such a byte, so working on `Char`s is equivalent.
-/
namespace AnonModel.Encode

def i32Max : Int := 2147483647
def i32Min : Int := -2147483648

def digitVal (c : Char) : Option Nat :=
  if c.isDigit then some (c.toNat - '0'.toNat) else none

/-- positive loop: `checked_mul(10)` then `checked_add(d)` -/
def loopPos : Int → List Char → Option Int
  | acc, [] => some acc
  | acc, c :: cs =>
    match digitVal c with
    | none => none
    | some d =>
      let m := acc * 10
      if m > i32Max then none else
      let a := m + d
      if a > i32Max then none else loopPos a cs

/-- negative loop: `checked_mul(10)` then `checked_sub(d)` -/
def loopNeg : Int → List Char → Option Int
  | acc, [] => some acc
  | acc, c :: cs =>
    match digitVal c with
    | none => none
    | some d =>
      let m := acc * 10
      if m < i32Min then none else
      let a := m - d
      if a < i32Min then none else loopNeg a cs

/-- `<i32 as FromStr>::from_str` -/
def parseI32 : List Char → Option Int
  | [] => none
  | ['+'] => none
  | ['-'] => none
  | '+' :: cs => loopPos 0 cs
  | '-' :: cs => loopNeg 0 cs
  | cs => loopPos 0 cs

/-- `i32::to_string` (and `BigNumber::to_dec` for non-negative values) -/
def intToDec (n : Int) : String :=
  if n < 0 then "-" ++ Nat.repr n.natAbs else Nat.repr n.natAbs

/-- big-endian bytes → natural number (`BigNumber::from_bytes`) -/
def beNat (bs : List UInt8) : Nat := bs.foldl (fun a b => a * 256 + b.toNat) 0

def shaDec (s : String) : String := Nat.repr (beNat (Sha256.sha256 s.toUTF8).toList)

/-- `encode_credential_attribute` — total: the Rust `Result` is never `Err` -/
def encode (s : String) : String :=
  match parseI32 s.toList with
  | some n => intToDec n
  | none => shaDec s

/-- `normalize_encoded_attr` -/
def normalizeEnc (s : String) : String :=
  match parseI32 s.toList with
  | some n => intToDec n
  | none => s

end AnonModel.Encode

/-!
# JSON values (`serde_json::Value` without the `preserve_order` feature)

A JSON object is a `BTreeMap<String, Value>` in the Rust build: keys are unique and the
iteration order is the byte-lexicographic order of the keys. The model keeps an object
as an association list and never sorts: every consumer iterates *in list order*.
"keys strictly increasing" (`Json.WF`) is a separate well-formedness predicate which the
driver establishes when it converts a wire value; no function in the model needs it.

Numbers are kept as an `Int` only: the restriction parser never looks at a number
except to see that it is not a string.
-/
namespace AnonModel.Json

inductive Json where
  | null
  | bool (b : Bool)
  | num (n : Int)
  | str (s : String)
  | arr (xs : List Json)
  | obj (kvs : List (String × Json))
deriving Repr, Inhabited

/-- `Value::is_null` -/
def Json.isNull : Json → Bool
  | .null => true
  | _ => false

/-- the members of an array of strings; `none` as soon as one member is not a string
(the Rust loops `for v in values { if let String(s) = v { push } else { return Err } }`) -/
def strList? : List Json → Option (List String)
  | [] => some []
  | .str s :: r =>
    match strList? r with
    | some l => some (s :: l)
    | none => none
  | _ :: _ => none

/-- keys strictly increasing (hence unique): what a `BTreeMap` iteration yields -/
def keysSorted : List String → Bool
  | [] => true
  | [_] => true
  | a :: b :: r => decide (a < b) && keysSorted (b :: r)

mutual
/-- every object inside the value has strictly increasing keys -/
def Json.WF : Json → Bool
  | .arr xs => wfList xs
  | .obj kvs => keysSorted (kvs.map (·.1)) && wfEntries kvs
  | _ => true
def wfList : List Json → Bool
  | [] => true
  | j :: r => j.WF && wfList r
def wfEntries : List (String × Json) → Bool
  | [] => true
  | (_, v) :: r => v.WF && wfEntries r
end

end AnonModel.Json

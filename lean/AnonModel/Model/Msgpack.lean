import AnonModel.Model.WirePv
/-!
# M14d (the msgpack layer) — `utils/msg_pack.rs`: `rmp_serde::to_vec_named` / `rmp_serde::from_slice`

Every W3C proof value is `'u' ++ base64url(msgpack(value))`. This file is the byte format of the msgpack layer as the
`rmp` / `rmp-serde` crates write and read it for the value kinds the library's structures produce: nil, booleans,
integers (`i64` / `u64`), strings, byte strings, sequences and maps (structures are written as maps with string keys:
`to_vec_named`).

* The writer chooses the shortest form: `rmp::encode::write_sint` / `write_uint` (positive numbers always in an unsigned
  form), `write_str_len`, `write_bin_len`, `write_array_len`, `write_map_len`.
* The reader (`Deserializer::deserialize_any`) accepts every form, shortest or not, and `from_slice` does not look at
  what follows the value: trailing bytes are ignored.
* Floats and extension types are outside the fragment (`none`; the library's structures hold neither), and the reader's
  nesting limit (1024) is not modelled.

Bytes are `Nat`s (bounded by hypotheses in the theorems). A map is kept as the flat list `k₁ v₁ k₂ v₂ …`.
-/
namespace AnonModel.Msgpack

inductive MV where
  | nil
  | bool (b : Bool)
  | int (i : Int)               -- within -2^63 .. 2^64-1
  | str (bs : List Nat)         -- the UTF-8 bytes
  | bin (bs : List Nat)
  | arr (xs : List MV)
  | map (kvs : List MV)         -- alternating keys and values: even length
deriving Repr, Inhabited

/-- `k` bytes, big-endian -/
def be : Nat → Nat → List Nat
  | 0, _ => []
  | k + 1, n => (n / 256 ^ k) % 256 :: be k n

/-- big-endian value of a byte string -/
def beVal (bs : List Nat) : Nat := bs.foldl (fun a b => a * 256 + b) 0

/-- two's complement reading of a `k`-byte unsigned value -/
def sgn (k n : Nat) : Int := if n < 256 ^ k / 2 then (n : Int) else (n : Int) - (256 ^ k : Nat)

/-- `write_sint` / `write_uint` -/
def encInt (i : Int) : List Nat :=
  if 0 ≤ i then
    let n := i.toNat
    if n < 128 then [n]
    else if n < 256 then 0xcc :: be 1 n
    else if n < 65536 then 0xcd :: be 2 n
    else if n < 4294967296 then 0xce :: be 4 n
    else 0xcf :: be 8 n
  else
    if -32 ≤ i then [(256 + i).toNat]
    else if -128 ≤ i then 0xd0 :: be 1 (256 + i).toNat
    else if -32768 ≤ i then 0xd1 :: be 2 (65536 + i).toNat
    else if -2147483648 ≤ i then 0xd2 :: be 4 (4294967296 + i).toNat
    else 0xd3 :: be 8 (18446744073709551616 + i).toNat

/-- `write_str_len` -/
def strHdr (n : Nat) : List Nat :=
  if n < 32 then [0xa0 + n] else if n < 256 then 0xd9 :: be 1 n else if n < 65536 then 0xda :: be 2 n else 0xdb :: be 4 n

/-- `write_bin_len` -/
def binHdr (n : Nat) : List Nat :=
  if n < 256 then 0xc4 :: be 1 n else if n < 65536 then 0xc5 :: be 2 n else 0xc6 :: be 4 n

/-- `write_array_len` -/
def arrHdr (n : Nat) : List Nat :=
  if n < 16 then [0x90 + n] else if n < 65536 then 0xdc :: be 2 n else 0xdd :: be 4 n

/-- `write_map_len` (number of pairs) -/
def mapHdr (n : Nat) : List Nat :=
  if n < 16 then [0x80 + n] else if n < 65536 then 0xde :: be 2 n else 0xdf :: be 4 n

mutual
/-- `rmp_serde::to_vec_named` -/
def enc : MV → List Nat
  | .nil => [0xc0]
  | .bool false => [0xc2]
  | .bool true => [0xc3]
  | .int i => encInt i
  | .str bs => strHdr bs.length ++ bs
  | .bin bs => binHdr bs.length ++ bs
  | .arr xs => arrHdr xs.length ++ encs xs
  | .map kvs => mapHdr (kvs.length / 2) ++ encs kvs
def encs : List MV → List Nat
  | [] => []
  | x :: xs => enc x ++ encs xs
end

/-- the next `n` bytes and what follows them; `none` when fewer remain -/
def takeN (n : Nat) (bs : List Nat) : Option (List Nat × List Nat) :=
  if bs.length < n then none else some (bs.take n, bs.drop n)

/-- a `k`-byte big-endian length or number and what follows it -/
def readBe (k : Nat) (bs : List Nat) : Option (Nat × List Nat) :=
  match takeN k bs with
  | some (h, r) => some (beVal h, r)
  | none => none

/-- a length-prefixed run of bytes, the length in `k` bytes -/
def readRun (k : Nat) (bs : List Nat) : Option (List Nat × List Nat) :=
  match readBe k bs with
  | some (n, r) => takeN n r
  | none => none

mutual
/-- `Deserializer::deserialize_any`: one value and the bytes that follow it. The first argument bounds the recursion (any
number not below the length of the input is enough: every value takes at least one byte). -/
def dec : Nat → List Nat → Option (MV × List Nat)
  | 0, _ => none
  | _ + 1, [] => none
  | f + 1, b :: rest =>
    if b < 0x80 then some (.int b, rest)
    else if b < 0x90 then (match decN f (2 * (b - 0x80)) rest with | some (xs, r) => some (.map xs, r) | none => none)
    else if b < 0xa0 then (match decN f (b - 0x90) rest with | some (xs, r) => some (.arr xs, r) | none => none)
    else if b < 0xc0 then (match takeN (b - 0xa0) rest with | some (s, r) => some (.str s, r) | none => none)
    else if b = 0xc0 then some (.nil, rest)
    else if b = 0xc2 then some (.bool false, rest)
    else if b = 0xc3 then some (.bool true, rest)
    else if b = 0xc4 then (match readRun 1 rest with | some (s, r) => some (.bin s, r) | none => none)
    else if b = 0xc5 then (match readRun 2 rest with | some (s, r) => some (.bin s, r) | none => none)
    else if b = 0xc6 then (match readRun 4 rest with | some (s, r) => some (.bin s, r) | none => none)
    else if b = 0xcc then (match readBe 1 rest with | some (n, r) => some (.int n, r) | none => none)
    else if b = 0xcd then (match readBe 2 rest with | some (n, r) => some (.int n, r) | none => none)
    else if b = 0xce then (match readBe 4 rest with | some (n, r) => some (.int n, r) | none => none)
    else if b = 0xcf then (match readBe 8 rest with | some (n, r) => some (.int n, r) | none => none)
    else if b = 0xd0 then (match readBe 1 rest with | some (n, r) => some (.int (sgn 1 n), r) | none => none)
    else if b = 0xd1 then (match readBe 2 rest with | some (n, r) => some (.int (sgn 2 n), r) | none => none)
    else if b = 0xd2 then (match readBe 4 rest with | some (n, r) => some (.int (sgn 4 n), r) | none => none)
    else if b = 0xd3 then (match readBe 8 rest with | some (n, r) => some (.int (sgn 8 n), r) | none => none)
    else if b = 0xd9 then (match readRun 1 rest with | some (s, r) => some (.str s, r) | none => none)
    else if b = 0xda then (match readRun 2 rest with | some (s, r) => some (.str s, r) | none => none)
    else if b = 0xdb then (match readRun 4 rest with | some (s, r) => some (.str s, r) | none => none)
    else if b = 0xdc then (match readBe 2 rest with
      | some (n, r) => (match decN f n r with | some (xs, r') => some (.arr xs, r') | none => none) | none => none)
    else if b = 0xdd then (match readBe 4 rest with
      | some (n, r) => (match decN f n r with | some (xs, r') => some (.arr xs, r') | none => none) | none => none)
    else if b = 0xde then (match readBe 2 rest with
      | some (n, r) => (match decN f (2 * n) r with | some (xs, r') => some (.map xs, r') | none => none) | none => none)
    else if b = 0xdf then (match readBe 4 rest with
      | some (n, r) => (match decN f (2 * n) r with | some (xs, r') => some (.map xs, r') | none => none) | none => none)
    else if 0xe0 ≤ b ∧ b < 0x100 then some (.int ((b : Int) - 256), rest)
    else none          -- 0xc1 (never used), floats, extension types, and anything that is not a byte
/-- `n` values in a row -/
def decN : Nat → Nat → List Nat → Option (List MV × List Nat)
  | _, 0, bs => some ([], bs)
  | 0, _ + 1, _ => none
  | f + 1, n + 1, bs =>
    match dec f bs with
    | some (x, r) => (match decN f n r with | some (xs, r') => some (x :: xs, r') | none => none)
    | none => none
end

/-- `rmp_serde::from_slice`: the first value; what follows it is not looked at. A value of `n` nodes needs a bound of at
most `2 n` here, and every node takes a byte. -/
def decode (bs : List Nat) : Option MV := (dec (2 * bs.length + 2) bs).map (·.1)

/-! ## the whole proof value: `format::base64_msgpack` over the tagged sequence of `DataIntegrityProofValue` -/

/-- the msgpack value written for a proof value of kind `k` with payload structure `p` -/
def tagged (k : Nat) (p : MV) : MV := .arr [.int k, p]

/-- what the visitor reads from a decoded sequence: a tag in 1..3, one payload, nothing more -/
def untag : MV → Option (Nat × MV)
  | .arr [.int t, p] => if t = 1 then some (1, p) else if t = 2 then some (2, p) else if t = 3 then some (3, p) else none
  | _ => none

/-! ## structures (`to_vec_named`): a map keyed by the member names, in declaration order -/

/-- the pairs of a structure's members, flat -/
def members : List (List Nat × MV) → List MV
  | [] => []
  | (k, v) :: r => .str k :: v :: members r

/-- what a derived `Serialize` writes for a structure with these (name, value) members -/
def structMV (fields : List (List Nat × MV)) : MV := .map (members fields)

/-- the derived visitor's lookup: the value stored under a member name (first occurrence; the derive refuses a repeated name) -/
def field (k : List Nat) : List MV → Option MV
  | .str k' :: v :: rest => if k' = k then some v else field k rest
  | _ :: _ :: rest => field k rest
  | _ => none

/-! ## the typed layer, shallow: which payload structure a decoded map can be read as -/

/-- an ASCII member name as bytes -/
def key (s : String) : List Nat := s.toList.map Char.toNat

/-- every name of the list is a member -/
def hasKeys (ks : List (List Nat)) (kvs : List MV) : Bool := ks.all (fun k => (field k kvs).isSome)

/-- the payload structure whose required members the map has (`CredentialSignatureProofValue`,
`CredentialPresentationProofValue`, `PresentationProofValue`; optional members and unknown ones do not matter: the derive
ignores unknown members and defaults `Option`s). That each required member itself reads as its CL-crate type is given. -/
def payloadKind : MV → Option Nat
  | .map kvs =>
    if hasKeys [key "schema_id", key "cred_def_id", key "signature", key "signature_correctness_proof"] kvs then some 1
    else if hasKeys [key "schema_id", key "cred_def_id", key "sub_proof"] kvs then some 2
    else if hasKeys [key "aggregated"] kvs then some 3
    else none
  | _ => none

/-- what the hand-written visitor of the tagged sequence can tell apart in one decoded element (`WirePv.Item`) -/
def itemOf : MV → WirePv.Item
  | .int n => if -(2147483648 : Int) ≤ n ∧ n ≤ 2147483647 then .int n else .other
  | v => match payloadKind v with
    | some k => .payload k
    | none => .other

/-- `DataIntegrityProofValue::deserialize` on the bytes of a proof value: `deserialize_seq` needs a sequence, then the visitor
of `WirePv` decides on the elements -/
def readTyped (bs : List Nat) : Option Nat :=
  match decode bs with
  | some (.arr xs) => WirePv.de (xs.map itemOf)
  | _ => none

/-- the value read from the bytes of a proof value -/
def readTagged (bs : List Nat) : Option (Nat × MV) := (decode bs).bind untag

end AnonModel.Msgpack

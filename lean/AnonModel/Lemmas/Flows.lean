import AnonModel.Model.Issuance
import AnonModel.Model.Convert
import AnonModel.Model.Wire
import AnonModel.Lemmas.Encode
import AnonModel.Lemmas.VerifierLegacy
/-!
Helper lemmas for `Props/C11.lean` (issuance), `Props/C14.lean` (conversion) and `Props/C15.lean`
(hand-written codecs).

Contents:
* `mapM` in `Option` as a statement about `map` (`mapM_eq_some_iff`, `mapM_eq_none_iff`);
* decimal printing of naturals gives a non-empty run of ASCII digits (`natRepr_*`);
* big-endian value of a byte list, written positionally (`beVal`) and as the left fold the code uses;
* association lists: `lookup` through a map on the values side, `sameAttrs` as a statement about
  `lookup`.
-/
namespace AnonModel.Flows

/-! ### `mapM` in `Option` -/

/-- `mapM` succeeds with `ys` iff applying `f` member by member gives exactly `ys`, all `some` -/
theorem mapM_eq_some_iff {α β : Type} (f : α → Option β) (xs : List α) (ys : List β) :
    xs.mapM f = some ys ↔ xs.map f = ys.map some := by
  induction xs generalizing ys with
  | nil => cases ys <;> simp
  | cons x xs ih =>
    rw [List.mapM_cons]
    cases ys with
    | nil => cases f x <;> cases xs.mapM f <;> simp
    | cons y ys =>
      simp only [List.map_cons, List.cons.injEq]
      rw [← ih]
      cases f x <;> cases xs.mapM f <;> simp

/-- `mapM` fails iff `f` fails on some member -/
theorem mapM_eq_none_iff {α β : Type} (f : α → Option β) (xs : List α) :
    xs.mapM f = none ↔ ∃ x ∈ xs, f x = none := by
  induction xs with
  | nil => simp
  | cons x xs ih =>
    rw [List.mapM_cons]
    cases hx : f x with
    | none => simp [hx]
    | some y =>
      cases hxs : xs.mapM f with
      | none =>
        obtain ⟨z, hz, hfz⟩ := ih.mp hxs
        simp only [Option.bind_eq_bind, Option.bind_some, Option.bind_none, List.mem_cons, true_iff]
        exact ⟨z, Or.inr hz, hfz⟩
      | some zs =>
        have : ¬ ∃ x ∈ xs, f x = none := fun h => by simp [ih.mpr h] at hxs
        simp only [Option.bind_eq_bind, Option.bind_some, pure, List.mem_cons, reduceCtorEq, false_iff]
        rintro ⟨z, rfl | hz, hfz⟩
        · simp [hx] at hfz
        · exact this ⟨z, hz, hfz⟩

/-! ### decimal printing -/

theorem natRepr_allDigits (m : Nat) : ∀ c ∈ (Nat.repr m).toList, c.isDigit = true := by
  rw [Nat.toList_repr]
  intro c hc
  exact Nat.isDigit_of_mem_toDigits (by decide) (by decide) hc

theorem natRepr_ne_empty (m : Nat) : Nat.repr m ≠ "" := by
  intro h
  have := congrArg String.toList h
  rw [Nat.toList_repr] at this
  exact Nat.toDigits_ne_nil this

/-! ### big-endian value -/

/-- positional big-endian value: the first byte is the most significant -/
def beVal : List Nat → Nat
  | [] => 0
  | b :: bs => b * 256 ^ bs.length + beVal bs

theorem foldl_be (bs : List Nat) (acc : Nat) :
    bs.foldl (fun a b => a * 256 + b) acc = acc * 256 ^ bs.length + beVal bs := by
  induction bs generalizing acc with
  | nil => simp [beVal]
  | cons b bs ih =>
    simp only [List.foldl_cons, ih, beVal, List.length_cons, Nat.pow_succ, Nat.add_mul]
    have : acc * 256 * 256 ^ bs.length = acc * (256 ^ bs.length * 256) := by
      rw [Nat.mul_assoc, Nat.mul_comm 256]
    omega

theorem foldl_be_zero (bs : List Nat) : bs.foldl (fun a b => a * 256 + b) 0 = beVal bs := by
  simpa using foldl_be bs 0

/-! ### lists -/

/-- zipping a list with its own image pairs every member with its image -/
theorem zip_map_self {α β : Type} (g : α → β) (l : List α) : ∀ p ∈ l.zip (l.map g), p.2 = g p.1 := by
  induction l with
  | nil => simp
  | cons x xs ih =>
    intro p hp
    simp only [List.map_cons, List.zip_cons_cons, List.mem_cons] at hp
    rcases hp with rfl | hp
    · rfl
    · exact ih p hp

/-! ### conversion (`Model/Convert.lean`) -/
section Convert
open AnonModel.Convert AnonModel.VerifierW3C AnonModel.Encode

/-- what `CredentialSubject::encode` makes of one string / number entry -/
def encEntry (nv : String × SubjVal) : String × (String × String) :=
  (nv.1, (nv.2.toStr, encode nv.2.toStr))

/-- one step of `CredentialSubject::encode` -/
def encOne (nv : String × SubjVal) : Option (String × (String × String)) :=
  match nv.2 with
  | .str s => some (nv.1, (s, encode s))
  | .num k => some (nv.1, (intToDec k, encode (intToDec k)))
  | .bool _ => none

theorem subjectEncode_def (subj : Subject) : subjectEncode subj = subj.mapM encOne := rfl

theorem encOne_of_not_bool {nv : String × SubjVal} (h : ∀ b, nv.2 ≠ .bool b) :
    encOne nv = some (encEntry nv) := by
  obtain ⟨n, v⟩ := nv
  cases v with
  | str s => rfl
  | num k => rfl
  | bool b => exact absurd rfl (h b)

theorem encOne_eq_none_iff {nv : String × SubjVal} : encOne nv = none ↔ ∃ b, nv.2 = .bool b := by
  obtain ⟨n, v⟩ := nv
  cases v <;> simp [encOne]

/-- `CredentialSubject::encode` succeeds iff no entry is a boolean, and then every entry is
(printed form, encoding of the printed form) -/
theorem subjectEncode_eq_some_iff (subj : Subject) (values : Values) :
    subjectEncode subj = some values ↔
      (∀ nv ∈ subj, ∀ b, nv.2 ≠ .bool b) ∧ values = subj.map encEntry := by
  rw [subjectEncode_def]
  constructor
  · intro h
    have hnb : ∀ nv ∈ subj, ∀ b, nv.2 ≠ .bool b := by
      intro nv hnv b hb
      have : subj.mapM encOne = none :=
        (mapM_eq_none_iff _ _).mpr ⟨nv, hnv, encOne_eq_none_iff.mpr ⟨b, hb⟩⟩
      rw [h] at this; cases this
    refine ⟨hnb, ?_⟩
    rw [mapM_eq_some_iff] at h
    have h2 : (subj.map encEntry).map some = values.map some := by
      rw [← h, List.map_map]
      apply List.map_congr_left
      intro nv hnv
      exact (encOne_of_not_bool (hnb nv hnv)).symm
    exact ((List.map_inj_right (fun _ _ h => Option.some.inj h)).mp h2).symm
  · rintro ⟨hnb, rfl⟩
    rw [mapM_eq_some_iff, List.map_map]
    apply List.map_congr_left
    intro nv hnv
    exact encOne_of_not_bool (hnb nv hnv)

theorem subjectEncode_eq_none_iff (subj : Subject) :
    subjectEncode subj = none ↔ ∃ nv ∈ subj, ∃ b, nv.2 = .bool b := by
  rw [subjectEncode_def, mapM_eq_none_iff]
  constructor
  · rintro ⟨nv, hnv, h⟩; exact ⟨nv, hnv, encOne_eq_none_iff.mp h⟩
  · rintro ⟨nv, hnv, h⟩; exact ⟨nv, hnv, encOne_eq_none_iff.mpr h⟩

/-- how `CredentialSubject::from` re-reads a printed value -/
def reparse (s : String) : SubjVal :=
  match parseI32 s.toList with
  | some k => .num k
  | none => .str s

theorem toSubject_eq (values : Values) : toSubject values = values.map (fun nv => (nv.1, reparse nv.2.1)) := rfl

/-- the printed form of a re-read raw value is its normalised form -/
theorem toStr_reparse (s : String) : (reparse s).toStr = normalizeEnc s := by
  unfold reparse normalizeEnc
  cases parseI32 s.toList <;> rfl

theorem reparse_ne_bool (s : String) (b : Bool) : reparse s ≠ .bool b := by
  unfold reparse; cases parseI32 s.toList <;> simp

/-- legacy → W3C → legacy, computed: names kept in order, raw normalised, encoded recomputed -/
theorem subjectEncode_toSubject (values : Values) :
    subjectEncode (toSubject values) =
      some (values.map (fun nv => (nv.1, (normalizeEnc nv.2.1, encode (normalizeEnc nv.2.1))))) := by
  rw [subjectEncode_eq_some_iff, toSubject_eq]
  refine ⟨?_, ?_⟩
  · intro nv hnv b
    obtain ⟨x, _, rfl⟩ := List.mem_map.mp hnv
    exact reparse_ne_bool _ _
  · rw [List.map_map]
    apply List.map_congr_left
    intro nv _
    simp only [Function.comp, encEntry, toStr_reparse]

end Convert

/-! ### issuance (`Model/Issuance.lean`) -/
section Issuance
open AnonModel.Issuance AnonModel.Verifier

/-- no key with two different values -/
def Functional (a : List (String × String)) : Prop :=
  ∀ k v v', (k, v) ∈ a → (k, v') ∈ a → v = v'

theorem functional_of_nodup_keys {a : List (String × String)} (h : (a.map Prod.fst).Nodup) :
    Functional a := by
  intro k v v' h1 h2
  have e1 := lookup_of_mem_nodup (m := a) (by simpa [keys] using h) h1
  have e2 := lookup_of_mem_nodup (m := a) (by simpa [keys] using h) h2
  rw [e1] at e2; exact Option.some.inj e2

theorem lookup_of_mem_functional {a : List (String × String)} (hf : Functional a) {k v : String}
    (h : (k, v) ∈ a) : a.lookup k = some v := by
  obtain ⟨v', hv'⟩ := lookup_of_mem_keys (m := a) (mem_keys.mpr ⟨v, h⟩)
  rw [hv', hf k v v' h (mem_of_lookup hv')]

theorem sameAttrs_iff_lookup (a b : List (String × String)) :
    sameAttrs a b = true ↔
      (∀ kv ∈ a, b.lookup kv.1 = some kv.2) ∧ (∀ kv ∈ b, a.lookup kv.1 = some kv.2) := by
  simp [sameAttrs, List.all_eq_true]

/-- `sameAttrs` says: the two lists have the same entries, and no key has two values -/
theorem sameAttrs_iff (a b : List (String × String)) :
    sameAttrs a b = true ↔ (∀ kv, kv ∈ a ↔ kv ∈ b) ∧ Functional a := by
  rw [sameAttrs_iff_lookup]
  constructor
  · rintro ⟨h1, h2⟩
    have hab : ∀ kv, kv ∈ a → kv ∈ b := fun kv h => mem_of_lookup (h1 kv h)
    have hba : ∀ kv, kv ∈ b → kv ∈ a := fun kv h => mem_of_lookup (h2 kv h)
    refine ⟨fun kv => ⟨hab kv, hba kv⟩, ?_⟩
    intro k v v' hv hv'
    have e1 := h1 _ hv
    have e2 := h1 _ hv'
    simp only at e1 e2
    rw [e1] at e2; exact Option.some.inj e2
  · rintro ⟨hs, hf⟩
    have hfb : Functional b := fun k v v' h1 h2 => hf k v v' ((hs _).mpr h1) ((hs _).mpr h2)
    exact ⟨fun kv h => lookup_of_mem_functional hfb ((hs kv).mp h),
      fun kv h => lookup_of_mem_functional hf ((hs kv).mpr h)⟩

theorem normAttrs_keys (values : List (String × String)) :
    (normAttrs values).map Prod.fst = values.map (fun nv => Names.commonView nv.1) := by
  simp [normAttrs, List.map_map, Function.comp_def]

theorem mem_normAttrs {values : List (String × String)} {kv : String × String} :
    kv ∈ normAttrs values ↔ ∃ nv ∈ values, kv = (Names.commonView nv.1, nv.2) := by
  simp only [normAttrs, List.mem_map]
  constructor
  · rintro ⟨nv, h, rfl⟩; exact ⟨nv, h, rfl⟩
  · rintro ⟨nv, h, rfl⟩; exact ⟨nv, h, rfl⟩

end Issuance

end AnonModel.Flows

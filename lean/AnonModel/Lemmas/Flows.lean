import AnonModel.Model.Issuance
import AnonModel.Model.Convert
import AnonModel.Model.Wire
import AnonModel.Lemmas.Encode
import AnonModel.Lemmas.VerifierLegacy
/-!
Helper lemmas for `Props/C11.lean` (issuance), `Props/C14.lean` (conversion) and `Props/C15.lean`
(hand-written codecs).

Contents:
* `mapM` in `Option` as a statement about `map` (`mapM_eq_some_iff`, `mapM_eq_none_iff`);
* decimal printing of naturals gives a non-empty run of ASCII digits (`natRepr_*`);
* big-endian value of a byte list, written positionally (`beVal`) and as the left fold the code uses;
* association lists: `lookup` through a map on the values side, `sameAttrs` as a statement about
  `lookup`.
-/
namespace AnonModel.Flows

/-! ### `mapM` in `Option` -/

/-- `mapM` succeeds with `ys` iff applying `f` member by member gives exactly `ys`, all `some` -/
theorem mapM_eq_some_iff {α β : Type} (f : α → Option β) (xs : List α) (ys : List β) :
    xs.mapM f = some ys ↔ xs.map f = ys.map some := by
  induction xs generalizing ys with
  | nil => cases ys <;> simp
  | cons x xs ih =>
    rw [List.mapM_cons]
    cases ys with
    | nil => cases f x <;> cases xs.mapM f <;> simp
    | cons y ys =>
      simp only [List.map_cons, List.cons.injEq]
      rw [← ih]
      cases f x <;> cases xs.mapM f <;> simp

/-- `mapM` fails iff `f` fails on some member -/
theorem mapM_eq_none_iff {α β : Type} (f : α → Option β) (xs : List α) :
    xs.mapM f = none ↔ ∃ x ∈ xs, f x = none := by
  induction xs with
  | nil => simp
  | cons x xs ih =>
    rw [List.mapM_cons]
    cases hx : f x with
    | none => simp [hx]
    | some y =>
      cases hxs : xs.mapM f with
      | none =>
        obtain ⟨z, hz, hfz⟩ := ih.mp hxs
        simp only [Option.bind_eq_bind, Option.bind_some, Option.bind_none, List.mem_cons, true_iff]
        exact ⟨z, Or.inr hz, hfz⟩
      | some zs =>
        have : ¬ ∃ x ∈ xs, f x = none := fun h => by simp [ih.mpr h] at hxs
        simp only [Option.bind_eq_bind, Option.bind_some, pure, List.mem_cons, reduceCtorEq, false_iff]
        rintro ⟨z, rfl | hz, hfz⟩
        · simp [hx] at hfz
        · exact this ⟨z, hz, hfz⟩

/-! ### decimal printing -/

theorem natRepr_allDigits (m : Nat) : ∀ c ∈ (Nat.repr m).toList, c.isDigit = true := by
  rw [Nat.toList_repr]
  intro c hc
  exact Nat.isDigit_of_mem_toDigits (by decide) (by decide) hc

theorem natRepr_ne_empty (m : Nat) : Nat.repr m ≠ "" := by
  intro h
  have := congrArg String.toList h
  rw [Nat.toList_repr] at this
  exact Nat.toDigits_ne_nil this

/-! ### big-endian value -/

/-- positional big-endian value: the first byte is the most significant -/
def beVal : List Nat → Nat
  | [] => 0
  | b :: bs => b * 256 ^ bs.length + beVal bs

theorem foldl_be (bs : List Nat) (acc : Nat) :
    bs.foldl (fun a b => a * 256 + b) acc = acc * 256 ^ bs.length + beVal bs := by
  induction bs generalizing acc with
  | nil => simp [beVal]
  | cons b bs ih =>
    simp only [List.foldl_cons, ih, beVal, List.length_cons, Nat.pow_succ, Nat.add_mul]
    have : acc * 256 * 256 ^ bs.length = acc * (256 ^ bs.length * 256) := by
      rw [Nat.mul_assoc, Nat.mul_comm 256]
    omega

theorem foldl_be_zero (bs : List Nat) : bs.foldl (fun a b => a * 256 + b) 0 = beVal bs := by
  simpa using foldl_be bs 0

end AnonModel.Flows

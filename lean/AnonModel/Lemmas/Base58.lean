import AnonModel.Model.Tails
/-!
# base58: the digits written are the number the bytes spell, in canonical form

Helper lemmas for `C19_name_injective`: the little-endian base-58 digit list kept by `bs58::encode` has the value of the
big-endian byte string fed so far and never ends in a zero digit.
-/
namespace AnonModel.Tails

/-- value of little-endian base-58 digits -/
def dval : List (Fin 58) → Nat
  | [] => 0
  | d :: ds => d.val + 58 * dval ds

/-- value of a big-endian byte string -/
def bval (bs : List UInt8) : Nat := bs.foldl (fun a b => a * 256 + b.toNat) 0

theorem dval_append (a b : List (Fin 58)) : dval (a ++ b) = dval a + 58 ^ a.length * dval b := by
  induction a with
  | nil => simp [dval]
  | cons d ds ih =>
    simp only [List.cons_append, dval, ih, List.length_cons, Nat.pow_succ]
    rw [Nat.mul_add, ← Nat.mul_assoc, Nat.mul_comm 58 (58 ^ ds.length)]
    omega

theorem mulAdd_length (ds : List (Fin 58)) (c : Nat) : (mulAdd ds c).1.length = ds.length := by
  induction ds generalizing c with
  | nil => rfl
  | cons d ds ih => simp [mulAdd, ih]

theorem mulAdd_val (ds : List (Fin 58)) (c : Nat) :
    dval (mulAdd ds c).1 + 58 ^ ds.length * (mulAdd ds c).2 = c + 256 * dval ds := by
  induction ds generalizing c with
  | nil => simp [mulAdd, dval]
  | cons d ds ih =>
    simp only [mulAdd, dval, List.length_cons, Nat.pow_succ]
    have h1 := ih ((c + d.val * 256) / 58)
    have hdm := Nat.div_add_mod (c + d.val * 256) 58
    generalize (mulAdd ds ((c + d.val * 256) / 58)).1 = r1 at *
    generalize (mulAdd ds ((c + d.val * 256) / 58)).2 = r2 at *
    generalize 58 ^ ds.length = P at *
    generalize (c + d.val * 256) / 58 = q at *
    generalize (c + d.val * 256) % 58 = m at *
    generalize dval r1 = R at *
    generalize dval ds = D at *
    have e : P * 58 * r2 = 58 * (P * r2) := by rw [Nat.mul_comm P 58, Nat.mul_assoc]
    rw [e]
    omega

theorem pushCarry_val (c : Nat) : dval (pushCarry c) = c := by
  induction c using Nat.strongRecOn with
  | _ c ih =>
    unfold pushCarry
    split
    · next h => subst h; rfl
    · next h =>
      simp only [dval]
      rw [ih (c / 58) (by omega)]
      omega

/-- no zero digit at the most significant end -/
def Canon (ds : List (Fin 58)) : Prop := ∀ d, ds.getLast? = some d → d.val ≠ 0

theorem pushCarry_canon (c : Nat) : Canon (pushCarry c) := by
  induction c using Nat.strongRecOn with
  | _ c ih =>
    unfold pushCarry
    split
    · intro d hd; simp at hd
    · next h =>
      intro d hd
      by_cases hq : c / 58 = 0
      · have : pushCarry (c / 58) = [] := by rw [hq]; unfold pushCarry; simp
        rw [this] at hd
        simp at hd
        subst hd
        simp only
        omega
      · have hne : pushCarry (c / 58) ≠ [] := by unfold pushCarry; simp [hq]
        rw [List.getLast?_cons_of_ne_nil hne] at hd
        exact ih (c / 58) (by omega) d hd

theorem pushCarry_eq_nil {c : Nat} (h : pushCarry c = []) : c = 0 := by
  unfold pushCarry at h
  split at h
  · assumption
  · cases h

theorem feedByte_val (ds : List (Fin 58)) (b : UInt8) : dval (feedByte ds b) = 256 * dval ds + b.toNat := by
  simp only [feedByte, dval_append, pushCarry_val, mulAdd_length]
  have := mulAdd_val ds b.toNat
  omega

theorem digits_val (bs : List UInt8) (ds : List (Fin 58)) :
    dval (bs.foldl feedByte ds) = bs.foldl (fun a b => a * 256 + b.toNat) (dval ds) := by
  induction bs generalizing ds with
  | nil => rfl
  | cons b bs ih =>
    simp only [List.foldl_cons]
    rw [ih, feedByte_val]
    congr 1
    omega

theorem digits_bval (bs : List UInt8) : dval (bs.foldl feedByte []) = bval bs := digits_val bs []

/-! ### big-endian value of equally long byte strings -/

theorem foldl_bval (bs : List UInt8) (acc : Nat) :
    bs.foldl (fun a b => a * 256 + b.toNat) acc = acc * 256 ^ bs.length + bval bs := by
  induction bs generalizing acc with
  | nil => simp [bval]
  | cons b bs ih =>
    simp only [List.foldl_cons, List.length_cons, bval]
    rw [ih, ih (0 * 256 + b.toNat), Nat.pow_succ, Nat.add_mul, Nat.add_mul, Nat.mul_assoc, Nat.mul_comm 256]
    omega

theorem bval_lt (bs : List UInt8) : bval bs < 256 ^ bs.length := by
  induction bs with
  | nil => simp [bval]
  | cons b bs ih =>
    have hb : b.toNat < 256 := UInt8.toNat_lt b
    simp only [bval, List.foldl_cons, List.length_cons] at *
    rw [foldl_bval]
    simp only [bval] at ih ⊢
    rw [Nat.pow_succ]
    have : (0 * 256 + b.toNat) * 256 ^ bs.length ≤ 255 * 256 ^ bs.length := Nat.mul_le_mul_right _ (by omega)
    omega

theorem bval_cons (b : UInt8) (bs : List UInt8) : bval (b :: bs) = b.toNat * 256 ^ bs.length + bval bs := by
  simp only [bval, List.foldl_cons]
  rw [foldl_bval]
  simp [bval]

theorem bval_injective : ∀ (a b : List UInt8), a.length = b.length → bval a = bval b → a = b
  | [], [], _, _ => rfl
  | [], _ :: _, hl, _ => by simp at hl
  | _ :: _, [], hl, _ => by simp at hl
  | x :: a, y :: b, hl, h => by
    have hl' : a.length = b.length := by simpa using hl
    rw [bval_cons, bval_cons, hl'] at h
    have ha := bval_lt a
    have hb := bval_lt b
    rw [hl'] at ha
    have hP : 0 < 256 ^ b.length := Nat.pow_pos (by decide)
    have hx : x.toNat = y.toNat := by
      have e1 : (x.toNat * 256 ^ b.length + bval a) / 256 ^ b.length = x.toNat := by
        rw [Nat.add_comm, Nat.add_mul_div_right _ _ hP, Nat.div_eq_of_lt ha, Nat.zero_add]
      have e2 : (y.toNat * 256 ^ b.length + bval b) / 256 ^ b.length = y.toNat := by
        rw [Nat.add_comm, Nat.add_mul_div_right _ _ hP, Nat.div_eq_of_lt hb, Nat.zero_add]
      rw [← e1, ← e2, h]
    have hxy : x = y := UInt8.toNat_inj.mp hx
    subst hxy
    have : bval a = bval b := by omega
    rw [bval_injective a b hl' this]

/-! ### the digit-to-symbol map -/

theorem dval_zeros (n : Nat) : dval (List.replicate n (0 : Fin 58)) = 0 := by
  induction n with
  | zero => rfl
  | succ n ih => simp [List.replicate_succ, dval, ih]

theorem alphabet_nodup : alphabet.Nodup := by decide

theorem symbol_injective (d e : Fin 58)
    (h : alphabet[d.val]'(by rw [alphabet_length]; exact d.isLt) = alphabet[e.val]'(by rw [alphabet_length]; exact e.isLt)) : d = e := by
  have := (List.getElem_inj alphabet_nodup).mp h
  exact Fin.ext this

/-! ### canonical digit lists, and bytes without leading zeros (for injectivity without a length condition) -/


theorem dval_lt (ds : List (Fin 58)) : dval ds < 58 ^ ds.length := by
  induction ds with
  | nil => simp [dval]
  | cons d ds ih =>
    simp only [dval, List.length_cons, Nat.pow_succ]
    have := d.isLt
    omega

/-- same length and same value: the same digits -/
theorem dval_inj_len : ∀ (a b : List (Fin 58)), a.length = b.length → dval a = dval b → a = b
  | [], [], _, _ => rfl
  | [], _ :: _, h, _ => by simp at h
  | _ :: _, [], h, _ => by simp at h
  | x :: a, y :: b, hl, h => by
    simp only [dval] at h
    have hx := x.isLt
    have hy := y.isLt
    have e : x = y := Fin.ext (by omega)
    subst e
    rw [dval_inj_len a b (by simpa using hl) (by omega)]

/-- a canonical non-empty digit list is at least 58^(length-1) -/
theorem canon_lower : ∀ (ds : List (Fin 58)), Canon ds → ds ≠ [] → 58 ^ (ds.length - 1) ≤ dval ds
  | [], _, h => absurd rfl h
  | [d], hc, _ => by
    have := hc d (by simp)
    simp [dval]; omega
  | d :: e :: r, hc, _ => by
    have hc' : Canon (e :: r) := by
      intro x hx
      exact hc x (by rw [List.getLast?_cons_cons]; exact hx)
    have ih := canon_lower (e :: r) hc' (by simp)
    simp only [dval, List.length_cons] at ih ⊢
    have : 58 ^ (r.length + 1 + 1 - 1) = 58 * 58 ^ (r.length + 1 - 1) := by
      have : r.length + 1 + 1 - 1 = (r.length + 1 - 1) + 1 := by omega
      rw [this, Nat.pow_succ, Nat.mul_comm]
    rw [this]
    omega

theorem canon_inj (a b : List (Fin 58)) (ha : Canon a) (hb : Canon b) (h : dval a = dval b) : a = b := by
  have key : ∀ (a b : List (Fin 58)), Canon a → Canon b → dval a = dval b → ¬ a.length < b.length := by
    intro a b _ hb h hlt
    have hbne : b ≠ [] := by intro e; subst e; simp at hlt
    have h1 := dval_lt a
    have h2 := canon_lower b hb hbne
    have h3 : 58 ^ a.length ≤ 58 ^ (b.length - 1) := Nat.pow_le_pow_right (by decide) (by omega)
    omega
  have h1 := key a b ha hb h
  have h2 := key b a hb ha h.symm
  exact dval_inj_len a b (by omega) h

theorem canon_nil : Canon [] := by intro d hd; simp at hd

theorem feedByte_canon (ds : List (Fin 58)) (b : UInt8) (hc : Canon ds) : Canon (feedByte ds b) := by
  simp only [feedByte]
  by_cases hp : pushCarry (mulAdd ds b.toNat).2 = []
  · have h0 := pushCarry_eq_nil hp
    rw [hp, List.append_nil]
    by_cases hds : ds = []
    · subst hds; simp only [mulAdd]; exact canon_nil
    · exfalso
      have hv := mulAdd_val ds b.toNat
      rw [h0, Nat.mul_zero, Nat.add_zero] at hv
      have h1 := dval_lt (mulAdd ds b.toNat).1
      rw [mulAdd_length] at h1
      have h2 := canon_lower ds hc hds
      have hlen : 0 < ds.length := List.length_pos_iff.mpr hds
      have h3 : 58 ^ ds.length = 58 * 58 ^ (ds.length - 1) := by
        have : ds.length = (ds.length - 1) + 1 := by omega
        rw [this, Nat.pow_succ, Nat.mul_comm]; simp
      omega
  · intro d hd
    rw [List.getLast?_append, List.getLast?_eq_some_getLast hp] at hd
    try simp only [Option.or_some] at hd
    try simp only [Option.some_or] at hd
    exact pushCarry_canon _ d (by rw [List.getLast?_eq_some_getLast hp]; exact hd)

theorem digits_canon (bs : List UInt8) : ∀ ds, Canon ds → Canon (bs.foldl feedByte ds) := by
  induction bs with
  | nil => intro ds h; exact h
  | cons b bs ih => intro ds h; exact ih _ (feedByte_canon ds b h)

/-! ### bytes: leading zeros and the rest -/

theorem bval_zero_cons (r : List UInt8) : bval (0 :: r) = bval r := by
  simp [bval]

/-- no leading zero byte -/
def NoLead : List UInt8 → Prop
  | [] => True
  | x :: _ => x ≠ 0

theorem nolead_lower : ∀ (r : List UInt8), NoLead r → r ≠ [] → 256 ^ (r.length - 1) ≤ bval r
  | [], _, h => absurd rfl h
  | x :: xs, hn, _ => by
    rw [bval_cons]
    have hx : 1 ≤ x.toNat := by
      have : x.toNat ≠ 0 := fun e => hn (UInt8.toNat_inj.mp (by simpa using e))
      omega
    simp only [List.length_cons, Nat.add_sub_cancel]
    have : 1 * 256 ^ xs.length ≤ x.toNat * 256 ^ xs.length := Nat.mul_le_mul_right _ hx
    omega

theorem nolead_inj (a b : List UInt8) (ha : NoLead a) (hb : NoLead b) (h : bval a = bval b) : a = b := by
  have key : ∀ (a b : List UInt8), NoLead b → bval a = bval b → ¬ a.length < b.length := by
    intro a b hb h hlt
    have hbne : b ≠ [] := by intro e; subst e; simp at hlt
    have h1 := bval_lt a
    have h2 := nolead_lower b hb hbne
    have h3 : 256 ^ a.length ≤ 256 ^ (b.length - 1) := Nat.pow_le_pow_right (by decide) (by omega)
    omega
  have h1 := key a b hb h
  have h2 := key b a ha h.symm
  exact bval_injective a b (by omega) h

/-- a byte string is its leading zeros followed by a string without a leading zero of the same value -/
theorem split_zeros : ∀ (a : List UInt8), ∃ r, a = List.replicate (a.takeWhile (· == 0)).length 0 ++ r ∧ NoLead r ∧ bval a = bval r
  | [] => ⟨[], by simp, trivial, rfl⟩
  | x :: xs => by
    by_cases hx : x = 0
    · subst hx
      obtain ⟨r, h1, h2, h3⟩ := split_zeros xs
      refine ⟨r, ?_, h2, ?_⟩
      · simp only [List.takeWhile_cons, beq_self_eq_true, ite_true, List.length_cons, List.replicate_succ, List.cons_append]
        rw [← h1]
      · rw [bval_zero_cons, h3]
    · refine ⟨x :: xs, ?_, hx, rfl⟩
      have : (x == 0) = false := by simpa using hx
      simp [this]

end AnonModel.Tails

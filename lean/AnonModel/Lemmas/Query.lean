import AnonModel.Model.Query
/-!
# Helper lemmas for C16 (restriction syntax) and C06 (restriction evaluation)

* the mutual list helpers of the model are `map`/`all`/`any`/`flatMap`;
* `Query.induct`: induction on queries with `∀ q ∈ l` hypotheses;
* `Good`: an invariant of everything `parseRestriction` returns, on which
  `parseRestriction ∘ print` is the identity;
* one-step success characterisations of the parser functions (`…_isSome_iff`);
* `internalTagName` ↔ the shape `attr::<name>::(value|marker)`; `processFilter` ↔ `LeafSat`.
-/
namespace AnonModel.Query
open AnonModel.Json

/-! ## list helpers of the mutual blocks -/

theorem printList_eq_map (l : List Query) : printList l = l.map print := by
  induction l with
  | nil => simp [printList]
  | cons q r ih => simp [printList, ih]

theorem namesList_eq (l : List Query) : namesList l = l.flatMap names := by
  induction l with
  | nil => simp [namesList]
  | cons q r ih => simp [namesList, ih]

section
variable (ld : String → Bool) (vals : List (String × Option String)) (f : Filter)

theorem evalAll_eq (l : List Query) : evalAll ld vals f l = l.all (eval ld vals f) := by
  induction l with
  | nil => simp [evalAll]
  | cons q r ih => simp [evalAll, ih]

theorem evalAny_eq (l : List Query) : evalAny ld vals f l = l.any (eval ld vals f) := by
  induction l with
  | nil => simp [evalAny]
  | cons q r ih => simp [evalAny, ih]

theorem validateAll_eq (isUri : String → Bool) (v1 : Bool) (l : List Query) :
    validateAll isUri v1 l = l.all (validateQuery isUri v1) := by
  induction l with
  | nil => simp [validateAll]
  | cons q r ih => simp [validateAll, ih]

end

/-- structural induction on queries with the list cases as `∀ q ∈ l` hypotheses -/
theorem Query.induct {P : Query → Prop}
    (and : ∀ l, (∀ q ∈ l, P q) → P (.and l))
    (or : ∀ l, (∀ q ∈ l, P q) → P (.or l))
    (not : ∀ q, P q → P (.not q))
    (eq : ∀ k v, P (.eq k v)) (neq : ∀ k v, P (.neq k v))
    (gt : ∀ k v, P (.gt k v)) (gte : ∀ k v, P (.gte k v))
    (lt : ∀ k v, P (.lt k v)) (lte : ∀ k v, P (.lte k v))
    (like : ∀ k v, P (.like k v)) (isIn : ∀ k vs, P (.isIn k vs))
    (exist : ∀ ks, P (.exist ks)) : ∀ q, P q := by
  intro q
  exact Query.rec (motive_1 := P) (motive_2 := fun l => ∀ q ∈ l, P q)
    and or not eq neq gt gte lt lte like isIn exist
    (by simp) (fun q r hq hr => by simpa using ⟨hq, hr⟩) q

/-! ## the parser invariant `Good` -/

/-- keys with a meaning of their own in `parse_operator` -/
def reserved : List String := ["$and", "$or", "$not", "$exist"]

theorem not_reserved_iff {k : String} :
    k ∉ reserved ↔ k ≠ "$and" ∧ k ≠ "$or" ∧ k ≠ "$not" ∧ k ≠ "$exist" := by
  simp [reserved]

mutual
/-- an invariant of every query the parser returns (a superset of its image, chosen so
that `parseRestriction (print q) = some q` holds on it): `Or` and `Exist` lists are never
empty, and no leaf has one of the four reserved keys as its tag. `And` lists of any
length (empty, singleton) are fine. -/
def Good : Query → Prop
  | .and l => GoodL l
  | .or l => l ≠ [] ∧ GoodL l
  | .not q => Good q
  | .eq k _ => k ∉ reserved
  | .neq k _ => k ∉ reserved
  | .gt k _ => k ∉ reserved
  | .gte k _ => k ∉ reserved
  | .lt k _ => k ∉ reserved
  | .lte k _ => k ∉ reserved
  | .like k _ => k ∉ reserved
  | .isIn k _ => k ∉ reserved
  | .exist ks => ks ≠ []
/-- `Good` for every member -/
def GoodL : List Query → Prop
  | [] => True
  | q :: r => Good q ∧ GoodL r
end

theorem goodL_iff (l : List Query) : GoodL l ↔ ∀ q ∈ l, Good q := by
  induction l with
  | nil => simp [GoodL]
  | cons q r ih => simp [GoodL, ih]

theorem good_finish {ops : List Query} (h : GoodL ops) : Good (finish ops) := by
  unfold finish
  split
  · simp [GoodL] at h; exact h
  · simpa [Good] using h

theorem parseListOperators_length : ∀ (vs : List Json) (l : List Query),
    parseListOperators vs = some l → l.length = vs.length
  | [], l, h => by simp [parseListOperators] at h; simp [← h]
  | .obj m :: r, l, h => by
    simp only [parseListOperators] at h
    split at h
    · simp at h
    · split at h
      · simp at h
      · rename_i qs hq
        simp at h
        have := parseListOperators_length r qs hq
        simp [← h, this]
  | .null :: r, l, h => by simp [parseListOperators] at h
  | .bool _ :: r, l, h => by simp [parseListOperators] at h
  | .num _ :: r, l, h => by simp [parseListOperators] at h
  | .str _ :: r, l, h => by simp [parseListOperators] at h
  | .arr _ :: r, l, h => by simp [parseListOperators] at h

theorem strList?_length : ∀ (vs : List Json) (l : List String),
    strList? vs = some l → l.length = vs.length
  | [], l, h => by simp [strList?] at h; simp [← h]
  | .str s :: r, l, h => by
    simp only [strList?] at h
    split at h
    · rename_i l' hl'
      simp at h
      simp [← h, strList?_length r l' hl']
    · simp at h
  | .null :: r, l, h => by simp [strList?] at h
  | .bool _ :: r, l, h => by simp [strList?] at h
  | .num _ :: r, l, h => by simp [strList?] at h
  | .arr _ :: r, l, h => by simp [strList?] at h
  | .obj _ :: r, l, h => by simp [strList?] at h

theorem parseSingleOperator_good {op key : String} {x : Json} {q : Query}
    (hk : key ∉ reserved) (h : parseSingleOperator op key x = some q) : Good q := by
  unfold parseSingleOperator at h
  repeat' split at h
  all_goals first | (simp at h; done) | (simp at h; subst h; simpa [Good] using hk)

mutual
theorem parseOperator_good : ∀ (j : Json) (key : String) (q : Query),
    parseOperator key j = some (some q) → Good q
  | .arr vs, key, q, h => by
    simp only [parseOperator] at h
    split at h
    · split at h
      · simp at h
      · split at h
        · rename_i hne l hl
          simp at h; subst h
          exact parseListOperators_good vs l hl
        · simp at h
    · split at h
      · split at h
        · simp at h
        · split at h
          · rename_i hne l hl
            simp at h; subst h
            refine ⟨?_, parseListOperators_good vs l hl⟩
            intro e; subst e
            have := parseListOperators_length vs _ hl
            cases vs <;> simp_all
          · simp at h
      · split at h
        · simp at h
        · split at h
          · split at h
            · simp at h
            · split at h
              · rename_i hne ks hks
                simp at h; subst h
                simp only [Good]
                intro e; subst e
                have := strList?_length vs _ hks
                cases vs <;> simp_all
              · simp at h
          · simp at h
  | .obj m, key, q, h => by
    simp only [parseOperator] at h
    split at h
    · simp at h
    · split at h
      · simp at h
      · split at h
        · split at h
          · rename_i ops hops
            simp at h; subst h
            simp only [Good]
            exact good_finish (parseEntries_good m ops hops)
          · simp at h
        · split at h
          · simp at h
          · rename_i h1 h2 h3 h4
            split at h
            · split at h
              · rename_i q' hq'
                simp at h; subst h
                exact parseSingleOperator_good (not_reserved_iff.mpr ⟨h1, h2, h3, h4⟩) hq'
              · simp at h
            · simp at h
  | .str s, key, q, h => by
    simp only [parseOperator] at h
    split at h
    · simp at h
    · split at h
      · simp at h
      · split at h
        · simp at h
        · split at h
          · simp at h; subst h; simp [Good]
          · rename_i h1 h2 h3 h4
            simp at h; subst h
            exact not_reserved_iff.mpr ⟨h1, h2, h3, h4⟩
  | .null, key, q, h => by simp [parseOperator] at h
  | .bool _, key, q, h => by simp [parseOperator] at h
  | .num _, key, q, h => by simp [parseOperator] at h
theorem parseEntries_good : ∀ (m : List (String × Json)) (ops : List Query),
    parseEntries m = some ops → GoodL ops
  | [], ops, h => by simp [parseEntries] at h; subst h; simp [GoodL]
  | (k, v) :: r, ops, h => by
    simp only [parseEntries] at h
    split at h
    · simp at h
    · rename_i o ho
      split at h
      · simp at h
      · rename_i qs hqs
        simp at h; subst h
        have hr := parseEntries_good r qs hqs
        cases o with
        | none => exact hr
        | some q => exact ⟨parseOperator_good v k q ho, hr⟩
theorem parseListOperators_good : ∀ (vs : List Json) (l : List Query),
    parseListOperators vs = some l → GoodL l
  | [], l, h => by simp [parseListOperators] at h; subst h; simp [GoodL]
  | .obj m :: r, l, h => by
    simp only [parseListOperators] at h
    split at h
    · simp at h
    · rename_i ops hops
      split at h
      · simp at h
      · rename_i qs hqs
        simp at h; subst h
        exact ⟨good_finish (parseEntries_good m ops hops), parseListOperators_good r qs hqs⟩
  | .null :: r, l, h => by simp [parseListOperators] at h
  | .bool _ :: r, l, h => by simp [parseListOperators] at h
  | .num _ :: r, l, h => by simp [parseListOperators] at h
  | .str _ :: r, l, h => by simp [parseListOperators] at h
  | .arr _ :: r, l, h => by simp [parseListOperators] at h
end

/-! ## print, then parse -/

theorem strList?_map_str (vs : List String) : strList? (vs.map Json.str) = some vs := by
  induction vs with
  | nil => simp [strList?]
  | cons a r ih => simp [strList?, ih]

theorem parseQuery_single_some {k : String} {v : Json} {q : Query}
    (h : parseOperator k v = some (some q)) : parseQuery [(k, v)] = some q := by
  simp [parseQuery, parseEntries, h, finish]

theorem parseQuery_single_none {k : String} {v : Json}
    (h : parseOperator k v = some none) : parseQuery [(k, v)] = some (.and []) := by
  simp [parseQuery, parseEntries, h, finish]

theorem parseListOperators_cons_obj (m : List (String × Json)) (r : List Json) :
    parseListOperators (.obj m :: r) =
      match parseQuery m with
      | none => none
      | some q => match parseListOperators r with
        | none => none
        | some qs => some (q :: qs) := by
  simp only [parseListOperators, parseQuery]
  cases parseEntries m <;> cases parseListOperators r <;> rfl

theorem print_isObj (q : Query) : ∃ m, print q = .obj m := by
  cases q with
  | and l => cases l <;> simp [print]
  | or l => cases l <;> simp [print]
  | _ => simp [print]

theorem parseListOperators_printList (l : List Query)
    (h : ∀ q ∈ l, parseRestriction (print q) = some q) :
    parseListOperators (printList l) = some l := by
  induction l with
  | nil => simp [printList, parseListOperators]
  | cons q r ih =>
    obtain ⟨m, hm⟩ := print_isObj q
    have hq := h q (by simp)
    rw [hm] at hq
    simp only [parseRestriction] at hq
    simp only [printList, hm, parseListOperators_cons_obj, hq]
    rw [ih (fun q hq => h q (by simp [hq]))]

theorem printList_ne_nil {q : Query} {r : List Query} : (print q :: printList r).isEmpty = false := rfl

theorem parse_print_of_good : ∀ q, Good q → parseRestriction (print q) = some q := by
  intro q
  induction q using Query.induct with
  | and l ih =>
    intro hg
    cases l with
    | nil => rfl
    | cons q r =>
      simp only [Good, goodL_iff] at hg
      have := parseListOperators_printList (q :: r) (fun x hx => ih x hx (hg x hx))
      simp only [printList] at this
      simp only [print, parseRestriction]
      apply parseQuery_single_some
      simp [parseOperator, this]
  | or l ih =>
    intro hg
    cases l with
    | nil => simp [Good] at hg
    | cons q r =>
      simp only [Good, goodL_iff] at hg
      have := parseListOperators_printList (q :: r) (fun x hx => ih x hx (hg.2 x hx))
      simp only [printList] at this
      simp only [print, parseRestriction]
      apply parseQuery_single_some
      simp [parseOperator, this]
  | not q ih =>
    intro hg
    simp only [Good] at hg
    have := ih hg
    obtain ⟨m, hm⟩ := print_isObj q
    rw [hm] at this
    simp only [parseRestriction, parseQuery] at this
    simp only [print, parseRestriction, hm]
    apply parseQuery_single_some
    split at this
    · rename_i ops hops
      simp at this
      simp [parseOperator, hops, this]
    · simp at this
  | eq k v =>
    intro hg
    simp only [Good, not_reserved_iff] at hg
    apply parseQuery_single_some
    simp [parseOperator, hg]
  | neq k v =>
    intro hg
    simp only [Good, not_reserved_iff] at hg
    apply parseQuery_single_some
    simp [parseOperator, parseSingleOperator, hg]
  | gt k v =>
    intro hg
    simp only [Good, not_reserved_iff] at hg
    apply parseQuery_single_some
    simp [parseOperator, parseSingleOperator, hg]
  | gte k v =>
    intro hg
    simp only [Good, not_reserved_iff] at hg
    apply parseQuery_single_some
    simp [parseOperator, parseSingleOperator, hg]
  | lt k v =>
    intro hg
    simp only [Good, not_reserved_iff] at hg
    apply parseQuery_single_some
    simp [parseOperator, parseSingleOperator, hg]
  | lte k v =>
    intro hg
    simp only [Good, not_reserved_iff] at hg
    apply parseQuery_single_some
    simp [parseOperator, parseSingleOperator, hg]
  | like k v =>
    intro hg
    simp only [Good, not_reserved_iff] at hg
    apply parseQuery_single_some
    simp [parseOperator, parseSingleOperator, hg]
  | isIn k vs =>
    intro hg
    simp only [Good, not_reserved_iff] at hg
    apply parseQuery_single_some
    simp [parseOperator, parseSingleOperator, hg, strList?_map_str]
  | exist ks =>
    intro hg
    simp only [Good] at hg
    apply parseQuery_single_some
    cases ks with
    | nil => simp at hg
    | cons a r =>
      have := strList?_map_str (a :: r)
      simp only [List.map] at this
      simp [parseOperator, this]

/-- every query the parser returns satisfies `Good` -/
theorem parseRestriction_good {j : Json} {q : Query} (h : parseRestriction j = some q) : Good q := by
  have hq : ∀ m q, parseQuery m = some q → Good q := by
    intro m q h
    simp only [parseQuery] at h
    split at h
    · rename_i ops hops
      simp at h; subst h
      exact good_finish (parseEntries_good m ops hops)
    · simp at h
  cases j with
  | obj m => exact hq m q h
  | arr a =>
    simp only [parseRestriction] at h
    split at h
    · simp at h
    · exact hq _ q h
  | _ => simp [parseRestriction] at h

/-! ## one-step success characterisations -/

/-- every member is an object -/
def AllObj (vs : List Json) : Prop := ∀ j ∈ vs, ∃ m, j = Json.obj m
/-- every member is a string -/
def AllStr (vs : List Json) : Prop := ∀ j ∈ vs, ∃ s, j = Json.str s

/-- the comparison operators taking one string operand -/
def cmpOps : List String := ["$neq", "$gt", "$gte", "$lt", "$lte", "$like"]

theorem strList?_isSome_iff (vs : List Json) : (strList? vs).isSome ↔ AllStr vs := by
  induction vs with
  | nil => simp [strList?, AllStr]
  | cons j r ih =>
    cases j with
    | str s =>
      simp only [strList?, AllStr, List.mem_cons, forall_eq_or_imp] at ih ⊢
      cases h : strList? r <;> simp_all
    | _ => simp [strList?, AllStr]

theorem parseEntries_isSome_iff (m : List (String × Json)) :
    (parseEntries m).isSome ↔ ∀ kv ∈ m, (parseOperator kv.1 kv.2).isSome := by
  induction m with
  | nil => simp [parseEntries]
  | cons kv r ih =>
    obtain ⟨k, v⟩ := kv
    simp only [parseEntries, List.mem_cons, forall_eq_or_imp]
    cases h1 : parseOperator k v with
    | none => simp
    | some o =>
      cases h2 : parseEntries r with
      | none =>
        simp only [Option.isSome_none, Bool.false_eq_true, false_iff]
        intro ⟨_, h⟩; rw [← ih, h2] at h; simp at h
      | some qs =>
        simp only [Option.isSome_some, true_iff, true_and]
        rw [← ih, h2]; simp

theorem parseQuery_isSome_iff (m : List (String × Json)) :
    (parseQuery m).isSome ↔ (parseEntries m).isSome := by
  unfold parseQuery; cases parseEntries m <;> simp

theorem parseListOperators_isSome_iff (vs : List Json) :
    (parseListOperators vs).isSome ↔
      AllObj vs ∧ ∀ m, Json.obj m ∈ vs → (parseEntries m).isSome := by
  induction vs with
  | nil => simp [parseListOperators, AllObj]
  | cons j r ih =>
    cases j with
    | obj m =>
      simp only [parseListOperators, AllObj, List.mem_cons, forall_eq_or_imp] at ih ⊢
      cases h1 : parseEntries m with
      | none =>
        simp only [Option.isSome_none, Bool.false_eq_true, false_iff]
        intro ⟨_, hb⟩
        have := hb m (Or.inl rfl)
        simp [h1] at this
      | some ops =>
        cases h2 : parseListOperators r with
        | none =>
          rw [h2] at ih
          simp only [Option.isSome_none, Bool.false_eq_true, false_iff] at ih
          simp only [Option.isSome_none, Bool.false_eq_true, false_iff]
          intro ⟨⟨_, ha⟩, hb⟩
          exact ih ⟨ha, fun m hm => hb m (Or.inr hm)⟩
        | some qs =>
          rw [h2] at ih
          simp only [Option.isSome_some, true_iff] at ih
          simp only [Option.isSome_some, true_iff]
          refine ⟨⟨⟨m, rfl⟩, ih.1⟩, ?_⟩
          intro m' hm'
          rcases hm' with e | hm'
          · cases e; simp [h1]
          · exact ih.2 m' hm'
    | _ => simp [parseListOperators, AllObj]

theorem parseSingleOperator_isSome_iff (op key : String) (x : Json) :
    (parseSingleOperator op key x).isSome ↔
      (op ∈ cmpOps ∧ ∃ s, x = Json.str s) ∨ (op = "$in" ∧ ∃ vs, x = Json.arr vs ∧ AllStr vs) := by
  unfold parseSingleOperator
  split
  · subst op; cases x <;> simp [cmpOps]
  split
  · subst op; cases x <;> simp [cmpOps]
  split
  · subst op; cases x <;> simp [cmpOps]
  split
  · subst op; cases x <;> simp [cmpOps]
  split
  · subst op; cases x <;> simp [cmpOps]
  split
  · subst op; cases x <;> simp [cmpOps]
  split
  · subst op
    cases x with
    | arr vs =>
      have := strList?_isSome_iff vs
      cases h : strList? vs <;> simp [cmpOps, h] at this ⊢ <;> exact this
    | _ => simp [cmpOps]
  · simp_all [cmpOps]

/-- one step of `parse_operator`, success only -/
theorem parseOperator_isSome_iff (key : String) (j : Json) :
    (parseOperator key j).isSome ↔
      match j with
      | .arr vs => ((key = "$and" ∨ key = "$or") ∧ (parseListOperators vs).isSome) ∨
                   (key = "$exist" ∧ AllStr vs)
      | .obj m => (key = "$not" ∧ (parseEntries m).isSome) ∨
                  (key ∉ reserved ∧ ∃ op x, m = [(op, x)] ∧ (parseSingleOperator op key x).isSome)
      | .str _ => key ≠ "$and" ∧ key ≠ "$or" ∧ key ≠ "$not"
      | _ => False := by
  cases j with
  | arr vs =>
    simp only [parseOperator]
    by_cases h1 : key = "$and"
    · subst h1
      cases vs with
      | nil => simp [parseListOperators]
      | cons a r => cases parseListOperators (a :: r) <;> simp
    by_cases h2 : key = "$or"
    · subst h2
      cases vs with
      | nil => simp [parseListOperators]
      | cons a r => cases parseListOperators (a :: r) <;> simp
    by_cases h3 : key = "$not"
    · subst h3; simp
    by_cases h4 : key = "$exist"
    · subst h4
      rw [← strList?_isSome_iff]
      cases vs with
      | nil => simp [strList?]
      | cons a r => cases strList? (a :: r) <;> simp
    simp [h1, h2, h3, h4]
  | obj m =>
    simp only [parseOperator, not_reserved_iff]
    by_cases h1 : key = "$and"
    · subst h1; simp
    by_cases h2 : key = "$or"
    · subst h2; simp
    by_cases h3 : key = "$not"
    · subst h3; cases parseEntries m <;> simp
    by_cases h4 : key = "$exist"
    · subst h4; simp
    simp only [h1, h2, h3, h4, if_false, false_and, false_or, not_false_eq_true, true_and, ne_eq]
    split
    · rename_i op x
      have : (∃ op' x', [(op, x)] = [(op', x')] ∧ (parseSingleOperator op' key x').isSome) ↔
          (parseSingleOperator op key x).isSome := by
        constructor
        · rintro ⟨op', x', e, h⟩; cases e; exact h
        · intro h; exact ⟨op, x, rfl, h⟩
      rw [this]; cases parseSingleOperator op key x <;> simp
    · rename_i hne
      simp only [Option.isSome_none, Bool.false_eq_true, false_iff]
      rintro ⟨op, x, rfl, _⟩
      exact hne op x rfl
  | str s =>
    simp only [parseOperator]
    by_cases h1 : key = "$and"
    · subst h1; simp
    by_cases h2 : key = "$or"
    · subst h2; simp
    by_cases h3 : key = "$not"
    · subst h3; simp
    by_cases h4 : key = "$exist"
    · subst h4; simp
    simp [h1, h2, h3, h4]
  | null => simp [parseOperator]
  | bool b => simp [parseOperator]
  | num n => simp [parseOperator]

/-! ## tags and leaves of the evaluation -/

theorem stripPrefix_eq_some_iff (p l rest : List Char) :
    stripPrefix p l = some rest ↔ l = p ++ rest := by
  induction p generalizing l with
  | nil => simp [stripPrefix, eq_comm]
  | cons a p ih =>
    cases l with
    | nil => simp [stripPrefix]
    | cons b l =>
      simp only [stripPrefix]
      split
      · rename_i h; subst h; simp [ih]
      · rename_i h; simp; intro e; exact absurd e.symm h

theorem takeWhile_all {α} (p : α → Bool) (l : List α) : ∀ a ∈ l.takeWhile p, p a = true := by
  induction l with
  | nil => simp
  | cons b l ih =>
    intro a ha
    simp only [List.takeWhile] at ha
    split at ha
    · simp at ha
      rcases ha with rfl | ha
      · assumption
      · exact ih a ha
    · simp at ha

/-- splitting at the first `:` -/
theorem split_colon {n t : List Char} (hn : ':' ∉ n) :
    (n ++ ':' :: t).takeWhile (fun c => c != ':') = n ∧
    (n ++ ':' :: t).dropWhile (fun c => c != ':') = ':' :: t := by
  have hp : ∀ a ∈ n, (a != ':') = true := by
    intro a ha; simp; intro e; subst e; exact hn ha
  constructor
  · rw [List.takeWhile_append_of_pos hp, List.takeWhile_cons_of_neg (by simp)]; simp
  · rw [List.dropWhile_append_of_pos hp, List.dropWhile_cons_of_neg (by simp)]

/-- `tag` is `attr::<n>::value` or `attr::<n>::marker` with `n` non-empty and free of `:`
— a match of `INTERNAL_TAG_MATCHER` with capture group 1 equal to `n` -/
def IsInternalTag (tag n : String) : Prop :=
  n ≠ "" ∧ ':' ∉ n.toList ∧ (tag = "attr::" ++ n ++ "::value" ∨ tag = "attr::" ++ n ++ "::marker")

theorem internalTagName_eq_some_iff (tag n : String) :
    internalTagName tag = some n ↔ IsInternalTag tag n := by
  unfold internalTagName IsInternalTag
  constructor
  · intro h
    split at h
    · simp at h
    · rename_i rest hrest
      rw [stripPrefix_eq_some_iff] at hrest
      simp only at h
      split at h
      · rename_i hc
        simp at h
        subst h
        have hsplit := List.takeWhile_append_dropWhile (p := fun c => c != ':') (l := rest)
        refine ⟨?_, ?_, ?_⟩
        · intro e
          have := congrArg String.toList e
          simp at this
          exact hc.1 this
        · simp only [String.toList_ofList]
          intro hm
          have := takeWhile_all (fun c => c != ':') rest ':' hm
          simp at this
        · rcases hc.2 with ht | ht
          · left
            apply String.toList_inj.mp
            simp only [String.toList_append, String.toList_ofList]
            rw [hrest, List.append_assoc, ← ht, hsplit]
          · right
            apply String.toList_inj.mp
            simp only [String.toList_append, String.toList_ofList]
            rw [hrest, List.append_assoc, ← ht, hsplit]
      · simp at h
  · rintro ⟨hne, hcol, htag⟩
    have hnl : n.toList ≠ [] := by
      intro e; apply hne; apply String.toList_inj.mp; simp [e]
    have key : ∀ sfx : List Char, tag.toList = "attr::".toList ++ (n.toList ++ ':' :: ':' :: sfx) →
        (sfx = "value".toList ∨ sfx = "marker".toList) →
        (match stripPrefix "attr::".toList tag.toList with
          | none => none
          | some rest =>
            let name := rest.takeWhile (fun c => c != ':')
            let tail := rest.dropWhile (fun c => c != ':')
            if name ≠ [] ∧ (tail = "::value".toList ∨ tail = "::marker".toList) then some (String.ofList name)
            else none) = some n := by
      intro sfx ht hs
      have hs' := (stripPrefix_eq_some_iff "attr::".toList tag.toList _).mpr ht
      rw [hs']
      obtain ⟨h1, h2⟩ := split_colon (t := ':' :: sfx) hcol
      simp only [h1, h2]
      have : (':' :: ':' :: sfx = "::value".toList ∨ ':' :: ':' :: sfx = "::marker".toList) := by
        rcases hs with rfl | rfl
        · left; rfl
        · right; rfl
      rw [if_pos ⟨hnl, this⟩, String.ofList_toList]
    rcases htag with ht | ht
    · apply key "value".toList _ (Or.inl rfl)
      rw [ht]; simp [String.toList_append]
    · apply key "marker".toList _ (Or.inr rfl)
      rw [ht]; simp [String.toList_append]



theorem hasKey_iff_lookup (vals : List (String × Option String)) (n : String) :
    hasKey vals n = true ↔ ∃ v, vals.lookup n = some v := by
  induction vals with
  | nil => simp [hasKey]
  | cons p r ih =>
    obtain ⟨k, v⟩ := p
    simp only [hasKey, List.any_cons, List.lookup] at ih ⊢
    by_cases hk : n = k
    · subst hk; simp
    · have : (n == k) = false := by simpa using hk
      have h2 : (k == n) = false := by simpa using (fun e => hk e.symm)
      simp [this, h2, ih]

/-- `tag` starts with `attr::` and ends with `::marker` (`is_attr_operator`) -/
def IsMarkerShaped (tag : String) : Prop :=
  "attr::".toList <+: tag.toList ∧ "::marker".toList <:+ tag.toList

theorem isAttrOperator_iff (tag : String) : isAttrOperator tag = true ↔ IsMarkerShaped tag := by
  simp [isAttrOperator, IsMarkerShaped, List.isSuffixOf_iff_suffix]

/-- declarative meaning of one equality test `tag = value` against a credential
(`f`) and the values revealed under the referent (`vals`) -/
def LeafSat (ld : String → Bool) (vals : List (String × Option String)) (f : Filter)
    (tag value : String) : Prop :=
  (tag = "schema_id" ∧ f.schemaId = value) ∨
  (tag = "schema_issuer_id" ∧ f.schemaIssuerId = value) ∨
  (tag = "schema_issuer_did" ∧ ld f.schemaIssuerId = true ∧ f.schemaIssuerId = value) ∨
  (tag = "schema_name" ∧ f.schemaName = value) ∨
  (tag = "schema_version" ∧ f.schemaVersion = value) ∨
  (tag = "cred_def_id" ∧ f.credDefId = value) ∨
  (tag = "issuer_id" ∧ f.issuerId = value) ∨
  (tag = "issuer_did" ∧ ld f.issuerId = true ∧ f.issuerId = value) ∨
  (∃ n, IsInternalTag tag n ∧ (vals.lookup n = some none ∨ vals.lookup n = some (some value))) ∨
  (IsMarkerShaped tag ∧ ¬ ∃ n, IsInternalTag tag n ∧ hasKey vals n = true)

theorem attrPrefix_of_internal {tag n : String} (h : IsInternalTag tag n) :
    "attr::".toList <+: tag.toList := by
  obtain ⟨_, _, h | h⟩ := h <;> (subst h; simp only [String.toList_append, List.append_assoc]; exact List.prefix_append _ _)

theorem attrPrefix_of_marker {tag : String} (h : IsMarkerShaped tag) :
    "attr::".toList <+: tag.toList := h.1

def metaTags : List String :=
  ["schema_id", "schema_issuer_did", "schema_issuer_id", "schema_name", "schema_version",
   "cred_def_id", "issuer_did", "issuer_id"]

theorem not_attrPrefix_of_meta {tag : String} (h : tag ∈ metaTags) :
    ¬ "attr::".toList <+: tag.toList := by
  rw [← List.isPrefixOf_iff_prefix]
  simp only [metaTags, List.mem_cons, List.not_mem_nil, or_false] at h
  rcases h with rfl | rfl | rfl | rfl | rfl | rfl | rfl | rfl <;> decide

variable (ld : String → Bool) (vals : List (String × Option String)) (f : Filter)

theorem leafSat_meta {tag value : String} (hm : tag ∈ metaTags) :
    LeafSat ld vals f tag value ↔
      (tag = "schema_id" ∧ f.schemaId = value) ∨
      (tag = "schema_issuer_id" ∧ f.schemaIssuerId = value) ∨
      (tag = "schema_issuer_did" ∧ ld f.schemaIssuerId = true ∧ f.schemaIssuerId = value) ∨
      (tag = "schema_name" ∧ f.schemaName = value) ∨
      (tag = "schema_version" ∧ f.schemaVersion = value) ∨
      (tag = "cred_def_id" ∧ f.credDefId = value) ∨
      (tag = "issuer_id" ∧ f.issuerId = value) ∨
      (tag = "issuer_did" ∧ ld f.issuerId = true ∧ f.issuerId = value) := by
  have hp := not_attrPrefix_of_meta hm
  have h9 : ¬ ∃ n, IsInternalTag tag n ∧ (vals.lookup n = some none ∨ vals.lookup n = some (some value)) :=
    fun ⟨n, h, _⟩ => hp (attrPrefix_of_internal h)
  have h10 : ¬ (IsMarkerShaped tag ∧ ¬ ∃ n, IsInternalTag tag n ∧ hasKey vals n = true) :=
    fun ⟨h, _⟩ => hp h.1
  simp only [LeafSat, h9, h10, or_false]

theorem processFilter_iff_leafSat (tag value : String) :
    processFilter ld vals f tag value = true ↔ LeafSat ld vals f tag value := by
  by_cases hm : tag ∈ metaTags
  · rw [leafSat_meta ld vals f hm]
    simp only [metaTags, List.mem_cons, List.not_mem_nil, or_false] at hm
    rcases hm with rfl | rfl | rfl | rfl | rfl | rfl | rfl | rfl <;>
      simp [processFilter, processField]
  · have hm' := hm
    simp only [metaTags, List.mem_cons, List.not_mem_nil, or_false, not_or] at hm'
    obtain ⟨h1, h2, h3, h4, h5, h6, h7, h8⟩ := hm'
    simp only [processFilter, h1, h2, h3, h4, h5, h6, h7, h8, if_false, or_self, LeafSat, false_and, false_or]
    unfold isAttrInternalTag checkInternalTagRevealedValue
    cases hn : internalTagName tag with
    | none =>
      have hno : ∀ n, ¬ IsInternalTag tag n := by
        intro n h; rw [← internalTagName_eq_some_iff, hn] at h; cases h
      simp [hno, isAttrOperator_iff]
    | some n =>
      have hn' := (internalTagName_eq_some_iff tag n).mp hn
      have huniq : ∀ n', IsInternalTag tag n' ↔ n' = n := by
        intro n'
        rw [← internalTagName_eq_some_iff, hn]
        simp [eq_comm]
      simp only [huniq, exists_eq_left]
      by_cases hk : hasKey vals n = true
      · obtain ⟨v, hv⟩ := (hasKey_iff_lookup vals n).mp hk
        simp only [hk, if_true, hv, not_true, and_false, or_false]
        cases v with
        | none => simp
        | some r => simp
      · have hl : vals.lookup n = none := by
          cases h : vals.lookup n with
          | none => rfl
          | some v => exact absurd ((hasKey_iff_lookup vals n).mpr ⟨v, h⟩) hk
        simp [hk, hl, isAttrOperator_iff]

/-! ## printed values are well-formed JSON objects (keys sorted, unique) -/

theorem wfList_eq (l : List Json) : wfList l = l.all Json.WF := by
  induction l with
  | nil => simp [wfList]
  | cons j r ih => simp [wfList, ih]

theorem wfList_strs (vs : List String) : wfList (vs.map Json.str) = true := by
  induction vs with
  | nil => rfl
  | cons a r ih => simp [wfList, Json.WF, ih]

theorem print_wf (q : Query) : (print q).WF = true := by
  induction q using Query.induct with
  | and l ih =>
    cases l with
    | nil => rfl
    | cons a r =>
      have : wfList (printList (a :: r)) = true := by
        rw [wfList_eq, printList_eq_map]
        simp only [List.all_map, List.all_eq_true]
        exact fun q hq => ih q hq
      simp only [printList] at this
      simp [print, Json.WF, wfEntries, keysSorted, this]
  | or l ih =>
    cases l with
    | nil => rfl
    | cons a r =>
      have : wfList (printList (a :: r)) = true := by
        rw [wfList_eq, printList_eq_map]
        simp only [List.all_map, List.all_eq_true]
        exact fun q hq => ih q hq
      simp only [printList] at this
      simp [print, Json.WF, wfEntries, keysSorted, this]
  | not q ih => simp [print, Json.WF, wfEntries, keysSorted, ih]
  | isIn k vs => simp [print, Json.WF, wfEntries, keysSorted, wfList_strs]
  | exist ks => simp [print, Json.WF, wfEntries, keysSorted, wfList_strs]
  | _ => simp [print, Json.WF, wfEntries, keysSorted]

end AnonModel.Query

import AnonModel.Model.WireReq
import AnonModel.Lemmas.Query
import AnonModel.Lemmas.Flows
/-!
# Helper lemmas for C15 on presentation requests (`Model/WireReq.lean`)

* `Good` (the parser invariant of `Lemmas/Query.lean`) is decidable (`goodB`);
* the well-formedness predicate `WfReq` of a request value (the invariants of the Rust type:
  `Nonce` is a non-empty digit string, `u64` / `i32` ranges, `HashMap` keys unique, and every
  restriction is in the image class `Good` of the restriction parser);
* `reqDe (reqSer r) = some r` on `WfReq r`, member by member;
* everything `reqDe` returns satisfies `WfReq` (key uniqueness from `Json.WF` of the document);
* `reqDe` on an object depends on seven `lookup`s only (`reqDe_congr`, `reqDe_obj_eq_some`);
* `reqSer r` is `Json.WF` when the two referent lists are strictly increasing.
-/
namespace AnonModel.WireReq
open AnonModel.Json
open AnonModel.Query (Query parseRestriction print Good GoodL reserved)
open AnonModel.Interval (Ivl)

/-! ## `Good` is decidable -/

mutual
/-- Boolean form of `Query.Good` -/
def goodB : Query → Bool
  | .and l => goodLB l
  | .or l => !l.isEmpty && goodLB l
  | .not q => goodB q
  | .eq k _ => !reserved.contains k
  | .neq k _ => !reserved.contains k
  | .gt k _ => !reserved.contains k
  | .gte k _ => !reserved.contains k
  | .lt k _ => !reserved.contains k
  | .lte k _ => !reserved.contains k
  | .like k _ => !reserved.contains k
  | .isIn k _ => !reserved.contains k
  | .exist ks => !ks.isEmpty
def goodLB : List Query → Bool
  | [] => true
  | q :: r => goodB q && goodLB r
end

mutual
theorem goodB_iff : ∀ q : Query, goodB q = true ↔ Good q
  | .and l => by simp only [goodB, Good]; exact goodLB_iff l
  | .or l => by
    simp only [goodB, Good, Bool.and_eq_true, goodLB_iff l]
    cases l <;> simp
  | .not q => by simp only [goodB, Good]; exact goodB_iff q
  | .eq k _ => by simp [goodB, Good]
  | .neq k _ => by simp [goodB, Good]
  | .gt k _ => by simp [goodB, Good]
  | .gte k _ => by simp [goodB, Good]
  | .lt k _ => by simp [goodB, Good]
  | .lte k _ => by simp [goodB, Good]
  | .like k _ => by simp [goodB, Good]
  | .isIn k _ => by simp [goodB, Good]
  | .exist ks => by cases ks <;> simp [goodB, Good]
theorem goodLB_iff : ∀ l : List Query, goodLB l = true ↔ GoodL l
  | [] => by simp [goodLB, GoodL]
  | q :: r => by simp only [goodLB, GoodL, Bool.and_eq_true, goodB_iff q, goodLB_iff r]
end

instance (q : Query) : Decidable (Good q) := decidable_of_iff _ (goodB_iff q)

/-! ## well-formed request values -/

/-- `P` holds for the content of the option, if any -/
def OptAll {α : Type} (P : α → Prop) : Option α → Prop
  | none => True
  | some a => P a

instance {α : Type} {P : α → Prop} [DecidablePred P] : (o : Option α) → Decidable (OptAll P o)
  | none => isTrue trivial
  | some a => inferInstanceAs (Decidable (P a))

/-- both bounds, if present, are `u64`s -/
def IvlOk (i : Ivl) : Prop := OptAll (fun n => n < 2 ^ 64) i.lo ∧ OptAll (fun n => n < 2 ^ 64) i.hi

instance (i : Ivl) : Decidable (IvlOk i) := inferInstanceAs (Decidable (_ ∧ _))

/-- restrictions in the parser's image class, local interval bounds are `u64`s -/
def AttrOk (a : AttrInfo) : Prop := OptAll Good a.restrictions ∧ OptAll IvlOk a.nonRevoked

instance (a : AttrInfo) : Decidable (AttrOk a) := inferInstanceAs (Decidable (_ ∧ _))

/-- `p_value` is an `i32`; restrictions and local interval as for attributes -/
def PredOk (p : PredInfo) : Prop :=
  (-(2 ^ 31 : Int) ≤ p.pValue ∧ p.pValue < 2 ^ 31) ∧ OptAll Good p.restrictions ∧
    OptAll IvlOk p.nonRevoked

instance (p : PredInfo) : Decidable (PredOk p) := inferInstanceAs (Decidable (_ ∧ _))

/-- what `Nonce::from_dec` accepts: a non-empty run of ASCII digits -/
def NonceOk (s : String) : Prop := s ≠ "" ∧ ∀ c ∈ s.toList, c.isDigit = true

instance (s : String) : Decidable (NonceOk s) := inferInstanceAs (Decidable (_ ∧ _))

/-- **well-formed request**: the nonce is a non-empty digit string; referents are pairwise
distinct among the attributes and among the predicates (`HashMap` keys); every restriction is
`Good`; every interval bound is below `2^64`; every `p_value` is in the `i32` range. -/
def WfReq (r : ReqDoc) : Prop :=
  NonceOk r.nonce ∧ (r.attrs.map (·.1)).Nodup ∧ (r.preds.map (·.1)).Nodup ∧
    (∀ kv ∈ r.attrs, AttrOk kv.2) ∧ (∀ kv ∈ r.preds, PredOk kv.2) ∧ OptAll IvlOk r.nonRevoked

instance (r : ReqDoc) : Decidable (WfReq r) := inferInstanceAs (Decidable (_ ∧ _))

/-! ## deserialise ∘ serialise, member by member -/

theorem u64De_natSer {n : Nat} (h : n < 2 ^ 64) : u64De (natSer n) = some n := by
  have : (0 : Int) ≤ (n : Int) ∧ (n : Int) < 2 ^ 64 := by omega
  simp only [u64De, natSer]
  rw [if_pos this, Int.toNat_natCast]

theorem optVal_null {α : Type} (de : Json → Option α) : optVal de .null = some none := rfl

theorem optVal_of_some {α : Type} {de : Json → Option α} {j : Json} {a : α} (hj : j ≠ .null)
    (h : de j = some a) : optVal de j = some (some a) := by
  unfold optVal
  split
  · exact absurd rfl hj
  · simp [h]

theorem optVal_of_none {α : Type} {de : Json → Option α} {j : Json} (hj : j ≠ .null)
    (h : de j = none) : optVal de j = none := by
  unfold optVal
  split
  · exact absurd rfl hj
  · simp [h]

/-- `Option<T>`: `de ∘ ser` is the identity as soon as it is on the content and `ser` never
writes `null` for a `Some` -/
theorem optVal_optSer {α : Type} {de : Json → Option α} {ser : α → Json} {P : α → Prop}
    (hde : ∀ a, P a → de (ser a) = some a) (hnn : ∀ a, ser a ≠ .null) {o : Option α}
    (h : OptAll P o) : optVal de (optSer ser o) = some o := by
  cases o with
  | none => rfl
  | some a => exact optVal_of_some (hnn a) (hde a h)

theorem natSer_ne_null (n : Nat) : natSer n ≠ .null := by simp [natSer]
theorem ivlSer_ne_null (i : Ivl) : ivlSer i ≠ .null := by simp [ivlSer]
theorem print_ne_null (q : Query) : print q ≠ .null := by
  obtain ⟨m, hm⟩ := AnonModel.Query.print_isObj q
  simp [hm]

theorem optU64_roundtrip {o : Option Nat} (h : OptAll (fun n => n < 2 ^ 64) o) :
    optVal u64De (optSer natSer o) = some o :=
  optVal_optSer (P := fun n => n < 2 ^ 64) (fun _ h => u64De_natSer h) natSer_ne_null h

theorem ivlDe_ivlSer {i : Ivl} (h : IvlOk i) : ivlDe (ivlSer i) = some i := by
  obtain ⟨lo, hi⟩ := i
  obtain ⟨h1, h2⟩ := h
  have e1 : List.lookup "from" [("from", optSer natSer lo), ("to", optSer natSer hi)]
      = some (optSer natSer lo) := rfl
  have e2 : List.lookup "to" [("from", optSer natSer lo), ("to", optSer natSer hi)]
      = some (optSer natSer hi) := rfl
  simp only [ivlSer, ivlDe, e1, e2, optMember, optU64_roundtrip h1, optU64_roundtrip h2]

theorem optIvl_roundtrip {o : Option Ivl} (h : OptAll IvlOk o) :
    optVal ivlDe (optSer ivlSer o) = some o :=
  optVal_optSer (P := IvlOk) (fun _ h => ivlDe_ivlSer h) ivlSer_ne_null h

theorem optQuery_roundtrip {o : Option Query} (h : OptAll Good o) :
    optVal parseRestriction (optSer print o) = some o :=
  optVal_optSer (P := Good) (fun q h => AnonModel.Query.parse_print_of_good q h) print_ne_null h

theorem attrDe_attrSer {a : AttrInfo} (h : AttrOk a) : attrDe (attrSer a) = some a := by
  obtain ⟨n, ns, r, i⟩ := a
  obtain ⟨hr, hi⟩ := h
  have hr' := optQuery_roundtrip hr
  have hi' := optIvl_roundtrip hi
  simp only at hr' hi'
  have hs : ∀ s : String, optVal strDe (.str s) = some (some s) :=
    fun s => optVal_of_some (by simp) rfl
  have hl : ∀ l : List String, optVal strVecDe (.arr (l.map Json.str)) = some (some l) :=
    fun l => optVal_of_some (by simp) (AnonModel.Query.strList?_map_str l)
  cases n <;> cases ns <;> simp [attrSer, attrDe, List.lookup, optMember, hs, hl, hr', hi']

theorem pTypeDe_str (t : PType) : pTypeDe (.str (pTypeStr t)) = some t := by
  cases t <;> rfl

theorem i32De_num {v : Int} (h : -(2 ^ 31 : Int) ≤ v ∧ v < 2 ^ 31) : i32De (.num v) = some v := by
  simp only [i32De]; exact if_pos h

theorem predDe_predSer {p : PredInfo} (h : PredOk p) : predDe (predSer p) = some p := by
  obtain ⟨n, t, v, r, i⟩ := p
  obtain ⟨hv, hr, hi⟩ := h
  have hr' := optQuery_roundtrip hr
  have hi' := optIvl_roundtrip hi
  have hv' := i32De_num hv
  simp only at hr' hi' hv'
  simp [predSer, predDe, List.lookup, optMember, reqMember, strDe, pTypeDe_str, hv', hr', hi']

theorem mapDe_mapSer {α : Type} {de : Json → Option α} {ser : α → Json} :
    ∀ (l : List (String × α)), (∀ kv ∈ l, de (ser kv.2) = some kv.2) →
      mapDe de (mapSer ser l) = some l
  | [], _ => rfl
  | (k, a) :: r, h => by
    have h1 : de (ser a) = some a := h (k, a) (by simp)
    have h2 := mapDe_mapSer r (fun kv hkv => h kv (by simp [hkv]))
    simp [mapSer, mapDe, h1, h2]

/-- `Wire.nonceDe` keeps a non-empty digit string as it is (cf. `Props/C15.lean:
C15_nonce_string_kept`) -/
theorem nonceOf_str {s : String} (h : NonceOk s) : nonceOf (.str s) = some s := by
  obtain ⟨hne, hd⟩ := h
  have he : s.isEmpty = false := by
    cases hs : s.isEmpty with
    | false => rfl
    | true => exact absurd (String.isEmpty_iff.mp hs) hne
  have hall : s.toList.all Char.isDigit = true := by simpa using hd
  simp [nonceOf, toW, Wire.nonceDe, Wire.nonceFromDec, he, hall]

theorem verDe_verStr (b : Bool) :
    Wire.verDe (some (toW (.str (verStr b)))) = some (if b then .v2 else .v1) := by
  cases b <;> decide

/-- `reqDe ∘ reqSer` is the identity as soon as the nonce, the members of the two maps and the
request-wide interval are well formed (key uniqueness is not needed by the model: maps are read
entry by entry) -/
theorem reqDe_reqSer_weak {r : ReqDoc} (hn : NonceOk r.nonce) (ha : ∀ kv ∈ r.attrs, AttrOk kv.2)
    (hp : ∀ kv ∈ r.preds, PredOk kv.2) (hi : OptAll IvlOk r.nonRevoked) :
    reqDe (reqSer r) = some r := by
  obtain ⟨nonce, name, version, attrs, preds, nr, v2⟩ := r
  have h1 := nonceOf_str hn
  have h2 := mapDe_mapSer (de := attrDe) (ser := attrSer) attrs (fun kv hkv => attrDe_attrSer (ha kv hkv))
  have h3 := mapDe_mapSer (de := predDe) (ser := predSer) preds (fun kv hkv => predDe_predSer (hp kv hkv))
  have h4 := optIvl_roundtrip hi
  simp only at h1 h2 h3 h4 hn
  cases v2 <;>
    simp [reqSer, reqDe, List.lookup, optMember, reqMember, mapMember, strDe, h1, h2, h3, h4] <;>
    simp [verStr, toW, Wire.verDe, verFlag]

/-- `reqDe ∘ reqSer` is the identity on well-formed requests -/
theorem reqDe_reqSer {r : ReqDoc} (h : WfReq r) : reqDe (reqSer r) = some r :=
  reqDe_reqSer_weak h.1 h.2.2.2.1 h.2.2.2.2.1 h.2.2.2.2.2

/-! ## everything `reqDe` returns is well formed -/

theorem u64De_lt {j : Json} {n : Nat} (h : u64De j = some n) : n < 2 ^ 64 := by
  unfold u64De at h
  split at h
  · split at h
    · rename_i hr
      simp only [Option.some.injEq] at h
      omega
    · cases h
  · cases h

theorem i32De_range {j : Json} {v : Int} (h : i32De j = some v) :
    -(2 ^ 31 : Int) ≤ v ∧ v < 2 ^ 31 := by
  unfold i32De at h
  split at h
  · split at h
    · rename_i hr
      simp only [Option.some.injEq] at h
      subst h; exact hr
    · cases h
  · cases h

theorem optVal_all {α : Type} {de : Json → Option α} {P : α → Prop}
    (hde : ∀ j a, de j = some a → P a) {j : Json} {o : Option α} (h : optVal de j = some o) :
    OptAll P o := by
  unfold optVal at h
  split at h
  · cases h; trivial
  · split at h
    · rename_i a ha
      cases h
      exact hde _ a ha
    · cases h

theorem optMember_all {α : Type} {de : Json → Option α} {P : α → Prop}
    (hde : ∀ j a, de j = some a → P a) {oj : Option Json} {o : Option α}
    (h : optMember de oj = some o) : OptAll P o := by
  cases oj with
  | none => cases h; trivial
  | some j => exact optVal_all hde h

theorem ivlDe_ok {j : Json} {i : Ivl} (h : ivlDe j = some i) : IvlOk i := by
  unfold ivlDe at h
  split at h
  · split at h
    · cases h
    · rename_i lo hlo
      split at h
      · cases h
      · rename_i hi hhi
        cases h
        exact ⟨optMember_all (P := fun n => n < 2 ^ 64) (fun _ _ => u64De_lt) hlo,
               optMember_all (P := fun n => n < 2 ^ 64) (fun _ _ => u64De_lt) hhi⟩
  · split at h
    · cases h
    · rename_i lo hlo
      split at h
      · cases h
      · rename_i hi hhi
        cases h
        exact ⟨optVal_all (P := fun n => n < 2 ^ 64) (fun _ _ => u64De_lt) hlo,
               optVal_all (P := fun n => n < 2 ^ 64) (fun _ _ => u64De_lt) hhi⟩
  · cases h

theorem attrDe_ok {j : Json} {a : AttrInfo} (h : attrDe j = some a) : AttrOk a := by
  unfold attrDe at h
  split at h
  · split at h
    · cases h
    · split at h
      · cases h
      · split at h
        · cases h
        · rename_i r hr
          split at h
          · cases h
          · rename_i i hi
            cases h
            exact ⟨optMember_all (P := Good) (fun _ _ => AnonModel.Query.parseRestriction_good) hr,
                   optMember_all (P := IvlOk) (fun _ _ => ivlDe_ok) hi⟩
  · split at h
    · cases h
    · split at h
      · cases h
      · split at h
        · cases h
        · rename_i r hr
          split at h
          · cases h
          · rename_i i hi
            cases h
            exact ⟨optVal_all (P := Good) (fun _ _ => AnonModel.Query.parseRestriction_good) hr,
                   optVal_all (P := IvlOk) (fun _ _ => ivlDe_ok) hi⟩
  · cases h

theorem reqMember_some {α : Type} {de : Json → Option α} {oj : Option Json} {a : α}
    (h : reqMember de oj = some a) : ∃ j, oj = some j ∧ de j = some a := by
  cases oj with
  | none => cases h
  | some j => exact ⟨j, rfl, h⟩

theorem predDe_ok {j : Json} {p : PredInfo} (h : predDe j = some p) : PredOk p := by
  unfold predDe at h
  split at h
  · split at h
    · cases h
    · split at h
      · cases h
      · split at h
        · cases h
        · rename_i v hv
          split at h
          · cases h
          · rename_i r hr
            split at h
            · cases h
            · rename_i i hi
              cases h
              obtain ⟨jv, _, hv'⟩ := reqMember_some hv
              exact ⟨i32De_range hv',
                     optMember_all (P := Good) (fun _ _ => AnonModel.Query.parseRestriction_good) hr,
                     optMember_all (P := IvlOk) (fun _ _ => ivlDe_ok) hi⟩
  · split at h
    · cases h
    · split at h
      · cases h
      · split at h
        · cases h
        · rename_i v hv
          split at h
          · cases h
          · rename_i r hr
            split at h
            · cases h
            · rename_i i hi
              cases h
              exact ⟨i32De_range hv,
                     optVal_all (P := Good) (fun _ _ => AnonModel.Query.parseRestriction_good) hr,
                     optVal_all (P := IvlOk) (fun _ _ => ivlDe_ok) hi⟩
  · cases h

theorem mapDe_keys {α : Type} {de : Json → Option α} :
    ∀ (m : List (String × Json)) (l : List (String × α)), mapDe de m = some l →
      l.map (·.1) = m.map (·.1)
  | [], l, h => by simp only [mapDe, Option.some.injEq] at h; subst h; rfl
  | (k, v) :: r, l, h => by
    simp only [mapDe] at h
    split at h
    · cases h
    · split at h
      · cases h
      · rename_i l' hl'
        cases h
        simp [mapDe_keys r l' hl']

theorem mapDe_all {α : Type} {de : Json → Option α} {P : α → Prop}
    (hde : ∀ j a, de j = some a → P a) :
    ∀ (m : List (String × Json)) (l : List (String × α)), mapDe de m = some l →
      ∀ kv ∈ l, P kv.2
  | [], l, h => by simp only [mapDe, Option.some.injEq] at h; subst h; simp
  | (k, v) :: r, l, h => by
    simp only [mapDe] at h
    split at h
    · cases h
    · rename_i a ha
      split at h
      · cases h
      · rename_i l' hl'
        cases h
        intro kv hkv
        rcases List.mem_cons.mp hkv with rfl | hkv
        · exact hde _ _ ha
        · exact mapDe_all hde r l' hl' kv hkv

/-- whatever form the nonce had on the wire, it prints as a non-empty digit string
(cf. `Props/C15.lean: C15_nonce_printed_is_digits`) -/
theorem nonceOf_ok {j : Json} {s : String} (h : nonceOf j = some s) : NonceOk s := by
  unfold nonceOf Wire.nonceDe at h
  split at h
  · unfold Wire.nonceFromDec at h
    split at h
    · cases h
    · rename_i hne
      split at h
      · rename_i hd
        cases h
        refine ⟨fun e => hne (by simp [e]), ?_⟩
        simpa using hd
      · cases h
  · cases h; exact ⟨AnonModel.Flows.natRepr_ne_empty _, AnonModel.Flows.natRepr_allDigits _⟩
  · cases h
  · cases h
  · simp only [Option.map_eq_some_iff] at h
    obtain ⟨bs, _, rfl⟩ := h
    exact ⟨AnonModel.Flows.natRepr_ne_empty _, AnonModel.Flows.natRepr_allDigits _⟩
  · cases h

theorem keysSorted_head_lt : ∀ (a : String) (ks : List String), keysSorted (a :: ks) = true →
    ∀ b ∈ ks, a < b
  | _, [], _ => by simp
  | a, b :: r, h => by
    simp only [keysSorted, Bool.and_eq_true, decide_eq_true_eq] at h
    intro c hc
    rcases List.mem_cons.mp hc with rfl | hc
    · exact h.1
    · exact String.lt_trans h.1 (keysSorted_head_lt b r h.2 c hc)

theorem keysSorted_tail : ∀ (a : String) (ks : List String), keysSorted (a :: ks) = true →
    keysSorted ks = true
  | _, [], _ => rfl
  | a, b :: r, h => by
    simp only [keysSorted, Bool.and_eq_true] at h
    exact h.2

/-- strictly increasing keys are pairwise distinct -/
theorem keysSorted_nodup : ∀ (ks : List String), keysSorted ks = true → ks.Nodup
  | [], _ => List.nodup_nil
  | a :: r, h => by
    rw [List.nodup_cons]
    refine ⟨fun hm => ?_, keysSorted_nodup r (keysSorted_tail a r h)⟩
    exact String.lt_irrefl a (keysSorted_head_lt a r h a hm)

theorem wf_lookup : ∀ (m : List (String × Json)) (k : String) (v : Json),
    wfEntries m = true → m.lookup k = some v → v.WF = true
  | [], _, _, _, h => by simp [List.lookup] at h
  | (k', v') :: r, k, v, hw, h => by
    simp only [wfEntries, Bool.and_eq_true] at hw
    simp only [List.lookup] at h
    split at h
    · cases h; exact hw.1
    · exact wf_lookup r k v hw.2 h

theorem mapMember_keys_nodup {α : Type} {de : Json → Option α} {m : List (String × Json)}
    {k : String} (hw : wfEntries m = true) {l : List (String × α)}
    (h : mapMember de (m.lookup k) = some l) : (l.map (·.1)).Nodup := by
  cases hk : m.lookup k with
  | none => rw [hk] at h; cases h; exact List.nodup_nil
  | some v =>
    rw [hk] at h
    have hv := wf_lookup m k v hw hk
    cases v with
    | obj m' =>
      simp only [mapMember] at h
      rw [mapDe_keys m' l h]
      simp only [Json.WF, Bool.and_eq_true] at hv
      exact keysSorted_nodup _ hv.1
    | _ => simp [mapMember] at h

theorem mapMember_keys_sorted {α : Type} {de : Json → Option α} {m : List (String × Json)}
    {k : String} (hw : wfEntries m = true) {l : List (String × α)}
    (h : mapMember de (m.lookup k) = some l) : keysSorted (l.map (·.1)) = true := by
  cases hk : m.lookup k with
  | none => rw [hk] at h; cases h; rfl
  | some v =>
    rw [hk] at h
    have hv := wf_lookup m k v hw hk
    cases v with
    | obj m' =>
      simp only [mapMember] at h
      rw [mapDe_keys m' l h]
      simp only [Json.WF, Bool.and_eq_true] at hv
      exact hv.1
    | _ => simp [mapMember] at h

theorem mapMember_all {α : Type} {de : Json → Option α} {P : α → Prop}
    (hde : ∀ j a, de j = some a → P a) {oj : Option Json} {l : List (String × α)}
    (h : mapMember de oj = some l) : ∀ kv ∈ l, P kv.2 := by
  cases oj with
  | none => cases h; simp
  | some v =>
    cases v with
    | obj m' => exact mapDe_all hde m' l h
    | _ => simp [mapMember] at h

/-- everything `reqDe` returns from a document with unique keys is well formed -/
theorem reqDe_wf {j : Json} {r : ReqDoc} (hj : j.WF = true) (h : reqDe j = some r) : WfReq r := by
  unfold reqDe at h
  split at h
  · rename_i m
    simp only [Json.WF, Bool.and_eq_true] at hj
    have hw := hj.2
    split at h
    · cases h
    · split at h
      · cases h
      · rename_i nonce hn
        split at h
        · cases h
        · split at h
          · cases h
          · split at h
            · cases h
            · rename_i attrs ha
              split at h
              · cases h
              · rename_i preds hp
                split at h
                · cases h
                · rename_i i hi
                  cases h
                  obtain ⟨jn, _, hjn⟩ := reqMember_some hn
                  exact ⟨nonceOf_ok hjn, mapMember_keys_nodup hw ha, mapMember_keys_nodup hw hp,
                    mapMember_all (P := AttrOk) (fun _ _ => attrDe_ok) ha,
                    mapMember_all (P := PredOk) (fun _ _ => predDe_ok) hp,
                    optMember_all (P := IvlOk) (fun _ _ => ivlDe_ok) hi⟩
  · cases h

/-- without the uniqueness hypothesis everything but the two `Nodup` clauses still holds -/
theorem reqDe_wf_weak {j : Json} {r : ReqDoc} (h : reqDe j = some r) :
    NonceOk r.nonce ∧ (∀ kv ∈ r.attrs, AttrOk kv.2) ∧ (∀ kv ∈ r.preds, PredOk kv.2) ∧
      OptAll IvlOk r.nonRevoked := by
  unfold reqDe at h
  split at h
  · split at h
    · cases h
    · split at h
      · cases h
      · rename_i nonce hn
        split at h
        · cases h
        · split at h
          · cases h
          · split at h
            · cases h
            · rename_i attrs ha
              split at h
              · cases h
              · rename_i preds hp
                split at h
                · cases h
                · rename_i i hi
                  cases h
                  obtain ⟨jn, _, hjn⟩ := reqMember_some hn
                  exact ⟨nonceOf_ok hjn,
                    mapMember_all (P := AttrOk) (fun _ _ => attrDe_ok) ha,
                    mapMember_all (P := PredOk) (fun _ _ => predDe_ok) hp,
                    optMember_all (P := IvlOk) (fun _ _ => ivlDe_ok) hi⟩
  · cases h

/-! ## `reqDe` on an object: the seven members it looks at -/

/-- the member names `PresentationRequest::deserialize` looks at -/
def reqKeys : List String :=
  ["ver", "nonce", "name", "version", "requested_attributes", "requested_predicates", "non_revoked"]

/-- two objects that agree on the seven known members are read alike (unknown members are
ignored) -/
theorem reqDe_congr {m m' : List (String × Json)} (h : ∀ k ∈ reqKeys, m'.lookup k = m.lookup k) :
    reqDe (.obj m') = reqDe (.obj m) := by
  simp only [reqDe, h "ver" (by simp [reqKeys]), h "nonce" (by simp [reqKeys]),
    h "name" (by simp [reqKeys]), h "version" (by simp [reqKeys]),
    h "requested_attributes" (by simp [reqKeys]), h "requested_predicates" (by simp [reqKeys]),
    h "non_revoked" (by simp [reqKeys])]

/-- inversion of `reqDe` on an object, member by member -/
theorem reqDe_obj_eq_some {m : List (String × Json)} {r : ReqDoc} :
    reqDe (.obj m) = some r ↔
      ∃ ver, Wire.verDe ((m.lookup "ver").map toW) = some ver ∧ r.v2 = verFlag ver ∧
        reqMember nonceOf (m.lookup "nonce") = some r.nonce ∧
        reqMember strDe (m.lookup "name") = some r.name ∧
        reqMember strDe (m.lookup "version") = some r.version ∧
        mapMember attrDe (m.lookup "requested_attributes") = some r.attrs ∧
        mapMember predDe (m.lookup "requested_predicates") = some r.preds ∧
        optMember ivlDe (m.lookup "non_revoked") = some r.nonRevoked := by
  constructor
  · intro h
    simp only [reqDe] at h
    split at h
    · cases h
    · rename_i ver hver
      split at h
      · cases h
      · rename_i h1
        split at h
        · cases h
        · rename_i h2
          split at h
          · cases h
          · rename_i h3
            split at h
            · cases h
            · rename_i h4
              split at h
              · cases h
              · rename_i h5
                split at h
                · cases h
                · rename_i h6
                  cases h
                  exact ⟨ver, hver, rfl, h1, h2, h3, h4, h5, h6⟩
  · rintro ⟨ver, hver, hv2, h1, h2, h3, h4, h5, h6⟩
    obtain ⟨nonce, name, version, attrs, preds, nr, v2⟩ := r
    simp only at hv2 h1 h2 h3 h4 h5 h6
    simp only [reqDe, hver, h1, h2, h3, h4, h5, h6, hv2]

/-- inversion of `attrDe` on an object -/
theorem attrDe_obj_eq_some {m : List (String × Json)} {a : AttrInfo} :
    attrDe (.obj m) = some a ↔
      optMember strDe (m.lookup "name") = some a.name ∧
      optMember strVecDe (m.lookup "names") = some a.names ∧
      optMember parseRestriction (m.lookup "restrictions") = some a.restrictions ∧
      optMember ivlDe (m.lookup "non_revoked") = some a.nonRevoked := by
  constructor
  · intro h
    simp only [attrDe] at h
    split at h
    · cases h
    · rename_i h1
      split at h
      · cases h
      · rename_i h2
        split at h
        · cases h
        · rename_i h3
          split at h
          · cases h
          · rename_i h4
            cases h
            exact ⟨h1, h2, h3, h4⟩
  · rintro ⟨h1, h2, h3, h4⟩
    obtain ⟨n, ns, r, i⟩ := a
    simp only at h1 h2 h3 h4
    simp only [attrDe, h1, h2, h3, h4]

/-! ## what `reqSer` writes has sorted, unique keys -/

theorem optSer_wf {α : Type} {ser : α → Json} (h : ∀ a, (ser a).WF = true) (o : Option α) :
    (optSer ser o).WF = true := by
  cases o with
  | none => rfl
  | some a => exact h a

theorem natSer_wf (n : Nat) : (natSer n).WF = true := rfl

theorem ivlSer_wf (i : Ivl) : (ivlSer i).WF = true := by
  have hk : keysSorted ["from", "to"] = true := by decide
  simp [ivlSer, Json.WF, wfEntries, hk, optSer_wf natSer_wf]

theorem attrSer_wf (a : AttrInfo) : (attrSer a).WF = true := by
  obtain ⟨n, ns, r, i⟩ := a
  have h1 : keysSorted ["name", "names", "non_revoked", "restrictions"] = true := by decide
  have h2 : keysSorted ["name", "non_revoked", "restrictions"] = true := by decide
  have h3 : keysSorted ["names", "non_revoked", "restrictions"] = true := by decide
  have h4 : keysSorted ["non_revoked", "restrictions"] = true := by decide
  have hi := optSer_wf ivlSer_wf i
  have hr := optSer_wf AnonModel.Query.print_wf r
  cases n <;> cases ns <;>
    simp [attrSer, Json.WF, wfEntries, h1, h2, h3, h4, hi, hr, AnonModel.Query.wfList_strs]

theorem predSer_wf (p : PredInfo) : (predSer p).WF = true := by
  obtain ⟨n, t, v, r, i⟩ := p
  have h1 : keysSorted ["name", "non_revoked", "p_type", "p_value", "restrictions"] = true := by
    decide
  have hi := optSer_wf ivlSer_wf i
  have hr := optSer_wf AnonModel.Query.print_wf r
  simp [predSer, Json.WF, wfEntries, h1, hi, hr]

theorem mapSer_keys {α : Type} (ser : α → Json) :
    ∀ l : List (String × α), (mapSer ser l).map (·.1) = l.map (·.1)
  | [] => rfl
  | (k, a) :: r => by simp [mapSer, mapSer_keys ser r]

theorem mapSer_wfEntries {α : Type} {ser : α → Json} (h : ∀ a, (ser a).WF = true) :
    ∀ l : List (String × α), wfEntries (mapSer ser l) = true
  | [] => rfl
  | (k, a) :: r => by simp [mapSer, wfEntries, h a, mapSer_wfEntries h r]

/-- `reqSer r` has strictly increasing keys everywhere as soon as the two referent lists are
strictly increasing (which is how a `BTreeMap` — what `to_value` builds — iterates) -/
theorem reqSer_wf (r : ReqDoc) (ha : keysSorted (r.attrs.map (·.1)) = true)
    (hp : keysSorted (r.preds.map (·.1)) = true) : (reqSer r).WF = true := by
  have hk : keysSorted ["name", "non_revoked", "nonce", "requested_attributes",
      "requested_predicates", "ver", "version"] = true := by decide
  have hi := optSer_wf ivlSer_wf r.nonRevoked
  have h1 : (Json.obj (mapSer attrSer r.attrs)).WF = true := by
    simp [Json.WF, mapSer_keys, ha, mapSer_wfEntries attrSer_wf]
  have h2 : (Json.obj (mapSer predSer r.preds)).WF = true := by
    simp [Json.WF, mapSer_keys, hp, mapSer_wfEntries predSer_wf]
  simp only [reqSer, Json.WF, wfEntries, List.map, hk, hi, Bool.and_self, Bool.true_and]
  simp only [Json.WF] at h1 h2
  simp [h1, h2]

end AnonModel.WireReq

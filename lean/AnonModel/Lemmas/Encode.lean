import AnonModel.Model.Encode
/-! Helper lemmas for C13 (digit loops ↔ decimal value). -/
namespace AnonModel.Encode

/-- all characters are ASCII digits -/
def AllDigits (cs : List Char) : Bool := cs.all Char.isDigit

theorem allDigits_iff {cs : List Char} : AllDigits cs = true ↔ ∀ c ∈ cs, c.isDigit = true := by
  simp [AllDigits]

/-- value of a digit string (core's `Nat.ofDigitChars`) -/
abbrev decVal (cs : List Char) (init : Nat := 0) : Nat := Nat.ofDigitChars 10 cs init

theorem digitVal_some {c : Char} {d : Nat} (h : digitVal c = some d) :
    c.isDigit = true ∧ d = c.toNat - '0'.toNat := by
  unfold digitVal at h
  split at h
  · simp at h; exact ⟨by assumption, h.symm⟩
  · simp at h

theorem digitVal_none {c : Char} (h : digitVal c = none) : c.isDigit = false := by
  unfold digitVal at h
  split at h
  · simp at h
  · rename_i hn; simpa using hn

theorem digitVal_of_isDigit {c : Char} (h : c.isDigit = true) :
    digitVal c = some (c.toNat - '0'.toNat) := by
  simp [digitVal, h]

theorem decVal_mono (cs : List Char) (a : Nat) : a ≤ decVal cs a := by
  induction cs generalizing a with
  | nil => simp [decVal]
  | cons c cs ih =>
    simp only [decVal, Nat.ofDigitChars_cons]
    have := ih (10 * a + (c.toNat - '0'.toNat))
    simp only [decVal] at this
    omega

/-- the positive loop accepts exactly digit strings whose value stays ≤ i32::MAX -/
theorem loopPos_spec (acc : Nat) (cs : List Char) (hacc : (acc : Int) ≤ i32Max) :
    loopPos acc cs =
      if AllDigits cs = true ∧ (decVal cs acc : Int) ≤ i32Max then some (decVal cs acc : Int) else none := by
  induction cs generalizing acc with
  | nil => simp [loopPos, AllDigits, decVal, hacc]
  | cons c cs ih =>
    simp only [loopPos]
    cases hd : digitVal c with
    | none =>
      have := digitVal_none hd
      simp [AllDigits, this]
    | some d =>
      obtain ⟨hc, hdv⟩ := digitVal_some hd
      have hall : AllDigits (c :: cs) = AllDigits cs := by
        simp [AllDigits, hc]
      have hval : decVal (c :: cs) acc = decVal cs (10 * acc + d) := by
        simp [decVal, Nat.ofDigitChars_cons, hdv]
      have hmono := decVal_mono cs (10 * acc + d)
      simp only [hall, hval]
      by_cases h1 : (acc : Int) * 10 > i32Max
      · have : ¬ ((decVal cs (10 * acc + d) : Int) ≤ i32Max) := by
          unfold i32Max at *; omega
        simp [h1, this]
      · by_cases h2 : (acc : Int) * 10 + d > i32Max
        · have : ¬ ((decVal cs (10 * acc + d) : Int) ≤ i32Max) := by
            unfold i32Max at *; omega
          simp [h1, h2, this]
        · have := ih (10 * acc + d) (by push_cast; omega)
          have e : (acc : Int) * 10 + (d : Int) = ((10 * acc + d : Nat) : Int) := by
            push_cast; omega
          have h2' : ¬ (((10 * acc + d : Nat) : Int) > i32Max) := by rw [← e]; exact h2
          simp only [h1, if_false, e, h2']
          exact this

/-- the negative loop accepts exactly digit strings whose negated value stays ≥ i32::MIN -/
theorem loopNeg_spec (acc : Nat) (cs : List Char) (hacc : i32Min ≤ -(acc : Int)) :
    loopNeg (-(acc : Int)) cs =
      if AllDigits cs = true ∧ i32Min ≤ -(decVal cs acc : Int) then some (-(decVal cs acc : Int)) else none := by
  induction cs generalizing acc with
  | nil => simp [loopNeg, AllDigits, decVal, hacc]
  | cons c cs ih =>
    simp only [loopNeg]
    cases hd : digitVal c with
    | none =>
      have := digitVal_none hd
      simp [AllDigits, this]
    | some d =>
      obtain ⟨hc, hdv⟩ := digitVal_some hd
      have hall : AllDigits (c :: cs) = AllDigits cs := by
        simp [AllDigits, hc]
      have hval : decVal (c :: cs) acc = decVal cs (10 * acc + d) := by
        simp [decVal, Nat.ofDigitChars_cons, hdv]
      have hmono := decVal_mono cs (10 * acc + d)
      simp only [hall, hval]
      by_cases h1 : -(acc : Int) * 10 < i32Min
      · have : ¬ (i32Min ≤ -(decVal cs (10 * acc + d) : Int)) := by
          unfold i32Min at *; omega
        simp [h1, this]
      · by_cases h2 : -(acc : Int) * 10 - d < i32Min
        · have : ¬ (i32Min ≤ -(decVal cs (10 * acc + d) : Int)) := by
            unfold i32Min at *; omega
          simp [h1, h2, this]
        · have := ih (10 * acc + d) (by push_cast; omega)
          have e : -(acc : Int) * 10 - (d : Int) = -((10 * acc + d : Nat) : Int) := by
            push_cast; omega
          have h2' : ¬ (-((10 * acc + d : Nat) : Int) < i32Min) := by rw [← e]; exact h2
          simp only [h1, if_false, e, h2']
          exact this

theorem loopPos_zero (cs : List Char) :
    loopPos 0 cs = if AllDigits cs = true ∧ (decVal cs : Int) ≤ i32Max then some (decVal cs : Int) else none := by
  have := loopPos_spec 0 cs (by unfold i32Max; omega)
  simpa using this

theorem loopNeg_zero (cs : List Char) :
    loopNeg 0 cs = if AllDigits cs = true ∧ i32Min ≤ -(decVal cs : Int) then some (-(decVal cs : Int)) else none := by
  have := loopNeg_spec 0 cs (by unfold i32Min; omega)
  simpa using this

end AnonModel.Encode
